"""Triage demo for known finding C08-d: negating a unit quaternion (same rotation) changes chi^2 of an SE(3) odometry edge
when the information matrix couples translation and rotation.  Run with /venv/bin/python (not part of any check)."""
import numpy as np
from graphslam.edge.edge_odometry import EdgeOdometry
from graphslam.pose.se3 import PoseSE3
from graphslam.vertex import Vertex

rng = np.random.RandomState(1)


def rq():
    q = rng.randn(4)
    return q / np.linalg.norm(q)


A = rng.randn(6, 6)
W = A @ A.T + 6 * np.eye(6)
p1, p2, z = (PoseSE3(rng.randn(3), rq()) for _ in range(3))
for who in ("z", "p1", "p2"):
    def chi2(flip):
        ps = {"p1": p1.copy(), "p2": p2.copy(), "z": z.copy()}
        if flip:
            ps[who][3:] = -ps[who][3:]
        e = EdgeOdometry([0, 1], W, ps["z"], [Vertex(0, ps["p1"]), Vertex(1, ps["p2"])])
        return e.calc_chi2()
    print("negate %s.q: chi2 %.6f -> %.6f" % (who, chi2(False), chi2(True)))
