"""Triage demo (C17-Q1/Q2): equals raises / answers True across types."""
import numpy as np
from graphslam.edge.edge_landmark import EdgeLandmark
from graphslam.edge.edge_odometry import EdgeOdometry
from graphslam.pose.r2 import PoseR2
from graphslam.pose.r3 import PoseR3
from graphslam.pose.se2 import PoseSE2


def show(label, f):
    try:
        print(label, "->", f())
    except Exception as e:  # noqa
        print(label, "-> raises", type(e).__name__, e)


show("PoseR3([1,2,.5]).equals(PoseSE2([1,2],.5))", lambda: PoseR3([1, 2, 0.5]).equals(PoseSE2([1, 2], 0.5)))
show("PoseR2.equals(PoseSE2)", lambda: PoseR2([1, 2]).equals(PoseSE2([1, 2], 0.5)))
lm = EdgeLandmark([0, 1], np.eye(2), PoseR2([1, 2]), offset=PoseSE2.identity())
od = EdgeOdometry([0, 1], np.eye(3), PoseSE2([1, 2], 0.5))
show("EdgeLandmark.equals(EdgeOdometry)", lambda: lm.equals(od))
show("EdgeOdometry.equals(EdgeLandmark)", lambda: od.equals(lm))
