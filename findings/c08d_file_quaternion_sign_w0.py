"""C08-d, boundary case: an EDGE_SE3:QUAT line whose measurement quaternion has scalar part exactly 0 (a half turn) and the same line
with the quaternion negated (the same rotation) are read as different measurements: PoseSE3.normalize() canonicalises by the sign of
w alone, which cannot tell q from -q when w == 0.  With an information matrix that couples translation and rotation the chi^2 of the
two files differs (same root cause as the parity findings: the rotational rows of the SE(3) odometry error are odd in the measurement
quaternion).  Run: cd /repo && /venv/bin/python /verif/findings/c08d_file_quaternion_sign_w0.py   (exits 1 while the defect is there)"""
import sys

from graphslam.edge.edge_odometry import EdgeOdometry
from graphslam.pose.se3 import PoseSE3
from graphslam.vertex import Vertex

info = " ".join(str(x) for x in [2, 0.3, 0, 0.5, 0, 0, 2, 0, 0, 0.4, 0, 2, 0, 0, 0.2, 3, 0, 0, 3, 0, 3])
e1 = EdgeOdometry.from_g2o("EDGE_SE3:QUAT 0 1 1 2 3 1 0 0 0 " + info)
e2 = EdgeOdometry.from_g2o("EDGE_SE3:QUAT 0 1 1 2 3 -1 -0 -0 -0 " + info)
v = [Vertex(0, PoseSE3([0, 0, 0], [0, 0, 0, 1])), Vertex(1, PoseSE3([1.1, 2, 3.2], [0.9, 0.1, 0, 0.1]))]
v[1].pose.normalize()
chi = []
for e in (e1, e2):
    e.vertices = v
    chi.append(e.calc_chi2())
print("estimates:", e1.estimate, e2.estimate)
print("chi^2 of the two files:", chi)
sys.exit(0 if abs(chi[0] - chi[1]) < 1e-12 else 1)
