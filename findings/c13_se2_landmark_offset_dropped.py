"""Triage demo (C13-L4): exporting an SE(2) landmark edge with a non-identity offset silently drops the offset."""
import os, tempfile
import numpy as np
from graphslam.edge.edge_landmark import EdgeLandmark
from graphslam.graph import Graph
from graphslam.pose.r2 import PoseR2
from graphslam.pose.se2 import PoseSE2
from graphslam.vertex import Vertex

v = [Vertex(0, PoseSE2([0.0, 0.0], 0.3)), Vertex(1, PoseR2([2.0, 1.0]))]
e = EdgeLandmark([0, 1], np.eye(2), PoseR2([1.5, 0.2]), offset=PoseSE2([1.0, 2.0], 0.5), offset_id=0)
g = Graph([e], v)
print("chi2 before export:", g.calc_chi2())
path = os.path.join(tempfile.mkdtemp(), "g.g2o")
try:
    g.to_g2o(path)
except NotImplementedError as ex:
    print("export refused:", ex)
else:
    print("chi2 after export/import:", Graph.from_g2o(path).calc_chi2())
