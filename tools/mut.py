#!/usr/bin/env python3
"""Development helper: copy /repo/graphslam to <outdir> and apply textual replacements.
usage: mut.py <outdir> <relfile> <old> <new> [<relfile> <old> <new> ...]   (old must occur exactly once, or use @N suffix in relfile for the N-th occurrence)"""
import os, shutil, sys
out = sys.argv[1]
shutil.rmtree(out, ignore_errors=True)
os.makedirs(out)
shutil.copytree("/repo/graphslam", os.path.join(out, "graphslam"))
args = sys.argv[2:]
for i in range(0, len(args), 3):
    rel, old, new = args[i:i + 3]
    nth = None
    if "@" in rel:
        rel, nth = rel.split("@"); nth = int(nth)
    p = os.path.join(out, rel)
    s = open(p).read()
    cnt = s.count(old)
    if cnt == 0 or (cnt > 1 and nth is None):
        sys.exit("pattern occurs %d times in %s: %r" % (cnt, rel, old))
    if nth is None:
        s = s.replace(old, new)
    else:
        idx = -1
        for _ in range(nth):
            idx = s.index(old, idx + 1)
        s = s[:idx] + new + s[idx + len(old):]
    open(p, "w").write(s)
print("mutant in", out)
