#!/usr/bin/env python3
"""Re-run every quick check on every kept refactoring (scratch copies) and refresh refactorings/*/meta.json."""
import json, os, shutil, subprocess, sys, tempfile
from concurrent.futures import ThreadPoolExecutor
PROPS = ["C01", "C02", "C03", "C04", "C06", "C07", "C08", "C09", "C10", "C11", "C12", "C13", "C14", "C15", "C16", "C17", "C18"]
ROOT = "/verif/refactorings"


def one(rid):
    d = os.path.join(ROOT, rid)
    meta = json.load(open(os.path.join(d, "meta.json")))
    tmp = tempfile.mkdtemp(prefix="gsverif-reref-")
    try:
        subprocess.run("git -C /repo archive HEAD graphslam | tar -x -C %s" % tmp, shell=True, check=True)
        r = subprocess.run(["patch", "-p1", "-s", "-i", os.path.join(d, "patch.diff")], cwd=tmp, capture_output=True, text=True)
        if r.returncode:
            return rid, "patch failed"
        verdicts = {}
        for p in PROPS:
            r = subprocess.run(["./check", p, "--repo", tmp, "--no-evidence"], cwd="/verif", capture_output=True, text=True)
            if r.returncode:
                verdicts[p] = dict(exit=r.returncode, lines=[l.strip()[:240] for l in r.stdout.splitlines() if l.startswith(("  rule=", "ANALYSIS-ERROR"))][:3])
        meta["verdicts"] = verdicts
        meta["false_alarms"] = [p for p, v in verdicts.items() if v["exit"] == 1]
        meta["undecided"] = [p for p, v in verdicts.items() if v["exit"] == 2]
        json.dump(meta, open(os.path.join(d, "meta.json"), "w"), indent=1)
        return rid, "SILENT" if not verdicts else ("FALSE-ALARM %s" % meta["false_alarms"] if meta["false_alarms"] else "UNDECIDED %s" % meta["undecided"])
    finally:
        shutil.rmtree(tmp, ignore_errors=True)


ids = sys.argv[1:] or sorted(x for x in os.listdir(ROOT) if os.path.exists(os.path.join(ROOT, x, "meta.json")))
with ThreadPoolExecutor(max_workers=6) as ex:
    res = list(ex.map(one, ids))
bad = [r for r in res if r[1] != "SILENT"]
for r in res:
    print("%-28s %s" % r)
print("%d refactorings, %d not silent" % (len(res), len(bad)))
