#!/usr/bin/env python3
"""Confirm a sub-agent's mutant and (if confirmed) keep it under /verif/seeded/<prop>-<name>/.

usage: tools/ingest.py <PROP> <patch> <demo.py> [notes.md] [--name NAME] [--skip-suite]

Steps (all in a fresh scratch worktree of /repo under /tmp, removed afterwards):
  1. patch applies to a clean HEAD and touches only graphslam/
  2. demo passes WITHOUT the patch, fails WITH it
  3. the unedited test-suite passes WITH the patch
  4. patch is applied to /repo, every quick check is run (no evidence written), patch is undone; the verdicts are recorded
"""
import argparse
import json
import os
import shutil
import subprocess
import sys
import tempfile

PY = "/venv/bin/python"
PROPS = ["C01", "C02", "C03", "C04", "C06", "C07", "C08", "C09", "C10", "C11", "C12", "C13", "C14", "C15", "C16", "C17", "C18"]


def sh(cmd, cwd=None, env=None, timeout=1800):
    r = subprocess.run(cmd, shell=True, cwd=cwd, env=env, capture_output=True, text=True, timeout=timeout)
    return r.returncode, (r.stdout + r.stderr)


def main():
    ap = argparse.ArgumentParser()
    ap.add_argument("prop")
    ap.add_argument("patch")
    ap.add_argument("demo")
    ap.add_argument("notes", nargs="?")
    ap.add_argument("--name")
    ap.add_argument("--skip-suite", action="store_true")
    a = ap.parse_args()
    name = a.name or os.path.splitext(os.path.basename(a.patch))[0]
    sid = "%s-%s" % (a.prop, name)
    patch = os.path.abspath(a.patch)
    demo = os.path.abspath(a.demo)
    ran = []
    wt = tempfile.mkdtemp(prefix="gsverif-ingest-")
    os.rmdir(wt)
    rc, out = sh("git -C /repo worktree add -q --detach %s HEAD" % wt)
    if rc:
        sys.exit("worktree failed: " + out)
    ok = True
    try:
        env = dict(os.environ, PYTHONPATH=wt)
        rc, out = sh("git -C %s apply --check %s" % (wt, patch))
        ran.append(dict(cmd="git apply --check", exit=rc))
        if rc:
            print(sid, "REJECT: patch does not apply to HEAD:", out[:300])
            return 1
        files = sh("git -C %s apply --numstat %s" % (wt, patch))[1].split("\n")
        touched = [l.split("\t")[-1] for l in files if l.strip()]
        if not touched or not all(t.startswith("graphslam/") for t in touched):
            print(sid, "REJECT: patch touches", touched)
            return 1
        shutil.copy(demo, os.path.join(wt, "_demo.py"))
        rc0, out0 = sh("%s _demo.py" % PY, cwd=wt, env=env, timeout=900)
        ran.append(dict(cmd="demo without the change", exit=rc0))
        sh("git -C %s apply %s" % (wt, patch))
        rc1, out1 = sh("%s _demo.py" % PY, cwd=wt, env=env, timeout=900)
        ran.append(dict(cmd="demo with the change", exit=rc1, tail=out1[-400:]))
        if rc0 != 0 or rc1 == 0:
            print(sid, "REJECT: demo without change exit=%d, with change exit=%d" % (rc0, rc1))
            print(out0[-300:], "\n---\n", out1[-300:])
            return 1
        imp = sh("%s -c \"import graphslam; print(graphslam.__file__)\"" % PY, cwd=wt, env=env)[1].strip()
        if not imp.startswith(wt):
            print(sid, "REJECT: wrong package imported", imp)
            return 1
        if not a.skip_suite:
            rc, out = sh("%s -m pytest -q -p no:cacheprovider --timeout=900 -x" % PY, cwd=wt, env=env, timeout=3000)
            tail = out.strip().splitlines()[-1] if out.strip() else ""
            ran.append(dict(cmd="pytest (unedited suite) with the change", exit=rc, tail=tail))
            if rc != 0 or "189 passed" not in tail:
                print(sid, "REJECT: test-suite with the change:", tail)
                return 1
    finally:
        sh("git -C /repo worktree remove --force %s" % wt)
        shutil.rmtree(wt, ignore_errors=True)
    # 4. run the checks against /repo with the patch applied (serialised: /repo is shared)
    import fcntl
    lock = open("/tmp/gsverif-ingest.lock", "w")
    fcntl.flock(lock, fcntl.LOCK_EX)
    rc, out = sh("git -C /repo status --porcelain")
    if out.strip():
        sys.exit("/repo is not clean; refusing to apply")
    rc, out = sh("git -C /repo apply %s" % patch)
    if rc:
        sys.exit("apply to /repo failed " + out)
    verdicts = {}
    try:
        procs = {p: subprocess.Popen("./check %s --no-evidence" % p, shell=True, cwd="/verif", stdout=subprocess.PIPE, stderr=subprocess.STDOUT, text=True)
                 for p in PROPS}
        for p, pr in procs.items():
            out = pr.communicate()[0]
            rules = [l.strip() for l in out.splitlines() if l.startswith("  rule=")]
            errs = [l.strip()[:200] for l in out.splitlines() if l.startswith("ANALYSIS-ERROR")]
            verdicts[p] = dict(exit=pr.returncode, constructs=rules[:4], errors=errs[:2])
    finally:
        sh("git -C /repo checkout -- .")
    fired = [p for p, v in verdicts.items() if v["exit"] == 1]
    undecided = [p for p, v in verdicts.items() if v["exit"] == 2]
    d = os.path.join("/verif/seeded", sid)
    os.makedirs(d, exist_ok=True)
    shutil.copy(patch, os.path.join(d, "patch.diff"))
    shutil.copy(demo, os.path.join(d, "demo.py"))
    notes = open(a.notes).read() if a.notes and os.path.exists(a.notes) else ""
    meta = dict(id=sid, breaks_property=a.prop, files=touched, needs_to_manifest=notes, confirmed=ran,
                checks_fired=fired, checks_undecided=undecided, target_detected=a.prop in fired,
                verdicts={p: v for p, v in verdicts.items() if v["exit"] != 0})
    json.dump(meta, open(os.path.join(d, "meta.json"), "w"), indent=1)
    print("%s KEPT  target %s: %s | fired=%s undecided=%s" % (sid, a.prop, "DETECTED" if a.prop in fired else "MISSED", fired, undecided))
    for p in fired + undecided:
        for c in verdicts[p]["constructs"][:2] + verdicts[p]["errors"][:1]:
            print("     ", p, c[:220])
    return 0


if __name__ == "__main__":
    sys.exit(main())
