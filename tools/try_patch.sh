#!/bin/sh
# usage: tools/try_patch.sh <patch> [props...]  -- apply to /repo, run the quick checks (no evidence written), undo.
P="$1"; shift
PROPS="${@:-C01 C02 C03 C04 C06 C07 C08 C09 C10 C11 C12 C13 C14 C15 C16 C17 C18}"
git -C /repo apply "$P" || { echo "APPLY FAILED"; exit 3; }
trap 'git -C /repo checkout -- . ' EXIT
cd /verif
for p in $PROPS; do
  ./check $p --no-evidence > /tmp/try_$p.log 2>&1 &
done
wait
for p in $PROPS; do
  line=$(tail -1 /tmp/try_$p.log)
  case "$line" in *HOLDS*) ;; *) echo "$line"; grep -E "^  rule=" /tmp/try_$p.log | head -3; grep -E "^ANALYSIS" /tmp/try_$p.log | head -2 | cut -c1-300;; esac
done
echo "-- done (others HOLD)"
