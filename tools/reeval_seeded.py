#!/usr/bin/env python3
"""Re-run every quick check against every kept mutant (scratch copies of /repo's HEAD + patch, removed afterwards) and refresh
seeded/*/meta.json (checks_fired / checks_undecided / target_detected).  usage: tools/reeval_seeded.py [ids...]"""
import json, os, shutil, subprocess, sys, tempfile
from concurrent.futures import ThreadPoolExecutor

PROPS = ["C01", "C02", "C03", "C04", "C06", "C07", "C08", "C09", "C10", "C11", "C12", "C13", "C14", "C15", "C16", "C17", "C18"]
ROOT = "/verif/seeded"


def one(sid):
    d = os.path.join(ROOT, sid)
    meta = json.load(open(os.path.join(d, "meta.json")))
    tmp = tempfile.mkdtemp(prefix="gsverif-reeval-")
    try:
        subprocess.run("git -C /repo archive HEAD graphslam | tar -x -C %s" % tmp, shell=True, check=True)
        r = subprocess.run(["patch", "-p1", "-s", "-i", os.path.join(d, "patch.diff")], cwd=tmp, capture_output=True, text=True)
        if r.returncode:
            return sid, None, "patch failed: " + r.stdout[:200]
        verdicts = {}
        for p in PROPS:
            r = subprocess.run(["./check", p, "--repo", tmp, "--no-evidence"], cwd="/verif", capture_output=True, text=True)
            rules = [l.strip() for l in r.stdout.splitlines() if l.startswith("  rule=")]
            errs = [l.strip()[:200] for l in r.stdout.splitlines() if l.startswith("ANALYSIS-ERROR")]
            verdicts[p] = dict(exit=r.returncode, constructs=rules[:4], errors=errs[:2])
        meta["checks_fired"] = [p for p in PROPS if verdicts[p]["exit"] == 1]
        meta["checks_undecided"] = [p for p in PROPS if verdicts[p]["exit"] == 2]
        meta["target_detected"] = meta["breaks_property"] in meta["checks_fired"]
        meta["verdicts"] = {p: v for p, v in verdicts.items() if v["exit"] != 0}
        json.dump(meta, open(os.path.join(d, "meta.json"), "w"), indent=1)
        return sid, meta, None
    finally:
        shutil.rmtree(tmp, ignore_errors=True)


def main():
    ids = sys.argv[1:] or sorted(x for x in os.listdir(ROOT) if os.path.exists(os.path.join(ROOT, x, "meta.json")))
    with ThreadPoolExecutor(max_workers=6) as ex:
        res = list(ex.map(one, ids))
    miss = 0
    for sid, meta, err in res:
        if err:
            print("%-10s ERROR %s" % (sid, err))
            continue
        tag = "DETECTED" if meta["target_detected"] else "MISSED  "
        miss += not meta["target_detected"]
        print("%-10s %s fired=%s undecided=%s" % (sid, tag, ",".join(meta["checks_fired"]), ",".join(meta["checks_undecided"])))
    print("%d mutants, %d with the target property missed" % (len(res), miss))


if __name__ == "__main__":
    main()
