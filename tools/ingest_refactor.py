#!/usr/bin/env python3
"""Keep a behaviour-preserving refactoring written by a sub-agent under /verif/refactorings/<id>/ after confirming that the unedited
test-suite passes with it; record the verdict of every quick check (a check exiting 1 on it is a FALSE ALARM).
usage: tools/ingest_refactor.py <id> <patch> [notes.md]"""
import json, os, shutil, subprocess, sys, tempfile
PY = "/venv/bin/python"
PROPS = ["C01", "C02", "C03", "C04", "C06", "C07", "C08", "C09", "C10", "C11", "C12", "C13", "C14", "C15", "C16", "C17", "C18"]
rid, patch = sys.argv[1], os.path.abspath(sys.argv[2])
notes = open(sys.argv[3]).read() if len(sys.argv) > 3 and os.path.exists(sys.argv[3]) else ""
wt = tempfile.mkdtemp(prefix="gsverif-refac-")
os.rmdir(wt)
subprocess.run("git -C /repo worktree add -q --detach %s HEAD" % wt, shell=True, check=True)
try:
    r = subprocess.run("git -C %s apply %s" % (wt, patch), shell=True, capture_output=True, text=True)
    if r.returncode:
        sys.exit("%s REJECT: patch does not apply: %s" % (rid, r.stderr[:200]))
    env = dict(os.environ, PYTHONPATH=wt)
    r = subprocess.run("%s -m pytest -q -p no:cacheprovider --timeout=900 -x" % PY, shell=True, cwd=wt, env=env, capture_output=True, text=True)
    tail = (r.stdout.strip().splitlines() or [""])[-1]
    if r.returncode or "189 passed" not in tail:
        sys.exit("%s REJECT: test-suite: %s" % (rid, tail))
    verdicts = {}
    for p in PROPS:
        r = subprocess.run(["./check", p, "--repo", wt, "--no-evidence"], cwd="/verif", capture_output=True, text=True)
        if r.returncode:
            verdicts[p] = dict(exit=r.returncode, lines=[l.strip()[:240] for l in r.stdout.splitlines() if l.startswith(("  rule=", "ANALYSIS-ERROR"))][:3])
finally:
    subprocess.run("git -C /repo worktree remove --force %s" % wt, shell=True)
    shutil.rmtree(wt, ignore_errors=True)
d = os.path.join("/verif/refactorings", rid)
os.makedirs(d, exist_ok=True)
shutil.copy(patch, os.path.join(d, "patch.diff"))
fa = [p for p, v in verdicts.items() if v["exit"] == 1]
und = [p for p, v in verdicts.items() if v["exit"] == 2]
json.dump(dict(id=rid, kind="behaviour-preserving refactoring", notes=notes, suite=tail, false_alarms=fa, undecided=und, verdicts=verdicts),
          open(os.path.join(d, "meta.json"), "w"), indent=1)
print("%-8s %s  false_alarms=%s undecided=%s" % (rid, "SILENT" if not verdicts else ("FALSE-ALARM" if fa else "UNDECIDED"), fa, und))
