#!/usr/bin/env python3
"""Run every quick check against behaviour-preserving refactorings (scratch copies; nothing is written to /repo).
usage: tools/try_refactor.py <patch>...   -> per patch: FALSE-ALARM (some check exits 1), UNDECIDED (exit 2), SILENT"""
import os, shutil, subprocess, sys, tempfile
from concurrent.futures import ThreadPoolExecutor
PROPS = ["C01", "C02", "C03", "C04", "C06", "C07", "C08", "C09", "C10", "C11", "C12", "C13", "C14", "C15", "C16", "C17", "C18"]


def one(patch):
    tmp = tempfile.mkdtemp(prefix="gsverif-refac-")
    try:
        subprocess.run("git -C /repo archive HEAD graphslam | tar -x -C %s" % tmp, shell=True, check=True)
        r = subprocess.run(["patch", "-p1", "-s", "-i", os.path.abspath(patch)], cwd=tmp, capture_output=True, text=True)
        if r.returncode:
            return patch, "PATCH-FAILED", [r.stdout[:200]]
        lines, worst = [], 0
        for p in PROPS:
            r = subprocess.run(["./check", p, "--repo", tmp, "--no-evidence"], cwd="/verif", capture_output=True, text=True)
            if r.returncode:
                worst = max(worst, 2 if r.returncode == 1 else 1)
                keep = [l.strip()[:260] for l in r.stdout.splitlines() if l.startswith(("  rule=", "ANALYSIS-ERROR", "    "))][:4]
                lines.append("%s exit=%d" % (p, r.returncode))
                lines += ["    " + k for k in keep]
        return patch, {0: "SILENT", 1: "UNDECIDED", 2: "FALSE-ALARM"}[worst], lines
    finally:
        shutil.rmtree(tmp, ignore_errors=True)


with ThreadPoolExecutor(max_workers=6) as ex:
    for patch, verdict, lines in ex.map(one, sys.argv[1:]):
        print("%-14s %s" % (verdict, patch))
        for l in lines:
            print("      " + l)
