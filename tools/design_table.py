#!/usr/bin/env python3
"""Print the markdown tables for DESIGN.md section 7 from seeded/*/meta.json and the variant catalogue."""
import json, os, sys
sys.path.insert(0, "/verif")
from gsverif.variants import CATALOGUE
print("### 7.1 Independent mutants written by sub-agents (kept under `seeded/<id>/`)\n")
print("| id | change (what it needs to manifest) | checks that report it | undecided |")
print("|---|---|---|---|")
for sid in sorted(os.listdir("/verif/seeded")):
    mp = os.path.join("/verif/seeded", sid, "meta.json")
    if not os.path.exists(mp):
        continue
    m = json.load(open(mp))
    notes = " ".join(l.strip("#*- ").strip() for l in m.get("needs_to_manifest", "").splitlines() if l.strip())[:230].replace("|", "/")
    print("| %s | %s | %s | %s |" % (sid, notes, ", ".join(m["checks_fired"]) or "—", ", ".join(m["checks_undecided"]) or ""))
print("\n### 7.2 Catalogue variants (`gsverif/variants.py`)\n")
print("| variant | kind | properties |")
print("|---|---|---|")
for v in CATALOGUE:
    print("| %s | %s | %s |" % (v["id"], v["kind"], ", ".join(v["props"])))
print("\n### 7.3 Behaviour-preserving refactorings written by sub-agents (kept under `refactorings/<id>/`)\n")
print("| id | refactoring | verdict of all 17 checks |")
print("|---|---|---|")
for rid in sorted(os.listdir("/verif/refactorings")):
    mp = os.path.join("/verif/refactorings", rid, "meta.json")
    if not os.path.exists(mp):
        continue
    m = json.load(open(mp))
    notes = " ".join(l.strip("#*- ").strip() for l in m.get("notes", "").splitlines() if l.strip())[:200].replace("|", "/")
    fa, und = m.get("false_alarms", []), m.get("undecided", [])
    print("| %s | %s | %s |" % (rid, notes, "silent" if not fa and not und else ("FALSE ALARM " + ",".join(fa) if fa else "undecided " + ",".join(und))))
