"""Engine D: the .g2o text layer.

Writers and readers are translated by the algebraic interpreter extended with a *text model*: a number formatted with a
bare `{}` / str() / repr() becomes an opaque whitespace-free token that stands for its shortest round-trip decimal
rendering; string operations of the readers (startswith, slicing by len(tag), split, strip) are applied to the concrete
text around those tokens; float()/int() of a token gives back the number it stands for.  Files are virtual.
Any other number formatting (precision/width/type specs, round, casts) is reported as lossy.
"""
from .poly import Poly
from .interp import ga, sa, Arr, Pose, Obj, sym_pose, sym_vec, PathRaise, PI
from .algebra import ObFail, CDIM
from .assembly import sym_symmetric

# the checker's own vocabulary table of supported line types: tag -> (kind, field layout)
VOCABULARY = {
    "VERTEX_XY": ("vertex", "PoseR2", 2),
    "VERTEX_TRACKXYZ": ("vertex", "PoseR3", 3),
    "VERTEX_SE2": ("vertex", "PoseSE2", 3),
    "VERTEX_SE3:QUAT": ("vertex", "PoseSE3", 7),
    "EDGE_SE2": ("odometry", "PoseSE2", 3, 3),
    "EDGE_SE3:QUAT": ("odometry", "PoseSE3", 7, 6),
    "EDGE_SE2_XY": ("landmark", "PoseR2", 2, 2, None),
    "EDGE_SE3_TRACKXYZ": ("landmark", "PoseR3", 3, 3, "PARAMS_SE3OFFSET"),
    "PARAMS_SE2OFFSET": ("param", "PoseSE2", 3),
    "PARAMS_SE3OFFSET": ("param", "PoseSE3", 7),
}


def eq_poly(it, a, b):
    return isinstance(a, Poly) and isinstance(b, Poly) and it.known_zero(a - b)


def same_pose(it, a, b, what, allow_neg_quat=False):
    if not isinstance(a, Pose) or not isinstance(b, Pose):
        raise ObFail("%s: %r vs %r" % (what, a, b))
    if a.cls != b.cls or len(a.data) != len(b.data):
        raise ObFail("%s: pose type %s%s became %s%s" % (what, b.cls, b.shape, a.cls, a.shape))
    npos = {"PoseR2": 2, "PoseR3": 3, "PoseSE2": 2, "PoseSE3": 3}[a.cls]
    for i in range(npos):
        if not eq_poly(it, a.data[i], b.data[i]):
            raise ObFail("%s: component %d differs (%s vs %s)" % (what, i, _s(a.data[i]), _s(b.data[i])))
    if a.cls == "PoseSE2":
        d = a.data[2] - b.data[2]
        two_pi = PI() * 2
        if not any(it.known_zero(d - two_pi * k) for k in range(-3, 4)):
            raise ObFail("%s: angle differs (%s vs %s)" % (what, _s(a.data[2]), _s(b.data[2])))
    if a.cls == "PoseSE3":
        from .interp import Quot
        qa, qb = a.data[3:], b.data[3:]
        if any(isinstance(x, Quot) for x in qa + qb):
            raise ObFail("%s: quaternion not in normal form" % what)
        same = all(eq_poly(it, x, y) for x, y in zip(qa, qb))
        neg = all(eq_poly(it, x, -y) for x, y in zip(qa, qb))
        if not (same or (neg and allow_neg_quat)):
            raise ObFail("%s: quaternion differs" % what)


def _s(p):
    return p.short(60) if isinstance(p, Poly) else repr(p)


def same_matrix(it, a, b, what):
    if not isinstance(a, Arr) or not isinstance(b, Arr) or a.shape != b.shape:
        raise ObFail("%s: shape %s vs %s" % (what, getattr(a, "shape", None), getattr(b, "shape", None)))
    for i, (x, y) in enumerate(zip(a.flat(), b.flat())):
        if not eq_poly(it, x, y):
            raise ObFail("%s: entry %d differs (%s vs %s)" % (what, i, _s(x), _s(y)))


def same_ids(it, a, b, what):
    a, b = list(a), list(b)
    if len(a) != len(b) or not all(eq_poly(it, x, y) for x, y in zip(a, b)):
        raise ObFail("%s: ids differ" % what)


def same_vertex(it, a, b, what):
    if not isinstance(a, Obj) or a.cls != b.cls:
        raise ObFail("%s: read back as %r" % (what, a))
    if not eq_poly(it, ga(a, "id", None), ga(b, "id", None)):
        raise ObFail("%s: id differs" % what)
    same_pose(it, ga(a, "pose", None), ga(b, "pose", None), what + ": pose")


def same_edge(it, a, b, what):
    if not isinstance(a, Obj) or a.cls != b.cls:
        raise ObFail("%s: read back as %r" % (what, a))
    same_ids(it, ga(a, "vertex_ids", None), ga(b, "vertex_ids", None), what + ": vertex_ids")
    same_matrix(it, ga(a, "information", None), ga(b, "information", None), what + ": information")
    same_pose(it, ga(a, "estimate", None), ga(b, "estimate", None), what + ": estimate", allow_neg_quat=True)
    if a.cls == "EdgeLandmark":
        same_pose(it, ga(a, "offset", None), ga(b, "offset", None), what + ": offset", allow_neg_quat=True)
        if ga(b, "offset", None) is not None and ga(b, "offset").cls == "PoseSE3":
            if not eq_poly(it, ga(a, "offset_id", None), ga(b, "offset_id", None)):
                raise ObFail("%s: offset_id differs" % what)


def same_param(it, a, b, what):
    if not isinstance(a, Obj) or a.cls != b.cls:
        raise ObFail("%s: read back as %r" % (what, a))
    ka, kb = ga(a, "key", None), ga(b, "key", None)
    if not (isinstance(ka, tuple) and isinstance(kb, tuple) and len(ka) == 2 == len(kb) and ka[0] == kb[0] and eq_poly(it, ka[1], kb[1])):
        raise ObFail("%s: key differs (%r vs %r)" % (what, ka, kb))
    same_pose(it, ga(a, "value", None), ga(b, "value", None), what + ": value")


# ------------------------------------------------------------------------------------------------ builders
def build_vertex(it, cls, name, vid=None):
    vid = vid if vid is not None else Poly.var("id_" + name)
    it.int_tokens.add(vid.key())
    return it.construct("Vertex", [vid, sym_pose(cls, name, unit=True)])


def build_odometry(it, cls, name, v1, v2):
    n = CDIM[cls]
    return it.construct("EdgeOdometry", [[ga(v1, "id"), ga(v2, "id")], sym_symmetric("W_" + name, n), sym_pose(cls, "z_" + name, unit=True), [v1, v2]])


def build_landmark(it, pcls, name, v1, v2, offset, offset_id):
    lcls = {"PoseSE2": "PoseR2", "PoseSE3": "PoseR3", "PoseR2": "PoseR2", "PoseR3": "PoseR3"}[pcls]
    n = CDIM[lcls]
    return it.construct("EdgeLandmark", [[ga(v1, "id"), ga(v2, "id")], sym_symmetric("W_" + name, n), sym_pose(lcls, "z_" + name),
                                          offset], dict(offset_id=offset_id, vertices=[v1, v2]))


def build_param(it, cls, name, pid=None):
    pcls = "PoseSE2" if cls == "G2OParameterSE2Offset" else "PoseSE3"
    tag = "PARAMS_SE2OFFSET" if pcls == "PoseSE2" else "PARAMS_SE3OFFSET"
    if pid is None:
        pid = Poly.var("pid_" + name)
        it.int_tokens.add(pid.key())
    return it.construct(cls, [(tag, pid), sym_pose(pcls, "pv_" + name, unit=True)])


def expect_str(s, what):
    if not isinstance(s, str):
        raise ObFail("%s returns %r, not a string" % (what, s))
    if not s.endswith("\n") or "\n" in s[:-1]:
        raise ObFail("%s does not produce exactly one newline-terminated line" % what)
    return s


def mark_int(it, *polys):
    for p in polys:
        if isinstance(p, Poly):
            it.int_tokens.add(p.key())


def no_int_through_float(it):
    bad = [e for e in it.events if e[0] == "integer-through-float"]
    if bad:
        raise ObFail("an integer id of the line is converted through float() (%s): ids above 2**53 change" % bad[0][1])
