"""Engine A: algebraic abstract interpreter ("formula normaliser").

Maps the package's numeric formula code (AST) to exact polynomial normal forms.  No code of the analysed
package is imported or executed: the interpreter walks the syntax tree compositionally, inlining callees
through the class table of `model.Package`, and gives every numpy / python construct of the modelled subset
its exact real-arithmetic meaning in the polynomial domain of `poly`.

Data-dependent comparisons on symbolic values are handled by *trace partitioning*: each arm is analysed
separately (the sign facts assumed so far are remembered, so a repeated test is answered consistently), and an
obligation has to hold on every arm.  A caller may supply a `hook` that decides a comparison from the
property's own domain (e.g. "at delta = 0").
"""
import ast
import os
from fractions import Fraction

from . import poly
from .poly import Poly, as_poly
from .model import AnalysisError, fn_label
from . import regex as _regex


class Unsupported(AnalysisError):
    """Construct outside the modelled fragment -> ANALYSIS-ERROR, never a verdict."""


class LossyOperation(Exception):
    """A non-exact numeric operation (round/astype/float32/...) inside formula code: breaks exact identities."""

    def __init__(self, what, where):
        super().__init__("%s at %s" % (what, where))
        self.what, self.where = what, where


class PathRaise(Exception):
    """The analysed code raises on this path."""

    def __init__(self, exc, where):
        super().__init__("%s at %s" % (exc, where))
        self.exc, self.where = exc, where


class _Return(Exception):
    def __init__(self, value):
        self.value = value


class _Break(Exception):
    pass


class _Continue(Exception):
    pass


# ----------------------------------------------------------------------------------------------- values
class Arr:
    """A 1-D or 2-D numpy array of Polys (mutable, reference semantics like ndarray)."""

    def __init__(self, data, ndim=None):
        self.data = data
        if ndim is None:
            ndim = 2 if data and isinstance(data[0], list) else 1
        self._ndim = ndim

    @property
    def ndim(self):
        return self._ndim

    @property
    def shape(self):
        if self._ndim == 2:
            return (len(self.data), len(self.data[0]) if self.data else 0)
        return (len(self.data),)

    def map(self, f):
        if self._ndim == 2:
            return Arr([[f(x) for x in r] for r in self.data], 2)
        return Arr([f(x) for x in self.data], 1)

    def zip(self, o, f):
        if self.shape != o.shape:
            a, b = self.shape[::-1], o.shape[::-1]
            if all(x == y or x == 1 or y == 1 for x, y in zip(a, b)):
                # numpy broadcasting (at most two dimensions)
                def as2(x):
                    return x.data if x._ndim == 2 else [list(x.data)]
                A, B = as2(self), as2(o)
                ra, ca, rb, cb = len(A), len(A[0]) if A else 0, len(B), len(B[0]) if B else 0
                R_, C_ = max(ra, rb), max(ca, cb)
                out = [[f(A[i if ra > 1 else 0][j if ca > 1 else 0], B[i if rb > 1 else 0][j if cb > 1 else 0]) for j in range(C_)] for i in range(R_)]
                if self._ndim == 1 and o._ndim == 1:
                    return Arr(out[0], 1)
                return Arr(out, 2)
            raise PathRaise("ValueError(operands could not be broadcast together with shapes %s %s)" % (self.shape, o.shape), "array arithmetic")
        if self._ndim == 2:
            return Arr([[f(a, b) for a, b in zip(r1, r2)] for r1, r2 in zip(self.data, o.data)], 2)
        return Arr([f(a, b) for a, b in zip(self.data, o.data)], 1)

    def T(self):
        if self._ndim == 1:
            return Arr(list(self.data), 1)
        r = Arr([list(r) for r in zip(*self.data)], 2)
        r.t_of = self        # numpy: x.T is a view -- stores through it are written back (see Interp.store)
        return r

    def flat(self):
        return [x for r in self.data for x in r] if self._ndim == 2 else list(self.data)

    def copy(self):
        return Arr([list(r) for r in self.data], 2) if self._ndim == 2 else Arr(list(self.data), 1)

    def same(self, o):
        return isinstance(o, Arr) and self.shape == o.shape and all(a == b for a, b in zip(self.flat(), o.flat()))

    def __repr__(self):
        return "Arr%s" % (self.shape,)


class Pose(Arr):
    def __init__(self, cls, data):
        super().__init__(data, 1)
        self.cls = cls

    def __repr__(self):
        return "%s%s" % (self.cls, self.shape)


class Obj:
    """An instance of a (non-pose) package class, or a synthetic object with stub methods."""

    def __init__(self, cls, **fields):
        self.cls = cls
        self.fields = dict(fields)
        self.stubs = {}

    def __repr__(self):
        return "<%s>" % self.cls


class ClassRef:
    def __init__(self, name):
        self.name = name

    def __repr__(self):
        return "<class %s>" % self.name

    def __eq__(self, o):
        return isinstance(o, ClassRef) and o.name == self.name

    def __hash__(self):
        return hash(("ClassRef", self.name))


class Wrapped:
    """((inner) mod modulus) + offset  -- produced by the % operator on symbolic values."""

    def __init__(self, inner, modulus, offset):
        self.inner, self.modulus, self.offset = inner, modulus, offset


class Quot:
    """num / den with a non-constant denominator (only produced where the source divides by a symbolic value)."""

    def __init__(self, num, den):
        self.num, self.den = num, den

    def key(self):
        """Structural key (two quotients with the same key are the same number; different keys may still be equal numbers)."""
        nk = self.num.key() if hasattr(self.num, "key") else id(self.num)
        dk = self.den.key() if hasattr(self.den, "key") else id(self.den)
        return ("quot", nk, dk)


class _NotImpl:
    def __repr__(self):
        return "NotImplemented"


NOTIMPL = _NotImpl()


class Cx:
    """A complex number re + i*im with polynomial parts."""

    def __init__(self, re, im):
        self.re, self.im = re, im

    def __repr__(self):
        return "(%s + %s j)" % (self.re.short(30), self.im.short(30))


class HashVal:
    """The result of hash(x): equal for equal keys, distinct for structurally different keys."""

    def __init__(self, key):
        self.key = key

    def __hash__(self):
        return hash(self.key)

    def __eq__(self, o):
        return isinstance(o, HashVal) and self.key == o.key


class ObjKey:
    """An object of the analysed program used as a dict key / set element: hashed by its (interpreted) __hash__ and compared by
    identity first, then by its (interpreted) __eq__, exactly like CPython's dict lookup."""

    def __init__(self, it, obj, hv, by_identity):
        self.it, self.obj, self.hv, self.by_identity = it, obj, hv, by_identity

    def __hash__(self):
        return hash(self.hv)

    def __eq__(self, o):
        if not isinstance(o, ObjKey):
            return False
        if self.obj is o.obj:
            return True
        if self.by_identity and o.by_identity:
            return False
        return self.it.equal(self.obj, o.obj, None)

    def __repr__(self):
        return "<key %r>" % (self.obj,)


class VFile:
    """A virtual text file (the analysed code never touches the real file system)."""

    def __init__(self, path, lines):
        self.path, self.lines = path, list(lines)

    def call(self, it, name, args, n):
        if name == "write":
            if not isinstance(args[0], str):
                raise PathRaise("TypeError(write() argument must be str)", it.where(n))
            self.lines.append(args[0])
            return None
        if name == "readlines":
            return self.text_lines()
        if name in ("read", "getvalue"):
            return "".join(self.lines)
        if name in ("close", "flush", "__enter__", "__exit__"):
            return None
        raise it.unsupported("file method %s" % name, n)

    def text_lines(self):
        return "".join(self.lines).splitlines(True)


ACTIVE = None      # the interpreter of the path being explored (set when an Interp is created)
_MISSING = object()


def ga(obj, name, default=_MISSING):
    """Read attribute `name` of an interpreted object the way the analysed program would (properties, class attributes)."""
    it = ACTIVE
    if it is None or not isinstance(obj, (Obj, Arr, ClassRef)):
        if isinstance(obj, Obj) and name in obj.fields:
            return obj.fields[name]
        if default is not _MISSING:
            return default
        raise AnalysisError("harness: no attribute %s on %r" % (name, obj))
    try:
        return it.ev_Attribute(ast.Attribute(value=_Lit(obj), attr=name, ctx=ast.Load(), lineno=0), {})
    except PathRaise as e:
        if default is not _MISSING and "AttributeError" in str(e.exc):
            return default
        raise
    except Unsupported:
        if default is not _MISSING:
            return default
        raise


def gp(obj, name):
    """Read a *private* attribute the harness relies on (Graph._vertices, ...): if the package no longer has it, the analysis
    cannot look inside any more -- undecided (exit 2), never a verdict about the property."""
    v = ga(obj, name, _MISSING)
    if v is _MISSING:
        raise AnalysisError("anchor vanished: %s.%s (private attribute the harness reads)" % (getattr(obj, "cls", type(obj).__name__), name))
    return v


def sa(obj, name, value):
    """Assign attribute `name` of an interpreted object the way the analysed program would (property setters run)."""
    it = ACTIVE
    if it is None:
        obj.fields[name] = value
        return
    it.assign(ast.Attribute(value=_Lit(obj), attr=name, ctx=ast.Store(), lineno=0), value, {})


def _psd_quadratic(p):
    """Is the polynomial p of total degree <= 2 non-negative everywhere?  Exact test: p = [x;1]^T Q [x;1] with Q positive
    semidefinite (symmetric elimination over the rationals)."""
    if any(sum(e for _v, e in m) > 2 for m in p.t):
        return False
    vs = sorted({v for m in p.t for v, _e in m})
    idx = {v: i for i, v in enumerate(vs)}
    n = len(vs) + 1
    Q = [[Fraction(0)] * n for _ in range(n)]
    for m, c in p.t.items():
        c = Fraction(c)
        if not m:
            Q[n - 1][n - 1] += c
        elif len(m) == 1 and m[0][1] == 1:
            i = idx[m[0][0]]
            Q[i][n - 1] += c / 2
            Q[n - 1][i] += c / 2
        elif len(m) == 1 and m[0][1] == 2:
            Q[idx[m[0][0]]][idx[m[0][0]]] += c
        elif len(m) == 2 and m[0][1] == 1 and m[1][1] == 1:
            i, j = idx[m[0][0]], idx[m[1][0]]
            Q[i][j] += c / 2
            Q[j][i] += c / 2
        else:
            return False
    # symmetric Gaussian elimination: every pivot >= 0, a zero pivot needs a zero row
    for k in range(n):
        piv = Q[k][k]
        if piv < 0:
            return False
        if piv == 0:
            if any(Q[k][j] != 0 for j in range(k + 1, n)):
                return False
            continue
        for i in range(k + 1, n):
            f = Q[i][k] / piv
            if f != 0:
                for j in range(k, n):
                    Q[i][j] -= f * Q[k][j]
    return True


def _deco_leaf(d):
    if isinstance(d, ast.Call):
        return _deco_leaf(d.func)
    if isinstance(d, ast.Attribute):
        return d.attr
    if isinstance(d, ast.Name):
        return d.id
    return None


try:
    import threading as _threading
    _threading.stack_size(256 * 1024 * 1024)
except (ValueError, RuntimeError):
    pass


OPERATOR_BINARY = {
    "add": ("arith", ast.Add), "sub": ("arith", ast.Sub), "mul": ("arith", ast.Mult), "truediv": ("arith", ast.Div),
    "matmul": ("arith", ast.MatMult), "pow": ("arith", ast.Pow), "mod": ("arith", ast.Mod), "floordiv": ("arith", ast.FloorDiv),
    "eq": ("cmp", ast.Eq), "ne": ("cmp", ast.NotEq), "lt": ("cmp", ast.Lt), "le": ("cmp", ast.LtE), "gt": ("cmp", ast.Gt),
    "ge": ("cmp", ast.GtE), "is_": ("cmp", ast.Is), "is_not": ("cmp", ast.IsNot),
}
_NO_DEFAULT = object()


class EnumAuto:
    """enum.auto(): the member's value is its 1-based position among the members."""


class FieldSpec:
    """dataclasses.field(default=..., default_factory=...)"""

    def __init__(self, default, factory):
        self.default, self.factory = default, factory


class LazyIter:
    """A single-use iterator (generator expression, zip / map / filter / enumerate / reversed / iter object): its elements are
    computed when it is created, but each is handed out only once -- iterating it a second time yields nothing, as in Python."""

    def __init__(self, items):
        self.items = list(items)
        self.pos = 0

    def next(self):
        if self.pos >= len(self.items):
            raise StopIteration
        self.pos += 1
        return self.items[self.pos - 1]

    def drain(self):
        out = self.items[self.pos:]
        self.pos = len(self.items)
        return out

    def __repr__(self):
        return "<iterator %d/%d>" % (self.pos, len(self.items))


class ProtoIter(LazyIter):
    """An object that implements the iterator protocol (__next__): elements are produced on demand by calling it."""

    def __init__(self, it, obj, fn):
        self.it, self.obj, self.fn = it, obj, fn
        self.done = False

    def next(self):
        if self.done:
            raise StopIteration
        try:
            return self.it.call_function(self.fn, [self.obj])
        except PathRaise as e:
            if e.exc.split("(")[0] == "StopIteration":
                self.done = True
                raise StopIteration
            raise

    def drain(self):
        out = []
        while len(out) < 100000:
            try:
                out.append(self.next())
            except StopIteration:
                return out
        raise Unsupported("iterator object that does not terminate")

    def __repr__(self):
        return "<iterator object %r>" % (self.obj,)


class GenObj(LazyIter):
    """A generator object: the body of the generator function runs in its own thread, strictly alternating with the consumer,
    so that the statements between two `yield`s execute when the consumer asks for the next element (true laziness: side effects
    interleave with the consumer's exactly as in Python; abandoning the generator abandons the rest of its body)."""

    def __init__(self, it, fn, env):
        import threading
        import queue
        self.it, self.fn, self.env = it, fn, env
        self.to_gen, self.to_consumer = queue.Queue(), queue.Queue()
        self.thread = None
        self.done = False
        self.saved_stack = [fn]
        self.saved_depth = 0
        self._threading = threading
        it.live_generators.append(self)

    def _body(self):
        it = self.it
        msg = self.to_gen.get()
        if msg == "close":
            return
        try:
            it.gen_stack.append(self)
            try:
                try:
                    it.block(self.fn.body, self.env)
                except _Return:
                    pass
            finally:
                it.gen_stack.pop()
            self.to_consumer.put(("stop", None))
        except _GenClose:
            self.to_consumer.put(("stop", None))
        except BaseException as e:      # noqa -- relayed to the consumer
            self.to_consumer.put(("exc", e))

    def _resume(self):
        it = self.it
        base = len(it.fn_stack)
        it.fn_stack.extend(self.saved_stack)
        it.depth += len(self.saved_stack)
        self.to_gen.put("go")
        kind, val = self.to_consumer.get()
        self.saved_stack = it.fn_stack[base:]
        del it.fn_stack[base:]
        it.depth -= len(self.saved_stack)
        return kind, val

    def next(self):
        if self.done:
            raise StopIteration
        if self.thread is None:
            self.thread = self._threading.Thread(target=self._body, daemon=True)
            self.thread.start()
        kind, val = self._resume()
        if kind == "yield":
            return val
        self.done = True
        if kind == "exc":
            raise val
        raise StopIteration

    def yield_(self, value):
        """Called in the generator's thread by `yield`."""
        self.to_consumer.put(("yield", value))
        msg = self.to_gen.get()
        if msg == "close":
            raise _GenClose()
        return None

    def drain(self):
        out = []
        while True:
            try:
                out.append(self.next())
            except StopIteration:
                return out

    def close(self):
        if self.thread is not None and not self.done:
            self.done = True
            self.to_gen.put("close")
            self.thread.join(timeout=5)
        self.done = True

    def __repr__(self):
        return "<generator %s>" % fn_label(self.fn)


class _GenClose(BaseException):
    pass


class CtxGen:
    """The object returned by calling a @contextmanager generator function: its body runs when a `with` statement enters it."""

    def __init__(self, fn, args, kw):
        self.fn, self.args, self.kw = fn, args, kw

    def __repr__(self):
        return "<contextmanager %s>" % fn_label(self.fn)


class BytesVal:
    """ndarray.tobytes(): the raw contents as a value -- equal contents <=> equal value; np.frombuffer recovers them."""

    def __init__(self, vals):
        self.vals = list(vals)

    def key(self):
        return ("bytes", tuple(x.key() if isinstance(x, Poly) else repr(x) for x in self.vals))


class BoolArr:
    """Result of an element-wise comparison of arrays (each entry already decided on this path)."""

    def __init__(self, flat, shape):
        self.flat, self.shape = flat, shape


class NonZeroMask(BoolArr):
    """`arr != 0` for an array with symbolic entries, *not decided*: entry k is True / False where that is known and None where it
    depends on the values.  It can only be used to drop the (exact) zeros of that same array, which changes no sum."""

    def __init__(self, flat, shape, source):
        super().__init__(flat, shape)
        self.source = source


class MaskedArr:
    """arr[mask] for a NonZeroMask: a selection whose length depends on the values."""

    def __init__(self, base, mask):
        self.base, self.mask = base, mask


class DDict(dict):
    """collections.defaultdict"""
    default_factory = None


class IndexSet:
    """np.triu_indices / np.tril_indices result: ordered (row, col) pairs."""

    def __init__(self, pairs):
        self.pairs = pairs


class Arr3:
    """A stack of equally shaped matrices (a 3-D array used for batched products): shape (k, r, c)."""

    def __init__(self, mats):
        self.mats = list(mats)

    @property
    def shape(self):
        return (len(self.mats),) + tuple(self.mats[0].shape)

    ndim = 3


class IndexGrid:
    """A 2-D array of integer positions used to index a 1-D array (a gather: the result has the grid's shape)."""

    def __init__(self, rows):
        self.rows = rows


class IndexGrid2:
    """A pair of equally shaped 2-D arrays of integer positions used to index a 2-D array (a gather / scatter: result[i, j] is
    a[rows[i][j], cols[i][j]])."""

    def __init__(self, rows, cols):
        self.rows, self.cols = rows, cols


class IndexGrid3:
    """A 3-D array of integer positions used to index a 1-D array (the result is a stack of matrices of the grid's shape)."""

    def __init__(self, mats):
        self.mats = mats


# ----------------------------------------------------------------------------------------------- small N-d helper (ndim <= 3)
def nd_of(x):
    """(shape, row-major flat list) of a scalar, an Arr (1-D / 2-D) or an Arr3."""
    if isinstance(x, Arr3):
        return tuple(x.shape), [e for m_ in x.mats for e in m_.flat()]
    if isinstance(x, Arr):
        return tuple(x.shape), list(x.flat())
    return (), [x]


def nd_wrap(shape, flat):
    shape = tuple(shape)
    if len(shape) == 0:
        return flat[0]
    if len(shape) == 1:
        return Arr(list(flat), 1)
    if len(shape) == 2:
        r, c = shape
        return Arr([list(flat[i * c:(i + 1) * c]) for i in range(r)], 2)
    if len(shape) == 3:
        k, r, c = shape
        if k == 0:
            raise Unsupported("empty stack of matrices")
        return Arr3([Arr([list(flat[(m * r + i) * c:(m * r + i + 1) * c]) for i in range(r)], 2) for m in range(k)])
    raise Unsupported("array with %d dimensions" % len(shape))


def nd_broadcast_shape(s1, s2):
    n = max(len(s1), len(s2))
    a, b = (1,) * (n - len(s1)) + tuple(s1), (1,) * (n - len(s2)) + tuple(s2)
    out = []
    for x, y in zip(a, b):
        if x == y or y == 1:
            out.append(x)
        elif x == 1:
            out.append(y)
        else:
            raise PathRaise("ValueError(operands could not be broadcast together with shapes %s %s)" % (tuple(s1), tuple(s2)), "array arithmetic")
    return tuple(out)


def nd_expand(shape, flat, target):
    """The flat list of the array (shape, flat) broadcast to shape `target`."""
    n = len(target)
    shp = (1,) * (n - len(shape)) + tuple(shape)
    strides, acc = [], 1
    for d in reversed(shp):
        strides.append(acc)
        acc *= d
    strides = list(reversed(strides))
    out = []
    import itertools as _it
    for pos in _it.product(*[range(d) for d in target]):
        off = sum((p_ if shp[k] > 1 else 0) * strides[k] for k, p_ in enumerate(pos))
        out.append(flat[off])
    return out


def nd_basic_index(shape, flat, idx, where="index"):
    """numpy basic indexing (ints, slices, None) of the array (shape, flat); returns (shape, flat)."""
    import itertools as _it
    idx = list(idx)
    n_real = sum(1 for x in idx if x is not None)
    if n_real > len(shape):
        raise PathRaise("IndexError(too many indices for array)", where)
    idx += [slice(None)] * (len(shape) - n_real)
    axes, out_shape, dim = [], [], 0
    for x in idx:
        if x is None:
            out_shape.append(1)
            continue
        size = shape[dim]
        if isinstance(x, int):
            if not -size <= x < size:
                raise PathRaise("IndexError(index %d is out of bounds for axis %d with size %d)" % (x, dim, size), where)
            axes.append([x % size])
        elif isinstance(x, slice):
            r_ = list(range(size))[x]
            axes.append(r_)
            out_shape.append(len(r_))
        else:
            raise Unsupported("index %r in a multi-dimensional subscript" % (x,))
        dim += 1
    strides, acc = [], 1
    for d in reversed(shape):
        strides.append(acc)
        acc *= d
    strides = list(reversed(strides))
    out = [flat[sum(p_ * strides[k] for k, p_ in enumerate(pos))] for pos in _it.product(*axes)]
    return tuple(out_shape), out


class Opaque:
    """An uninterpreted python-level value (module, function reference, ...)."""

    def __init__(self, kind, *payload):
        self.kind, self.payload = kind, payload

    def __repr__(self):
        return "<%s %s>" % (self.kind, ".".join(str(p) for p in self.payload))


NDARRAY = ClassRef("ndarray")
FLOAT = ClassRef("float")
INT = ClassRef("int")
NONETYPE = ClassRef("NoneType")
LIST = ClassRef("list")
TUPLE = ClassRef("tuple")
STR = ClassRef("str")
BOOL = ClassRef("bool")

LOSSY_NP = {"round", "round_", "around", "rint", "trunc", "floor", "ceil", "fix", "clip", "float32", "float16",
            "int32", "int64", "int_", "intc", "half", "single", "nan_to_num", "nextafter", "spacing"}
LOSSY_BUILTINS = {"round", "int"}
OK_DTYPES = {"float64", "float", "double", "float_", "longdouble"}

PI_NAME = "pi"


def PI():
    return poly.opaque(PI_NAME)


class SignFacts:
    """Per-path knowledge about the sign of polynomials that were compared: canonical poly -> subset of {-1,0,1}."""

    def __init__(self):
        self.facts = {}

    @staticmethod
    def canon(d):
        # canonical orientation: smallest monomial (sorted) has positive coefficient
        m0 = min(d.t, key=lambda m: [(poly.R.vars[v], e) for v, e in m])
        if d.t[m0] < 0:
            return (-d).key(), -1
        return d.key(), 1


SIGNS_OF = {
    ast.Lt: {-1}, ast.LtE: {-1, 0}, ast.Gt: {1}, ast.GtE: {0, 1}, ast.Eq: {0}, ast.NotEq: {-1, 1},
}


class Interp:
    """One interpretation *path*.  Use `explore` to enumerate all paths of a computation."""

    MAX_DEPTH = 60

    def __init__(self, pkg, script=None, hook=None):
        global ACTIVE
        ACTIVE = self
        self.pkg = pkg
        self.script = list(script or [])
        self.pos = 0
        self.hook = hook
        self.facts = {}
        self.conds = []          # human-readable decisions taken on this path
        self.decided = []        # the polynomials whose sign those decisions are about (same order as the sign decisions in conds)
        self.events = []         # ("noncongruent-wrap", where) ...
        self.depth = 0
        self.fn_stack = []
        self.wrap_uses = 0
        self.mark_wraps = False
        self.atan2_uses = 0
        self.wraps = []          # (marker name, inner + offset) per unwrap, in mark mode
        self.vfs = None          # virtual file system: path -> VFile
        self.thin = False
        self.warn_filters = []       # (action, category name), newest first -- warnings.simplefilter / filterwarnings / catch_warnings
        self.yield_stack = []
        self.class_attrs = {}    # (class name, attribute) -> value stored at run time on a class object
        self.globals_cache = {}  # (module, name) -> value of a module-level / class-level binding (evaluated once, shared)
        self.deco_cache = {}     # id(FunctionDef) -> decorated value (decorators are applied once, at definition time)
        self.overrides = {}      # name of an external function (spsolve, time, print) -> python callable standing in for it
        self.lossy_ok = False    # display formatting of numbers allowed (text is only printed / logged, never parsed again)
        self.class_inited = set()
        self.modules_inited = set()
        self.dyn_regs = {}           # id(dispatcher FunctionDef) -> [(class, implementation FunctionDef)] registered by call
        self.gen_stack = []          # generator objects whose body is currently executing (innermost last)
        self.nonneg_keys = set()     # keys of polynomials known to be sums of squares by construction (x . x)
        self.len_objs = []           # the objects returned by len(<collection>) (identity matters: `n = len(xs); if n > 100`)
        self.nonneg_prefixes = set()  # prefixes of symbols that stand for quantities >= 0 by nature (uninterpreted chi^2 values)
        self.maybe_nonfinite = set()  # prefixes of symbols that stand for possibly non-finite numbers (results of an uninterpreted solve)
        self.int_objs = {}            # id(Poly) -> Poly for values that are Python ints (int literals, len(), range(), sums of ints)
        self.while_depth_at = {}
        self.for_depth_at = {}       # call depth -> number of enclosing `for` statements being executed in that frame
        self.taint = {}              # id(Poly) -> (kind, object): "len" = a collection size, "counter" = a range() loop counter
        self.live_generators = []
        self.ph_of = {}          # poly key -> placeholder token
        self.ph_val = {}         # placeholder token -> Poly
        self.int_tokens = set()  # keys of Polys that stand for (arbitrarily large) integer ids

    # ------------------------------------------------------------------------------------ helpers
    def where(self, node):
        fn = self.fn_stack[-1] if self.fn_stack else None
        mod = getattr(fn, "_gs_module", "?") if fn is not None else "?"
        return "%s:%s (%s)" % (mod, getattr(node, "lineno", "?"), fn_label(fn) if fn is not None else "?")

    def unsupported(self, msg, node=None):
        return Unsupported("%s at %s" % (msg, self.where(node)) if node is not None else msg)

    # ------------------------------------------------------------------------------------ decisions
    def decide_sign(self, d, true_signs, desc, strict_hook=True):
        """Is sign(d) in true_signs?  d is a non-constant Poly."""
        c = d.const_value()
        if c is not None:
            s = (c > 0) - (c < 0)
            return s in true_signs
        if d.variables() == {PI_NAME}:
            # a polynomial in pi alone is a number: its sign is decided numerically (pi is transcendental, so it is never exactly 0)
            pv = self.pi_value(d)
            if pv is not None and abs(pv) > 1e-9:
                return ((pv > 0) - (pv < 0)) in true_signs
        hinted = None
        if self.hook is not None:
            h = self.hook(d)
            if isinstance(h, (set, frozenset)):
                hinted = set(h)
            elif h is not None:
                return h in true_signs
        key, orient = SignFacts.canon(d)
        ts = set(true_signs) if orient == 1 else {-s for s in true_signs}
        remaining = self.facts.get(key, {-1, 0, 1})
        if hinted is not None:
            remaining = remaining & (hinted if orient == 1 else {-s for s in hinted})
            self.facts[key] = set(remaining)       # what the property's domain says about this quantity is a fact of the path
        if remaining <= ts:
            return True
        if not (remaining & ts):
            return False
        if self.pos < len(self.script):
            ans = self.script[self.pos]
        else:
            ans = True
            self.script.append(True)
        self.pos += 1
        self.facts[key] = (remaining & ts) if ans else (remaining - ts)
        if self.facts[key] == {0}:
            self.thin = True     # this path assumes an exact equality of symbolic values (a measure-zero set)
        self.conds.append("%s is %s" % (desc, ans))
        self.decided.append(d)
        return ans

    def known_positive(self, d):
        """Is polynomial d known to be > 0 on this path (a positive constant, a sqrt/norm atom compared above a positive
        constant, or directly decided)?"""
        c = d.const_value()
        if c is not None:
            return c > 0
        key, orient = SignFacts.canon(d)
        signs = self.facts.get(key)
        if signs is not None and {x * orient for x in signs} <= {1}:
            return True
        for k, sg in self.facts.items():
            q = Poly(dict(k))
            for sign in (1, -1):
                r = q.scale(sign) - d
                c0 = r.const_value()
                if c0 is None:
                    continue
                s2 = {x * sign for x in sg}          # signs of sign*q ; d = sign*q - c0
                if s2 <= {0, 1} and c0 < 0:
                    return True
                if s2 <= {1} and c0 <= 0:
                    return True
        return False

    def equalities(self):
        """(substitution {var: constant or polynomial} implied by the exact-equality decisions of this path, all accounted for?)

        Derived to a fixpoint from the path's `== 0` facts with sound rules over the reals:
          c*x + k == 0            =>  x = -k/c
          sum_i c_i * x_i^2 == 0  =>  every x_i = 0      (all c_i of one sign, no constant term)
          c*x + P == 0            =>  x = -P/c           (x occurs nowhere in P)
        A substituted variable that is constrained by a rewriting rule (the scalar part of a unit quaternion) contributes the
        equation `value^2 == rule`; an angle may only be renamed to another angle or set to 0 (its cos / sin follow).  An equality
        that becomes 0 == 0 under the substitution is accounted for; anything else makes the path "not simple"."""
        R_ = poly.R
        sub = {}
        simple = True
        pending = [Poly(dict(k)) for k, signs in self.facts.items() if signs == {0}]
        dep = getattr(self.hook, "depends", None)
        self._eq_blocked = False
        self._eq_bound_generic = set()
        generic_eqs = [e for e in pending if dep(e)] if dep is not None else []

        touched_atoms = set()

        def bind(name, value):
            nonlocal simple
            value = poly.as_poly(value)
            vi = poly.var_index(name)
            for k_ in list(sub):
                sub[k_] = poly.as_poly(sub[k_]).subs({name: value})
            sub[name] = value
            if name in R_.angles:
                # the angle's cos / sin follow from the addition formulas when the new value is an integer combination of angles
                # (plus a multiple of pi/2); anything else is not a polynomial substitution
                try:
                    c_new, s_new = self.cos_sin(value, None)
                    sub["cos(%s)" % name], sub["sin(%s)" % name] = c_new, s_new
                except Unsupported:
                    simple = False
            if vi in R_.sq_rules and vi not in R_.atom_arg:
                pending.append(value * value - R_.sq_rules[vi])
            touched_atoms.update(ai for ai, (kind, arg) in R_.atom_arg.items() if name in arg.variables())

        changed = True
        while changed and pending:
            changed = False
            rest = []
            for e in pending:
                e2 = e.subs(sub) if sub else e
                if sub:
                    e2 = e2.subs(sub)        # a rewriting rule may have re-introduced a substituted variable
                if e2.is_zero():
                    changed = True
                    continue
                terms = e2.t
                nonconst = [(m, c) for m, c in terms.items() if m != ()]
                if len(nonconst) == 1 and len(nonconst[0][0]) == 1 and nonconst[0][0][0][1] == 1:
                    v = R_.vars[nonconst[0][0][0][0]]
                    bind(v, Poly.const(-Fraction(terms.get((), 0)) / Fraction(nonconst[0][1])))
                    changed = True
                    continue
                if () not in terms and nonconst and all(len(m) == 1 and m[0][1] == 2 for m, c in nonconst) and \
                        (all(c > 0 for m, c in nonconst) or all(c < 0 for m, c in nonconst)):
                    for m, c in nonconst:
                        bind(R_.vars[m[0][0]], Poly())
                    changed = True
                    continue
                # c_1 x_1 + ... + c_n x_n == 0 with all c_i of one sign and every x_i a quantity that is non-negative by nature (the
                # chi^2 of an edge): every x_i = 0
                if () not in terms and nonconst and self.nonneg_prefixes and all(len(m) == 1 and m[0][1] == 1 and
                                                                                R_.vars[m[0][0]].startswith(tuple(self.nonneg_prefixes)) for m, c in nonconst) and \
                        (all(c > 0 for m, c in nonconst) or all(c < 0 for m, c in nonconst)):
                    for m, c in nonconst:
                        bind(R_.vars[m[0][0]], Poly())
                    changed = True
                    continue
                # c*x + P == 0 with x a plain variable that occurs nowhere else in the equation
                pick = None
                for m, c in nonconst:
                    if len(m) == 1 and m[0][1] == 1:
                        vi = m[0][0]
                        nm = R_.vars[vi]
                        if vi in R_.atom_arg or nm.startswith(("cos(", "sin(")) or "#" in nm:
                            continue
                        if any(vi == v_ for m2, _ in nonconst if m2 != m for v_, _e in m2):
                            continue
                        pick = (nm, m, c)
                        break
                if pick is not None:
                    nm, m, c = pick
                    rest_p = Poly({k_: v_ for k_, v_ in terms.items() if k_ != m})
                    bind(nm, rest_p.scale(-1 / Fraction(c)))
                    changed = True
                    continue
                rest.append(e2)
            pending = rest
        # square roots whose argument mentions a substituted variable: a rational constant when the argument becomes the square of
        # one (sqrt(1 - |d|^2) at d = 0), otherwise not a polynomial substitution
        import math as _math
        for _ in range(3):
            for ai in sorted(touched_atoms):
                nm = R_.vars[ai]
                if nm in sub:
                    continue
                a2 = R_.atom_arg[ai][1].subs(sub)
                a2 = a2.subs(sub) if sub else a2
                c_ = a2.const_value()
                if c_ is not None and Fraction(c_) >= 0:
                    f_ = Fraction(c_)
                    x_, y_ = _math.isqrt(f_.numerator), _math.isqrt(f_.denominator)
                    if x_ * x_ == f_.numerator and y_ * y_ == f_.denominator:
                        sub[nm] = Poly.const(Fraction(x_, y_))
                        for k_ in list(sub):
                            if k_ != nm:
                                sub[k_] = poly.as_poly(sub[k_]).subs({nm: sub[nm]})
        if any(R_.vars[ai] not in sub for ai in touched_atoms):
            simple = False
        self._eq_pending = list(pending)       # what the substitution does not account for (non-linear equalities)
        if generic_eqs:
            # exact equalities in the variables the obligation differentiates by (the increment d): acceptable only when all they say
            # is `d_i = 0 for i in S` -- the path is then the coordinate subspace d_S = 0, on which the derivative with respect to the
            # remaining increment variables is still meaningful (the obligation compares those columns only); anything else blocks
            gv = getattr(self.hook, "generic_vars", set())
            bound = {v for v in gv if v in sub}
            zero_only = all(poly.as_poly(sub[v]).is_zero() for v in bound)
            zsub = {v: 0 for v in bound}
            if zero_only and bound and all(e.subs(zsub).is_zero() for e in generic_eqs):
                self._eq_bound_generic = bound
            else:
                simple = False
                self._eq_blocked = True
        return sub, simple and not pending

    def known_zero(self, d):
        """Is polynomial d known to vanish on this path (identically, or by an equality decision taken earlier)?"""
        if d.is_zero():
            return True
        if d.const_value() is not None:
            return False
        key, _ = SignFacts.canon(d)
        if self.facts.get(key) == {0}:
            return True
        # substitute variables known to be zero
        zero = {}
        for k, signs in self.facts.items():
            if signs == {0}:
                terms = dict(k)
                if len(terms) == 1:
                    (m, c), = terms.items()
                    if len(m) == 1 and m[0][1] == 1:
                        zero[poly.R.vars[m[0][0]]] = 0
        if zero:
            return d.subs(zero).is_zero()
        return False

    # ------------------------------------------------------------------------------------ calls
    def make_closure(self, fn, env):
        """A function object: default values are evaluated now (at definition time), free variables are looked up in `env` when
        the function is called (late binding), exactly as in Python."""
        a = fn.args
        dvals = [self.ev(d, env) for d in a.defaults]
        kdvals = [None if d is None else self.ev(d, env) for d in a.kw_defaults]
        return Opaque("closure", fn, env, dvals, kdvals)

    TRANSPARENT_DECORATORS = {"property", "staticmethod", "classmethod", "abstractmethod", "wraps", "setter", "getter", "deleter",
                              "contextmanager", "lru_cache", "cache", "overload", "final", "override",
                              "singledispatch", "singledispatchmethod", "register"}

    def decorated_value(self, fn):
        """None if all decorators of `fn` are understood natively; otherwise the value obtained by applying them (once)."""
        key = id(fn)
        if key in self.deco_cache:
            return self.deco_cache[key]
        todo = [d for d in fn.decorator_list if _deco_leaf(d) not in self.TRANSPARENT_DECORATORS]
        if not todo:
            self.deco_cache[key] = None
            return None
        import copy as _copy
        raw = _copy.copy(fn)
        raw.decorator_list = [d for d in fn.decorator_list if d not in todo]
        raw._gs_module, raw._gs_class, raw._gs_raw = getattr(fn, "_gs_module", None), getattr(fn, "_gs_class", None), True
        val = Opaque("closure", raw, {}, [self.ev_in_module(d, raw._gs_module) for d in raw.args.defaults],
                     [None if d is None else self.ev_in_module(d, raw._gs_module) for d in raw.args.kw_defaults])
        for d in reversed(todo):
            dv = self.ev_in_module(d, raw._gs_module)
            val = self.call_value(dv, [val], d)
        self.deco_cache[key] = val
        return val

    def call_function(self, fn, args, kw=None, self_val=None, cls_for_super=None, base_env=None, defaults=None, kw_defaults=None):
        """Interpret FunctionDef `fn` with positional args (already including self/cls) and keywords."""
        kw = dict(kw or {})
        if fn.decorator_list and not getattr(fn, "_gs_raw", False):
            dec = self.decorated_value(fn)
            if dec is not None:
                return self.call_value(dec, list(args), fn, kw)
        if fn.decorator_list and any(_deco_leaf(d) in ("lru_cache", "cache") for d in fn.decorator_list):
            if any(isinstance(x, (Obj, Arr)) for x in list(args) + list(kw.values())):
                raise self.unsupported("functools cache keyed on a mutable / identity-hashed object in %s" % fn_label(fn), fn)
        if fn.decorator_list and any(_deco_leaf(d) == "contextmanager" for d in fn.decorator_list) and base_env is None:
            return CtxGen(fn, list(args), kw)
        mod_ = getattr(fn, "_gs_module", None)
        if mod_ is not None and mod_ in self.pkg.module_effects:
            self.ensure_module(mod_)
        if fn.decorator_list and any(_deco_leaf(d) in ("singledispatch", "singledispatchmethod") for d in fn.decorator_list) and \
                not getattr(self, "_dispatching", None) is fn:
            impl = self.dispatch_target(fn, args)
            if impl is not fn:
                return self.call_function(impl, args, kw)
        a = fn.args
        if a.posonlyargs:
            raise self.unsupported("positional-only signature of %s" % fn_label(fn), fn)
        params = [p.arg for p in a.args]
        env = dict(base_env) if base_env else {}
        bound = set()
        if a.vararg:
            env[a.vararg.arg] = tuple(args[len(params):])
            args = list(args[:len(params)])
        if len(args) > len(params):
            raise PathRaise("TypeError(too many arguments for %s)" % fn_label(fn), self.where(fn))
        for p, v in zip(params, args):
            env[p] = v
            bound.add(p)
        ndef = len(a.defaults)
        for i, p in enumerate(params):
            if p in bound:
                continue
            if p in kw:
                env[p] = kw.pop(p)
                continue
            j = i - (len(params) - ndef)
            if j < 0:
                raise PathRaise("TypeError(missing argument %s for %s)" % (p, fn_label(fn)), self.where(fn))
            env[p] = defaults[j] if defaults is not None else self.default_value(fn, ("pos", j), a.defaults[j])
        for idx_, (p, d) in enumerate(zip(a.kwonlyargs, a.kw_defaults)):
            if p.arg in kw:
                env[p.arg] = kw.pop(p.arg)
            elif d is not None:
                env[p.arg] = kw_defaults[idx_] if kw_defaults is not None else self.default_value(fn, ("kw", idx_), d)
            else:
                raise PathRaise("TypeError(missing keyword-only argument %s for %s)" % (p.arg, fn_label(fn)), self.where(fn))
        if a.kwarg:
            env[a.kwarg.arg] = dict(kw)
            kw = {}
        if kw:
            raise PathRaise("TypeError(unexpected keyword(s) %s for %s)" % (sorted(kw), fn_label(fn)), self.where(fn))
        env["__class__"] = ClassRef(getattr(fn, "_gs_class", None) or "?")
        return self.run(fn, env)

    def sort_values(self, seq, keyf, rev, n):
        """sorted(seq, key=, reverse=): stable; every comparison of symbolic keys is a decision (explored both ways).  Keys are numbers,
        strings, or tuples / lists of them (compared lexicographically)."""
        keys = [self.call_value(keyf, [x], n) for x in seq] if keyf is not None else list(seq)
        if all(isinstance(x, str) for x in keys):
            order = sorted(range(len(seq)), key=lambda i: keys[i], reverse=bool(rev))
            return [seq[i] for i in order]

        def norm(k):
            if isinstance(k, Wrapped):
                k = self.unwrap(k, n)
            if isinstance(k, (Poly, str)):
                return k
            if isinstance(k, (list, tuple)):
                return tuple(norm(x) for x in k)
            if isinstance(k, Arr) and k.ndim == 1:
                raise PathRaise("ValueError(the truth value of an array with more than one element is ambiguous)", self.where(n))
            raise self.unsupported("sort key %r" % (k,), n)

        def less(a, b, need_eq=False):
            """a < b ?  (None: equal -- only distinguished from 'greater' when need_eq)"""
            if isinstance(a, Poly) and isinstance(b, Poly):
                d = a - b
                if d.is_zero():
                    return None
                if self.decide_sign(d, {-1}, "%s < %s" % (a.short(30), b.short(30))):
                    return True
                if need_eq and self.decide_sign(d, {0}, "%s == %s" % (a.short(30), b.short(30))):
                    return None
                return False
            if isinstance(a, str) and isinstance(b, str):
                return None if a == b else a < b
            if isinstance(a, tuple) and isinstance(b, tuple):
                for x, y in zip(a, b):
                    r_ = less(x, y, True)
                    if r_ is not None:
                        return r_
                return None if len(a) == len(b) else len(a) < len(b)
            raise PathRaise("TypeError('<' not supported between these keys)", self.where(n))
        keys = [norm(k) for k in keys]
        descending = self.truth(rev, n) if not isinstance(rev, bool) else rev
        order = []
        for i in range(len(seq)):
            pos = len(order)
            while pos > 0:
                j = order[pos - 1]
                r_ = less(keys[i], keys[j]) if not descending else less(keys[j], keys[i])
                if r_ is not True:
                    break            # equal keys keep their original order (also with reverse=True)
                pos -= 1
            order.insert(pos, i)
        return [seq[i] for i in order]

    WARNING_BASES = {"MatrixRankWarning": "UserWarning", "SparseEfficiencyWarning": "SparseWarning", "SparseWarning": "Warning",
                     "UserWarning": "Warning", "RuntimeWarning": "Warning", "DeprecationWarning": "Warning", "FutureWarning": "Warning",
                     "Warning": "Exception"}

    def warning_action(self, cname):
        """What the current warning filters do with a warning of class cname ("default" when no filter matches)."""
        anc, x = set(), cname
        while x is not None and x not in anc:
            anc.add(x)
            x = self.WARNING_BASES.get(x, "Warning" if x not in ("Warning", "Exception") else None)
        for action, cat in self.warn_filters:
            if cat in anc:
                return action
        return "default"

    def emit_warning(self, cname, node=None):
        """A warning of class cname is issued here: an `error` filter turns it into an exception."""
        if self.warning_action(cname) == "error":
            raise PathRaise("%s(warning turned into an error by the active filter)" % cname, self.where(node) if node is not None else "a warning")

    def any_nonzero(self, items, n):
        """any(x != 0 for x in items) for numbers: ONE decision on the sum of squares (over the reals it vanishes exactly when every
        item does) instead of one per item -- the outcome `all zero` also records that each item is zero on this path."""
        polys = []
        for x in items:
            if isinstance(x, Wrapped):
                x = self.unwrap(x, n)
            if isinstance(x, bool):
                if x:
                    return True
                continue
            if not isinstance(x, Poly):
                return any(self.truth(y, n) for y in items)
            c = x.const_value()
            if c is not None:
                if c != 0:
                    return True
                continue
            polys.append(x)
        if not polys:
            return False
        if len(polys) == 1:
            return self.truth(polys[0], n)
        ss = Poly()
        for p_ in polys:
            ss = ss + p_ * p_
        if ss.const_value() is not None:
            return ss.const_value() != 0
        key, orient = SignFacts.canon(ss)
        nonneg = {0, 1} if orient == 1 else {0, -1}
        self.facts[key] = self.facts.get(key, {-1, 0, 1}) & nonneg
        ans = self.decide_sign(ss, {1}, "any of %d numbers (%s, ...) != 0" % (len(polys), polys[0].short(30)))
        if not ans:
            for p_ in polys:
                k2, _ = SignFacts.canon(p_)
                self.facts[k2] = {0}
        return ans

    def choose(self, n_options, desc):
        """A nondeterministic choice among n_options alternatives (each is explored on its own path)."""
        for k in range(n_options - 1):
            self.choice_counter = getattr(self, "choice_counter", 0) + 1
            if self.decide_sign(Poly.var("choice#%d" % self.choice_counter), {1}, "%s: alternative %d" % (desc, k + 1)):
                return k
        return n_options - 1

    def elements(self, v, n):
        """The elements of an iterable for a consumer that does not care about their order (sorted, set, sum, min, max, any, all)."""
        self._order_free = getattr(self, "_order_free", 0) + 1
        try:
            return self.iterate(v, n)
        finally:
            self._order_free -= 1

    def default_value(self, fn, slot, node):
        """A default is evaluated once, when the function is defined: every call that omits the argument gets the SAME object."""
        cache = self.__dict__.setdefault("_fn_defaults", {})
        key = (id(fn), slot)
        if key not in cache:
            cache[key] = self.ev(node, {})
        return cache[key]

    def run(self, fn, env):
        self.depth += 1
        if self.depth > self.MAX_DEPTH:
            raise Unsupported("recursion too deep in %s" % fn_label(fn))
        if _is_generator(fn):
            self.depth -= 1
            return GenObj(self, fn, env)
        self.fn_stack.append(fn)
        try:
            try:
                self.block(fn.body, env)
            except _Return as r:
                return r.value
            return None
        finally:
            self.fn_stack.pop()
            self.depth -= 1

    def call_method(self, recv, name, args, kw=None):
        cls = recv.cls
        if isinstance(recv, Obj) and name in recv.stubs:
            return recv.stubs[name](*args)
        if cls in self.pkg.classes:
            self.ensure_class(cls)
            if self.class_attrs:
                for c_ in self.pkg.mro(cls):
                    if (c_, name) in self.class_attrs:
                        f_ = self.ev_Attribute(ast.Attribute(value=_Lit(recv), attr=name, ctx=ast.Load(), lineno=0), {})
                        return self.call_value(f_, list(args), None, kw)
                    ci_ = self.pkg.classes[c_]
                    if name in ci_.methods or name in ci_.props or name in ci_.consts:
                        break
        kind = self.pkg.lookup(cls, name)
        if kind is None:
            raise Unsupported("no attribute %s on %s" % (name, cls))
        tag, payload, owner = kind
        if tag == "prop":
            return self.call_function(payload, [recv])
        if tag == "const":
            return self.ev(payload, {})
        fn, is_cm, is_sm = payload
        first = [ClassRef(cls)] if is_cm else [] if is_sm else [recv]
        return self.call_function(fn, first + list(args), kw)

    def call_classmethod(self, clsref, name, args, kw=None):
        kind = self.pkg.lookup(clsref.name, name)
        if kind is None or kind[0] != "method":
            raise Unsupported("no method %s on class %s" % (name, clsref.name))
        fn, is_cm, is_sm = kind[1]
        if is_cm:
            return self.call_function(fn, [clsref] + list(args), kw)
        if is_sm:
            return self.call_function(fn, list(args), kw)
        # unbound method call  Class.method(self, ...)
        return self.call_function(fn, list(args), kw)

    def construct(self, clsname, args, kw=None):
        pkg = self.pkg
        if clsname not in pkg.classes:
            raise Unsupported("construct unknown class %s" % clsname)
        self.ensure_class(clsname)
        if pkg.classes[clsname].enum_kind:
            if len(args) != 1:
                raise Unsupported("functional Enum API")
            for m in self.enum_members(clsname):
                mv = m if pkg.classes[clsname].enum_kind == "int" else m.fields["value"]
                if self.equal(mv, args[0], None) is True:
                    return m
            raise PathRaise("ValueError(not a valid %s)" % clsname, "enum lookup")
        k = pkg.lookup(clsname, "__new__")
        if k is not None and k[0] == "method":
            fn = k[1][0]
            return self.call_function(fn, [ClassRef(clsname)] + list(args), kw)
        obj = Obj(clsname)
        k = pkg.lookup(clsname, "__init__")
        if k is not None and k[0] == "method":
            self.call_function(k[1][0], [obj] + list(args), kw)
        elif pkg.classes[clsname].annotations and (args or kw or True):
            # NamedTuple / dataclass style: positional and keyword arguments fill the annotated fields in order
            ci = pkg.classes[clsname]
            names = list(ci.annotations)
            if len(args) > len(names):
                raise PathRaise("TypeError(too many arguments for %s)" % clsname, "constructor")
            for nm, v in zip(names, args):
                obj.fields[nm] = v
            for nm, v in (kw or {}).items():
                if nm not in names:
                    raise PathRaise("TypeError(unexpected field %s)" % nm, "constructor")
                obj.fields[nm] = v
            for nm in names:
                if nm not in obj.fields:
                    if nm in ci.consts:
                        dv = self.ev_in_module(ci.consts[nm], ci.module)
                        if isinstance(dv, FieldSpec):
                            if dv.factory is not None:
                                dv = self.call_value(dv.factory, [], None)
                            elif dv.default is not _NO_DEFAULT:
                                dv = dv.default
                            else:
                                raise PathRaise("TypeError(missing field %s)" % nm, "constructor")
                        obj.fields[nm] = dv
                    else:
                        raise PathRaise("TypeError(missing field %s)" % nm, "constructor")
            post = pkg.lookup(clsname, "__post_init__")
            if post is not None and post[0] == "method":
                self.call_function(post[1][0], [obj])
            obj.tuple_fields = names if any("NamedTuple" in b or "namedtuple" in b for b in ci.bases) else None
        elif self.functional_nt_fields(clsname) is not None:
            # class X(namedtuple("X", [...])): the fields come from the functional base
            names = self.functional_nt_fields(clsname)
            if len(args) > len(names) or any(x not in names for x in kw):
                raise PathRaise("TypeError(%s() got unexpected arguments)" % clsname, "constructor")
            vals = dict(zip(names, args))
            vals.update(kw)
            if len(vals) != len(names):
                raise PathRaise("TypeError(%s() missing arguments)" % clsname, "constructor")
            for x in names:
                obj.fields[x] = vals[x]
            obj.tuple_fields = list(names)
        elif args or kw:
            raise Unsupported("constructor arguments without __init__ for %s" % clsname)
        return obj

    # ------------------------------------------------------------------------------------ statements
    def block(self, stmts, env):
        i = 0
        while i < len(stmts):
            st = stmts[i]
            if isinstance(st, ast.While) and i + 1 < len(stmts) and isinstance(stmts[i + 1], ast.While) and self.reduction_pair(st, stmts[i + 1], env):
                i += 2
                continue
            self.stmt(st, env)
            i += 1

    def reduction_shape(self, st, env):
        """(variable, 'down' | 'up', bound a, step |c|) of `while x >= a: x -= c` / `while x < a: x += c`, or None."""
        if st.orelse or len(st.body) != 1 or not isinstance(st.body[0], ast.AugAssign) or not isinstance(st.test, ast.Compare) or len(st.test.ops) != 1:
            return None
        aug = st.body[0]
        if not isinstance(aug.target, ast.Name) or not isinstance(aug.op, (ast.Add, ast.Sub)):
            return None
        name = aug.target.id
        lhs, rhs, op = st.test.left, st.test.comparators[0], type(st.test.ops[0])
        if isinstance(rhs, ast.Name) and rhs.id == name:
            lhs, rhs = rhs, lhs
            op = {ast.Lt: ast.Gt, ast.LtE: ast.GtE, ast.Gt: ast.Lt, ast.GtE: ast.LtE}.get(op)
        if not (isinstance(lhs, ast.Name) and lhs.id == name) or op not in (ast.Lt, ast.LtE, ast.Gt, ast.GtE) or name not in env:
            return None
        try:
            a, c = self.ev(rhs, env), self.ev(aug.value, env)
        except Unsupported:
            return None
        av, cv = self.pi_value(a), self.pi_value(c)
        if av is None or cv is None or cv == 0:
            return None
        step = cv if isinstance(aug.op, ast.Add) else -cv
        if op in (ast.GtE, ast.Gt) and step < 0:
            return (name, "down", a, c if cv > 0 else -c, op)
        if op in (ast.Lt, ast.LtE) and step > 0:
            return (name, "up", a, c if cv > 0 else -c, op)
        return None

    def reduction_pair(self, st1, st2, env):
        """`while x >= hi: x -= m` followed by `while x < lo: x += m` with hi - lo == m (either order): together they reduce x
        modulo m into [lo, hi) -- a wrap computed by iteration, the same function as ((x - lo) mod m) + lo, with no case split."""
        s1, s2 = self.reduction_shape(st1, env), self.reduction_shape(st2, env)
        if s1 is None or s2 is None or s1[0] != s2[0] or {s1[1], s2[1]} != {"down", "up"}:
            return False
        down, up = (s1, s2) if s1[1] == "down" else (s2, s1)
        hi, lo, m = down[2], up[2], down[3]
        mv = self.pi_value(m)
        if abs(self.pi_value(m) - self.pi_value(up[3])) > 1e-12 or abs(self.pi_value(hi) - self.pi_value(lo) - mv) > 1e-12:
            return False
        if down[4] is not ast.GtE or up[4] is not ast.Lt:
            return False                      # (x > hi / x <= lo leave the boundary on the other side: handled loop by loop)
        x = env[s1[0]]
        if isinstance(x, Wrapped):
            x = self.unwrap(x, st1)
        if not isinstance(x, Poly):
            return False
        if x.const_value() is not None:
            return False                      # a concrete number: the loops simply run
        self.events.append(("iterated-wrap", "`%s` / `%s` at %s" % (ast.unparse(st1).split("\n")[0][:50], ast.unparse(st2).split("\n")[0][:50], self.where(st1))))
        env[s1[0]] = Wrapped(x - lo, m, lo)
        return True

    def stmt(self, st, env):
        if isinstance(st, ast.Expr):
            if isinstance(st.value, ast.Constant):
                return
            self.ev(st.value, env)
        elif isinstance(st, ast.Return):
            raise _Return(self.ev(st.value, env) if st.value is not None else None)
        elif isinstance(st, ast.Assign):
            v = self.ev(st.value, env)
            for t in st.targets:
                self.assign(t, v, env)
        elif isinstance(st, ast.AnnAssign):
            if st.value is not None:
                self.assign(st.target, self.ev(st.value, env), env)
        elif isinstance(st, ast.AugAssign):
            self.augassign(st, env)
        elif isinstance(st, ast.If):
            if self.test(st.test, env):
                self.block(st.body, env)
            else:
                self.block(st.orelse, env)
        elif isinstance(st, ast.For):
            src = self.ev(st.iter, env)
            if isinstance(src, Obj) and self.dunder(src, "__iter__") is not None:
                r_ = self.call_function(self.dunder(src, "__iter__"), [src])
                if isinstance(r_, Obj) and self.dunder(r_, "__next__") is not None:
                    src = ProtoIter(self, r_, self.dunder(r_, "__next__"))       # elements are produced as the loop asks for them
                else:
                    src = r_
            if isinstance(src, LazyIter):
                def pull(src=src):
                    while True:
                        try:
                            yield src.next()
                        except StopIteration:
                            return
                seq = pull()
            else:
                seq = self.iterate(src, st)
            broke = False
            lvl = len(self.fn_stack)
            self.for_depth_at[lvl] = self.for_depth_at.get(lvl, 0) + 1
            try:
                for el in seq:
                    self.assign(st.target, el, env)
                    try:
                        self.block(st.body, env)
                    except _Break:
                        broke = True
                        break
                    except _Continue:
                        continue
            finally:
                self.for_depth_at[lvl] -= 1
            if not broke:
                self.block(st.orelse, env)
        elif isinstance(st, ast.Break):
            raise _Break()
        elif isinstance(st, ast.Continue):
            raise _Continue()
        elif isinstance(st, ast.Raise):
            if st.exc is None:
                exc = "re-raise"
            else:
                f = st.exc.func if isinstance(st.exc, ast.Call) else st.exc
                exc = ast.unparse(f).split(".")[-1]
            raise PathRaise(exc, self.where(st))
        elif isinstance(st, ast.Assert):
            if not self.truth(self.ev(st.test, env), st.test):
                raise PathRaise("AssertionError", self.where(st))
        elif isinstance(st, ast.Pass):
            pass
        elif isinstance(st, ast.While):
            if self.reduction_loop(st, env):
                return
            n_iter = 0
            broke = False
            lvl = len(self.fn_stack)
            self.while_depth_at[lvl] = self.while_depth_at.get(lvl, 0) + 1
            try:
                while self.truth(self.ev(st.test, env), st.test):
                    n_iter += 1
                    if n_iter > 64:
                        raise self.unsupported("while loop with more than 64 iterations", st)
                    try:
                        self.block(st.body, env)
                    except _Break:
                        broke = True
                        break
                    except _Continue:
                        continue
            finally:
                self.while_depth_at[lvl] -= 1
            if not broke:
                self.block(st.orelse, env)
        elif isinstance(st, ast.Try):
            try:
                try:
                    self.block(st.body, env)
                except PathRaise as e:
                    handled = False
                    for h in st.handlers:
                        names = []
                        if h.type is None:
                            names = None
                        else:
                            ts = h.type.elts if isinstance(h.type, ast.Tuple) else [h.type]
                            names = [ast.unparse(t).split(".")[-1] for t in ts]
                        exc_name = e.exc.split("(")[0]
                        if names is None or (set(names) & self.exc_ancestors(exc_name)):
                            if h.name:
                                env[h.name] = Opaque("exc", exc_name)
                            self.block(h.body, env)
                            handled = True
                            break
                    if not handled:
                        raise
                else:
                    self.block(st.orelse, env)
            finally:
                if st.finalbody:
                    self.block(st.finalbody, env)
        elif isinstance(st, ast.Delete):
            for t in st.targets:
                if isinstance(t, ast.Name):
                    env.pop(t.id, None)
                elif isinstance(t, ast.Subscript):
                    base = self.ev(t.value, env)
                    if isinstance(base, dict):
                        base.pop(self.hashable(self.ev(t.slice, env), t), None)
                    elif isinstance(base, list):
                        idx_ = self.ev_index(t.slice, env)
                        if isinstance(idx_, (int, slice)):
                            try:
                                del base[idx_]
                            except IndexError:
                                raise PathRaise("IndexError(list assignment index out of range)", self.where(st))
                        else:
                            raise self.unsupported("del with index %r" % (idx_,), st)
                    else:
                        raise self.unsupported("del of a sequence element", st)
                else:
                    raise self.unsupported("del target", st)
        elif isinstance(st, ast.With):
            self.exec_with(st, 0, env)
        elif isinstance(st, ast.Match):
            subject = self.ev(st.subject, env)
            for case in st.cases:
                binds = {}
                if not self.match_pattern(case.pattern, subject, binds, env, st):
                    continue
                env.update(binds)
                if case.guard is not None and not self.truth(self.ev(case.guard, env), case.guard):
                    continue
                self.block(case.body, env)
                break
        elif isinstance(st, ast.FunctionDef):
            st._gs_module = self.module_of_current()
            st._gs_class = None
            val = self.make_closure(st, env)
            todo = [d for d in st.decorator_list if _deco_leaf(d) not in self.TRANSPARENT_DECORATORS]
            if todo:
                import copy as _copy
                raw = _copy.copy(st)
                raw.decorator_list = [d for d in st.decorator_list if d not in todo]
                raw._gs_raw = True
                val = Opaque("closure", raw, env, val.payload[2], val.payload[3])
                for d in reversed(todo):
                    val = self.call_value(self.ev(d, env), [val], d)
            env[st.name] = val
        else:
            raise self.unsupported("statement %s" % type(st).__name__, st)

    BUILTIN_EXC_BASES = {
        "NotImplementedError": "RuntimeError", "RecursionError": "RuntimeError", "KeyError": "LookupError", "IndexError": "LookupError",
        "FileNotFoundError": "OSError", "PermissionError": "OSError", "IOError": "OSError", "ZeroDivisionError": "ArithmeticError",
        "FloatingPointError": "ArithmeticError", "OverflowError": "ArithmeticError", "UnicodeDecodeError": "ValueError",
        "ModuleNotFoundError": "ImportError", "StopIteration": "Exception", "AttributeError": "Exception", "TypeError": "Exception",
        "ValueError": "Exception", "AssertionError": "Exception", "RuntimeError": "Exception", "LookupError": "Exception",
        "OSError": "Exception", "ArithmeticError": "Exception", "ImportError": "Exception", "NameError": "Exception", "Exception": "BaseException",
        "MatrixRankWarning": "UserWarning", "SparseEfficiencyWarning": "SparseWarning", "SparseWarning": "Warning", "UserWarning": "Warning",
        "RuntimeWarning": "Warning", "DeprecationWarning": "Warning", "FutureWarning": "Warning", "Warning": "Exception",
    }

    def exc_ancestors(self, name):
        """The names of the exception class `name` and of all its base classes (package-defined classes and builtins)."""
        out, todo = set(), [name]
        while todo:
            x = todo.pop()
            if x in out:
                continue
            out.add(x)
            c = self.pkg.class_alias(x)
            if c is not None:
                for b in self.pkg.classes[c].bases:
                    todo.append(b.split(".")[-1])
            elif x in self.BUILTIN_EXC_BASES:
                todo.append(self.BUILTIN_EXC_BASES[x])
        if name not in self.BUILTIN_EXC_BASES and self.pkg.class_alias(name) is None and name != "BaseException":
            out |= {"Exception", "BaseException"}
        return out

    def match_pattern(self, pat, v, binds, env, node):
        """Structural pattern matching (PEP 634) of value v against pattern pat; captures go to `binds`."""
        if isinstance(pat, ast.MatchValue):
            return self.cmp(node, v, ast.Eq(), self.ev(pat.value, env)) is True
        if isinstance(pat, ast.MatchSingleton):
            return self.identical(v, pat.value)
        if isinstance(pat, ast.MatchAs):
            if pat.pattern is not None and not self.match_pattern(pat.pattern, v, binds, env, node):
                return False
            if pat.name is not None:
                binds[pat.name] = v
            return True
        if isinstance(pat, ast.MatchOr):
            for alt in pat.patterns:
                b2 = {}
                if self.match_pattern(alt, v, b2, env, node):
                    binds.update(b2)
                    return True
            return False
        if isinstance(pat, ast.MatchSequence):
            if isinstance(v, Obj) and getattr(v, "tuple_fields", None):
                v = tuple(v.fields[k] for k in v.tuple_fields)
            if not isinstance(v, (list, tuple)):
                return False
            pats = pat.patterns
            stars = [i for i, p_ in enumerate(pats) if isinstance(p_, ast.MatchStar)]
            if not stars:
                if len(pats) != len(v):
                    return False
                return all(self.match_pattern(p_, x, binds, env, node) for p_, x in zip(pats, v))
            i = stars[0]
            after = len(pats) - i - 1
            if len(v) < len(pats) - 1:
                return False
            if not all(self.match_pattern(p_, x, binds, env, node) for p_, x in zip(pats[:i], v[:i])):
                return False
            if after and not all(self.match_pattern(p_, x, binds, env, node) for p_, x in zip(pats[i + 1:], v[len(v) - after:])):
                return False
            if pats[i].name is not None:
                binds[pats[i].name] = list(v[i:len(v) - after])
            return True
        if isinstance(pat, ast.MatchMapping):
            if not isinstance(v, dict):
                return False
            for k_, p_ in zip(pat.keys, pat.patterns):
                hk = self.hashable(self.ev(k_, env), node)
                if hk not in v or not self.match_pattern(p_, v[hk], binds, env, node):
                    return False
            if pat.rest is not None:
                used = {self.hashable(self.ev(k_, env), node) for k_ in pat.keys}
                binds[pat.rest] = {k_: x for k_, x in v.items() if k_ not in used}
            return True
        if isinstance(pat, ast.MatchClass):
            c = self.ev(pat.cls, env)
            if not self.isinstance_(v, c, node):
                return False
            if pat.patterns:
                if isinstance(c, ClassRef) and c.name in ("str", "int", "float", "bool", "list", "tuple", "dict", "set", "bytes") and len(pat.patterns) == 1:
                    if not self.match_pattern(pat.patterns[0], v, binds, env, node):
                        return False
                elif isinstance(c, ClassRef) and c.name in self.pkg.classes:
                    ci = self.pkg.classes[c.name]
                    names = list(ci.annotations)
                    if "__match_args__" in ci.consts:
                        names = list(self.iterate(self.class_const(c.name, "__match_args__", ci.consts["__match_args__"]), node))
                    if len(pat.patterns) > len(names):
                        raise PathRaise("TypeError(too many positional sub-patterns)", self.where(node))
                    for nm_, p_ in zip(names, pat.patterns):
                        x = self.ev_Attribute(ast.Attribute(value=_Lit(v), attr=nm_, ctx=ast.Load(), lineno=getattr(node, "lineno", 0)), {})
                        if not self.match_pattern(p_, x, binds, env, node):
                            return False
                else:
                    raise self.unsupported("positional class pattern for %r" % (c,), node)
            for nm_, p_ in zip(pat.kwd_attrs, pat.kwd_patterns):
                try:
                    x = self.ev_Attribute(ast.Attribute(value=_Lit(v), attr=nm_, ctx=ast.Load(), lineno=getattr(node, "lineno", 0)), {})
                except PathRaise:
                    return False
                if not self.match_pattern(p_, x, binds, env, node):
                    return False
            return True
        raise self.unsupported("match pattern %s" % type(pat).__name__, node)

    def exec_with(self, st, i, env):
        """`with` items i.. of statement st, then its body: the context-manager protocol (class based or @contextmanager)."""
        if i == len(st.items):
            self.block(st.body, env)
            return
        item = st.items[i]
        v = self.ev(item.context_expr, env)

        def bind(val):
            if item.optional_vars is not None:
                self.assign(item.optional_vars, val, env)
        if isinstance(v, CtxGen):
            self.run_ctxgen(v, bind, lambda: self.exec_with(st, i + 1, env), st)
            return
        if isinstance(v, (Obj, Pose)) and v.cls in self.pkg.classes and self.pkg.lookup(v.cls, "__enter__") is not None:
            bind(self.call_method(v, "__enter__", []))
            try:
                self.exec_with(st, i + 1, env)
            except PathRaise as e:
                swallow = self.call_method(v, "__exit__", [Opaque("exc-type", e.exc), Opaque("exc", e.exc), None])
                if swallow is not None and not isinstance(swallow, (bool, type(None))):
                    swallow = self.truth(swallow, st)
                if swallow:
                    return
                raise
            except (_Return, _Break, _Continue):
                self.call_method(v, "__exit__", [None, None, None])
                raise
            self.call_method(v, "__exit__", [None, None, None])
            return
        if isinstance(v, Opaque) and v.kind == "warnctx":
            # warnings.catch_warnings(): the filter list is restored on the way out, whatever happens inside
            saved = list(self.warn_filters)
            bind(None)
            try:
                self.exec_with(st, i + 1, env)
            finally:
                self.warn_filters[:] = saved
            return
        bind(v)       # files (virtual), closing(x), np.errstate(...): the object itself
        self.exec_with(st, i + 1, env)

    def run_ctxgen(self, g, bind, body, node):
        """@contextmanager generator: statements before its single `yield`, the with-body, the statements after it.
        Supported shapes:   pre...; yield [v]; post...      and      pre...; try: pre2...; yield [v]; post2...  finally: fin...; post..."""
        fn = g.fn
        from .model import strip_docstring
        stmts = strip_docstring(fn.body)

        def is_yield(x):
            return (isinstance(x, ast.Expr) and isinstance(x.value, ast.Yield)) or \
                   (isinstance(x, (ast.Assign, ast.AnnAssign)) and isinstance(x.value, ast.Yield))

        def count_yields(nodes):
            return sum(1 for x in nodes for y in ast.walk(x) if isinstance(y, (ast.Yield, ast.YieldFrom)))
        top = [k for k, x in enumerate(stmts) if is_yield(x)]
        tries = [k for k, x in enumerate(stmts) if isinstance(x, ast.Try) and any(is_yield(y) for y in x.body)]
        if count_yields(stmts) != 1 or len(top) + len(tries) != 1:
            raise self.unsupported("@contextmanager function %s is not of the form pre; [try:] yield; [finally:] post" % fn_label(fn), node)
        # bind the arguments exactly like a call would
        holder = {}
        import copy as _copy
        shell = _copy.copy(fn)
        shell.decorator_list, shell.body, shell._gs_raw = [], [ast.Pass()], True
        shell._gs_module, shell._gs_class = getattr(fn, "_gs_module", None), getattr(fn, "_gs_class", None)

        saved_run = self.run

        def grab(f_, env_):
            holder["env"] = env_
            return None
        self.run = grab
        try:
            self.call_function(shell, g.args, g.kw)
        finally:
            self.run = saved_run
        genv = holder["env"]
        self.fn_stack.append(fn)
        try:
            if top:
                k = top[0]
                pre, ystmt, post, tr = stmts[:k], stmts[k], stmts[k + 1:], None
            else:
                tr = stmts[tries[0]]
                if tr.handlers or tr.orelse:
                    raise self.unsupported("@contextmanager with except/else around the yield", node)
                j = [q for q, y in enumerate(tr.body) if is_yield(y)][0]
                pre, ystmt, post = stmts[:tries[0]] + tr.body[:j], tr.body[j], tr.body[j + 1:]
            self.block(pre, genv)
            yv = ystmt.value.value
            bind(self.ev(yv, genv) if yv is not None else None)
            self.fn_stack.pop()
            try:
                try:
                    body()
                finally:
                    self.fn_stack.append(fn)
            except (PathRaise, _Return, _Break, _Continue):
                if tr is not None:
                    self.block(tr.finalbody, genv)
                raise
            if isinstance(ystmt, (ast.Assign, ast.AnnAssign)):
                for t_ in (ystmt.targets if isinstance(ystmt, ast.Assign) else [ystmt.target]):
                    self.assign(t_, None, genv)
            try:
                self.block(post, genv)
                if tr is not None:
                    self.block(tr.finalbody, genv)
                    self.block(stmts[tries[0] + 1:], genv)
            except _Return:
                pass
        finally:
            self.fn_stack.pop()

    def iterate(self, v, node):
        if isinstance(v, LazyIter):
            return v.drain()
        if isinstance(v, ClassRef) and v.name in self.pkg.classes and self.pkg.classes[v.name].enum_kind:
            return self.enum_members(v.name)
        if isinstance(v, (list, tuple)):
            return list(v)
        if isinstance(v, Obj) and self.dunder(v, "__iter__") is not None:
            r_ = self.call_function(self.dunder(v, "__iter__"), [v])
            if isinstance(r_, Obj) and self.dunder(r_, "__next__") is not None:
                return ProtoIter(self, r_, self.dunder(r_, "__next__")).drain()
            return self.iterate(r_, node)
        if isinstance(v, Obj) and getattr(v, "tuple_fields", None):
            return [v.fields[k] for k in v.tuple_fields]
        if isinstance(v, BytesVal):
            return list(v.vals)
        if isinstance(v, VFile):
            return v.text_lines()
        if isinstance(v, Arr3):
            return list(v.mats)
        if isinstance(v, IndexSet):
            return [Arr([Poly.const(i) for i, _ in v.pairs], 1), Arr([Poly.const(j) for _, j in v.pairs], 1)]
        if isinstance(v, (frozenset, set)):
            # the iteration order of a set is an accident of hashing: every order (up to three elements; forwards and backwards beyond)
            # is explored wherever the elements are consumed in order (order-free consumers go through `elements`)
            items = sorted(v, key=repr)
            if len(items) >= 2 and not getattr(self, "_order_free", 0):
                import itertools as _it
                perms = list(_it.permutations(items)) if len(items) <= 3 else [tuple(items), tuple(reversed(items))]
                items = perms[self.choose(len(perms), "iteration order of a set of %d elements" % len(items))]
            return [self.unhash(x) for x in items]
        if isinstance(v, dict):
            return [self.unhash(x) for x in v]      # iterating a dict yields its keys in insertion order
        if isinstance(v, Arr):
            if v.ndim == 2:
                return [Arr(list(r), 1) for r in v.data]
            return list(v.data)
        raise self.unsupported("iteration over %r" % (v,), node)

    def assign(self, t, v, env):
        if isinstance(t, ast.Name):
            env[t.id] = v
        elif isinstance(t, (ast.Tuple, ast.List)):
            vals = self.iterate(v, t)
            stars = [i for i, e in enumerate(t.elts) if isinstance(e, ast.Starred)]
            if len(stars) == 1:
                i = stars[0]
                after = len(t.elts) - i - 1
                if len(vals) < len(t.elts) - 1:
                    raise PathRaise("ValueError(not enough values to unpack)", self.where(t))
                parts = vals[:i] + [list(vals[i:len(vals) - after])] + (vals[len(vals) - after:] if after else [])
                targets = [e.value if isinstance(e, ast.Starred) else e for e in t.elts]
                for tt, vv in zip(targets, parts):
                    self.assign(tt, vv, env)
                return
            if len(vals) != len(t.elts):
                raise PathRaise("ValueError(unpack: expected %d values, got %d)" % (len(t.elts), len(vals)), self.where(t))
            for tt, vv in zip(t.elts, vals):
                self.assign(tt, vv, env)
        elif isinstance(t, ast.Attribute):
            base = self.ev(t.value, env)
            if isinstance(base, (Obj, Pose)) and base.cls in self.pkg.classes:
                sfn = self.pkg.setter(base.cls, t.attr)
                if sfn is not None:
                    self.call_function(sfn, [base, v])
                    return
                k_ = self.pkg.lookup(base.cls, t.attr)
                if k_ is not None and k_[0] == "prop":
                    raise PathRaise("AttributeError(property %s has no setter)" % t.attr, self.where(t))
            if isinstance(base, Opaque) and base.kind in ("closure", "callable", "pkgfunc", "bound", "clsmeth"):
                return      # function attributes (__name__, __doc__, markers) carry no behaviour
            if isinstance(base, Obj):
                base.fields[t.attr] = v
            elif isinstance(base, ClassRef):
                self.class_attrs[(base.name, t.attr)] = v
            elif isinstance(base, Arr):
                base.__dict__.setdefault("attrs", {})[t.attr] = v
            else:
                raise self.unsupported("attribute store on %r" % (base,), t)
        elif isinstance(t, ast.Subscript):
            base = self.ev(t.value, env)
            self.store(base, t.slice, v, env, t)
        else:
            raise self.unsupported("assignment target %s" % type(t).__name__, t)

    def augassign(self, st, env):
        t = st.target
        cur = self.ev(t, env)
        val = self.ev(st.value, env)
        op = type(st.op)
        if isinstance(cur, (Pose, Obj)) and op is ast.Add and self.pkg.lookup(cur.cls, "__iadd__"):
            new = self.call_method(cur, "__iadd__", [val])
            self.assign(t, new, env)
            return
        if isinstance(cur, list) and op is ast.Add:
            cur.extend(self.iterate(val, st))         # list += iterable extends the same list object
            return
        if isinstance(cur, (tuple, str)) and op is ast.Add and type(val) is type(cur):
            self.assign(t, cur + val, env)
            return
        elem_of_container = isinstance(t, ast.Subscript) and isinstance(self.ev(t.value, env), (dict, list))
        if isinstance(cur, Arr) and (not isinstance(t, ast.Subscript) or elem_of_container):
            # ndarray in-place arithmetic mutates the same object
            new = self.arith(op, cur, val, st)
            if not isinstance(new, Arr) or new.shape != cur.shape:
                raise self.unsupported("in-place op changes shape", st)
            cur.data[:] = new.data
            self.after_write(cur)
            return
        new = self.arith(op, cur, val, st)
        in_for = self.for_depth_at.get(len(self.fn_stack), 0) > 0
        in_while = self.while_depth_at.get(len(self.fn_stack), 0) > 0
        if op in (ast.Add, ast.Sub) and isinstance(cur, Poly) and isinstance(new, Poly) and (in_for or in_while) and id(new) not in self.taint:
            c0, c1 = cur.const_value(), new.const_value()
            if c0 is not None and c1 is not None and int(c0) == c0 and int(c1) == c1:
                # an integer accumulated over the elements of a collection (a running index, a count) or over the passes of a while
                # loop (an iteration counter): its value grows with the size of the input / the number of iterations, so a test of
                # it against a constant is a threshold
                new = Poly(dict(new.t))
                self.taint[id(new)] = ("len" if in_for else "counter", new)
        self.assign(t, new, env)

    def make_view(self, view, owner, cells):
        """`view` shares storage with `owner`: element k (row-major) of the view is owner cell cells[k]."""
        view.is_view = True
        view.view_of = (owner, cells)
        if not hasattr(owner, "views"):
            owner.views = []
        owner.views.append(view)

    @staticmethod
    def _cells_get(arr, cell):
        return arr.data[cell[0]] if len(cell) == 1 else arr.data[cell[0]][cell[1]]

    @staticmethod
    def _cells_set(arr, cell, x):
        if len(cell) == 1:
            arr.data[cell[0]] = x
        else:
            arr.data[cell[0]][cell[1]] = x

    def after_write(self, arr, _from=None):
        """Propagate an in-place modification of `arr` to the array it is a view of and to the views taken of it."""
        vo = getattr(arr, "view_of", None)
        if vo is not None and vo[0] is not _from:
            owner, cells = vo
            for cell, x in zip(cells, arr.flat()):
                self._cells_set(owner, cell, x)
            self.after_write(owner, _from=arr)
        for v in getattr(arr, "views", []) or []:
            if v is _from:
                continue
            owner, cells = v.view_of
            vals = [self._cells_get(arr, c) for c in cells]
            if v.ndim == 1:
                v.data[:] = vals
            else:
                w = len(v.data[0]) if v.data else 0
                for r_ in range(len(v.data)):
                    v.data[r_][:] = vals[r_ * w:(r_ + 1) * w]
            self.after_write(v, _from=arr)

    def store(self, base, sl, v, env, node):
        if isinstance(base, dict):
            base[self.hashable(self.ev(sl, env), node)] = v
            return
        if isinstance(base, list):
            base[self.intval(self.ev(sl, env), node)] = v
            return
        if not isinstance(base, Arr):
            raise self.unsupported("subscript store on %r" % (base,), node)
        if getattr(base, "foreign_dtype", False):
            raise LossyOperation("element store into an array whose dtype is the caller's (an integer or float32 array truncates / rounds "
                                 "what is stored into it)", self.where(node))
        if isinstance(v, Obj) and getattr(v, "tuple_fields", None):
            v = [v.fields[k] for k in v.tuple_fields]
        if isinstance(v, (list, tuple)) and v and all(isinstance(r, (list, tuple, Arr)) for r in v):
            v = self.to_arr(v, node)      # nested list literal assigned to a block
        if isinstance(sl, ast.Constant) and sl.value is Ellipsis:
            new = self.to_arr(v, node) if not isinstance(v, Arr) else v
            if new.shape != base.shape:
                raise PathRaise("ValueError(could not broadcast)", self.where(node))
            base.data[:] = [list(r) for r in new.data] if base.ndim == 2 else list(new.data)
            return
        if getattr(base, "view_of", None) is not None or getattr(base, "views", None):
            base_views_sync = True
        else:
            base_views_sync = False
        if base_views_sync and not getattr(self, "_in_view_store", False):
            self._in_view_store = True
            try:
                self.store(base, sl, v, env, node)
            finally:
                self._in_view_store = False
            self.after_write(base)
            return
        if getattr(base, "t_of", None) is not None:
            # store through a transposed view: perform it on the transposed copy, then write the result back to the owner
            owner = base.t_of
            base.t_of = None
            try:
                self.store(base, sl, v, env, node)
            finally:
                base.t_of = owner
            owner.data[:] = [list(r) for r in zip(*base.data)]
            return
        idx = self.ev_index(sl, env)
        if isinstance(idx, IndexGrid2):
            if base.ndim != 2:
                raise self.unsupported("pair of 2-D integer indices into a 1-D array", node)
            nr, nc = base.shape
            R_, C_ = len(idx.rows), len(idx.rows[0]) if idx.rows else 0
            val = v if isinstance(v, Arr) else (self.to_arr(v, node) if isinstance(v, (list, tuple)) else None)
            for i in range(R_):
                for j in range(C_):
                    r_, c_ = idx.rows[i][j], idx.cols[i][j]
                    if not (-nr <= r_ < nr and -nc <= c_ < nc):
                        raise PathRaise("IndexError(index out of bounds)", self.where(node))
                    if val is None:
                        x = v
                    elif val.ndim == 2:
                        vr, vc = val.shape
                        if not ((vr == R_ or vr == 1) and (vc == C_ or vc == 1)):
                            raise PathRaise("ValueError(shape mismatch: value array could not be broadcast to the indexing result)", self.where(node))
                        x = val.data[i if vr > 1 else 0][j if vc > 1 else 0]
                    else:
                        if len(val.data) not in (C_, 1):
                            raise PathRaise("ValueError(shape mismatch: value array could not be broadcast to the indexing result)", self.where(node))
                        x = val.data[j if len(val.data) > 1 else 0]
                    base.data[r_][c_] = _elem(x if isinstance(x, Quot) else self.scalar(x, node))
            self.after_write(base)
            return
        if isinstance(idx, NonZeroMask):
            raise self.unsupported("store through a value-dependent mask", node)
        if isinstance(idx, BoolArr):
            # arr[mask] = value(s): the selected entries, in row-major order
            flat_n = len(base.flat())
            if len(idx.flat) != flat_n:
                raise PathRaise("IndexError(boolean index did not match indexed array)", self.where(node))
            sel = [k for k, f_ in enumerate(idx.flat) if f_]
            vals = self.flat_values(v, len(sel), node)
            for k, x in zip(sel, vals):
                if base.ndim == 2:
                    base.data[k // base.shape[1]][k % base.shape[1]] = _elem(x)
                else:
                    base.data[k] = _elem(x)
            self.after_write(base)
            return
        if isinstance(idx, IndexSet):
            vals = self.flat_values(v, len(idx.pairs), node)
            for (i, j), x in zip(idx.pairs, vals):
                base.data[i][j] = _elem(x)
            return
        if base.ndim == 1:
            if isinstance(idx, slice):
                n = len(base.data[idx])
                base.data[idx] = [_elem(x) for x in self.flat_values(v, n, node)]
            elif isinstance(idx, list):
                vals = self.flat_values(v, len(idx), node)
                for i_, x in zip(idx, vals):
                    if not -len(base.data) <= i_ < len(base.data):
                        raise PathRaise("IndexError(index out of bounds)", self.where(node))
                    base.data[i_] = _elem(x)
                self.after_write(base)
            else:
                base.data[idx] = _elem(v if isinstance(v, Quot) else self.scalar(v, node))
            return
        # 2-D
        if not isinstance(idx, tuple):
            idx = (idx, slice(None))
        ri, ci = idx
        rows = list(range(len(base.data)))[ri] if isinstance(ri, slice) else [ri]
        ncols = len(base.data[0]) if base.data else 0
        cols = list(range(ncols))[ci] if isinstance(ci, slice) else [ci]
        if isinstance(v, Arr) and v.ndim == 2:
            vr, vc = v.shape
            if not ((vr == len(rows) or vr == 1) and (vc == len(cols) or vc == 1)):
                # numpy and scipy.sparse both refuse: the selected block (clipped to the array bounds) and the value differ in shape
                raise PathRaise("ValueError(could not broadcast input array from shape %s into shape %s)" % (v.shape, (len(rows), len(cols))),
                                self.where(node))
            for a, r in enumerate(rows):
                for b, c in enumerate(cols):
                    base.data[r][c] = v.data[a if vr > 1 else 0][b if vc > 1 else 0]
            return
        vals = self.flat_values(v, len(rows) * len(cols), node)
        k = 0
        for r in rows:
            for c in cols:
                base.data[r][c] = _elem(vals[k])
                k += 1

    def flat_values(self, v, n, node):
        if isinstance(v, Arr):
            vals = v.flat()
        elif isinstance(v, (list, tuple)):
            vals = [x if isinstance(x, Quot) else self.scalar(x, node) for x in v]
        else:
            vals = [v if isinstance(v, Quot) else self.scalar(v, node)] * n
        if len(vals) != n:
            raise self.unsupported("store of %d values into %d slots" % (len(vals), n), node)
        return vals

    def hashable(self, v, node):
        if isinstance(v, Poly):
            c = v.const_value()
            return ("num", c) if c is not None else ("poly", v.key())
        if isinstance(v, (tuple, list)):
            return tuple(self.hashable(x, node) for x in v)
        if isinstance(v, (str, bool)) or v is None:
            return v
        if isinstance(v, ClassRef):
            return v
        if isinstance(v, BytesVal):
            return v.key()
        if isinstance(v, Obj) and getattr(v, "tuple_fields", None):
            return tuple(self.hashable(v.fields[k], node) for k in v.tuple_fields)
        if isinstance(v, Obj) and getattr(v, "enum_member", False):
            return ("enum", v.cls, v.fields["name"])
        if isinstance(v, slice):
            return ("slice", v.start, v.stop, v.step)
        if isinstance(v, (ObjKey, HashVal)):
            return v
        if isinstance(v, Obj) and v.cls in self.pkg.classes and not self.pkg.unknown_bases(v.cls):
            eq_cls = hash_cls = None
            for c in self.pkg.mro(v.cls):
                ms = self.pkg.classes[c].methods
                if hash_cls is None and ("__hash__" in ms or "__hash__" in self.pkg.classes[c].consts):
                    hash_cls = c
                if eq_cls is None and "__eq__" in ms:
                    eq_cls = c
                if eq_cls is not None or hash_cls is not None:
                    break            # the first class of the MRO that defines either decides (defining __eq__ alone unsets __hash__)
            if eq_cls is None and hash_cls is None:
                return ObjKey(self, v, ("id", id(v)), True)
            if hash_cls is None or "__hash__" not in self.pkg.classes[hash_cls].methods:
                raise PathRaise("TypeError(unhashable type: '%s')" % v.cls, self.where(node) if node is not None else "?")
            hv = self.call_method(v, "__hash__", [])
            return ObjKey(self, v, self.hashable(hv, node), eq_cls is None and self.dunder(v, "__eq__") is None)
        if isinstance(v, (Pose, Arr)):
            raise PathRaise("TypeError(unhashable type: 'numpy.ndarray')", self.where(node) if node is not None else "?")
        raise self.unsupported("unhashable key %r" % (v,), node)

    # ------------------------------------------------------------------------------------ truth
    def truth(self, v, node=None):
        if isinstance(v, bool):
            return v
        if v is None:
            return False
        if isinstance(v, Poly):
            c = v.const_value()
            if c is not None:
                return c != 0
            return self.decide_sign(v, {-1, 1}, "%s != 0" % v.short(60))
        if isinstance(v, (_regex.Match, _regex.Regex)):
            return True
        if isinstance(v, (list, tuple, dict, str, set, frozenset)):
            return len(v) > 0
        if isinstance(v, BoolArr):
            if len(v.flat) == 1:
                return v.flat[0]
            raise PathRaise("ValueError(truth value of an array with more than one element is ambiguous)", self.where(node) if node is not None else "?")
        if isinstance(v, Arr):
            if len(v.flat()) == 1:
                return self.truth(v.flat()[0], node)
            raise PathRaise("ValueError(truth value of an array with more than one element is ambiguous)", self.where(node) if node is not None else "?")
        if isinstance(v, Obj):
            if self.pkg.lookup(v.cls, "__bool__") or self.pkg.lookup(v.cls, "__len__"):
                raise self.unsupported("truthiness of %s with __bool__/__len__" % v.cls, node)
            return True
        if isinstance(v, (ClassRef, Opaque)):
            return True
        raise self.unsupported("truth value of %r" % (v,), node)

    # ------------------------------------------------------------------------------------ expressions
    def ev(self, n, env):
        m = getattr(self, "ev_" + type(n).__name__, None)
        if m is None:
            raise self.unsupported("expression %s" % type(n).__name__, n)
        return m(n, env)

    def ev_Yield(self, n, env):
        if not self.gen_stack:
            raise self.unsupported("yield outside a generator", n)
        return self.gen_stack[-1].yield_(self.ev(n.value, env) if n.value is not None else None)

    def ev_YieldFrom(self, n, env):
        if not self.gen_stack:
            raise self.unsupported("yield outside a generator", n)
        g = self.gen_stack[-1]
        inner = self.ev(n.value, env)
        if isinstance(inner, LazyIter):
            while True:
                try:
                    x = inner.next()
                except StopIteration:
                    break
                g.yield_(x)
        else:
            for x in self.iterate(inner, n):
                g.yield_(x)
        return None

    def ev__Lit(self, n, env):
        return n.value

    def ev_Constant(self, n, env):
        v = n.value
        if isinstance(v, bool) or v is None or isinstance(v, str):
            return v
        if isinstance(v, int):
            return self.as_int(Poly.const(v))
        if isinstance(v, float):
            return Poly.const(v)
        if isinstance(v, complex):
            return Cx(Poly.const(v.real), Poly.const(v.imag))
        raise self.unsupported("constant %r" % (v,), n)

    def functional_nt_fields(self, clsname):
        """Field names when a class in the MRO derives from `namedtuple("Name", fields)` written as a call in the base list."""
        for c in self.pkg.mro(clsname):
            for b in self.pkg.classes[c].bases:
                if isinstance(b, str) and b.replace("collections.", "").startswith("namedtuple("):
                    try:
                        call = ast.parse(b, mode="eval").body
                        f = ast.literal_eval(call.args[1])
                    except Exception:  # noqa
                        return None
                    return f.replace(",", " ").split() if isinstance(f, str) else list(f)
        return None

    def as_int(self, p):
        """Tag a Poly object as a Python int (as opposed to a float with an integer value): `type(x) is int` tells them apart."""
        self.int_objs[id(p)] = p
        return p

    def is_int_obj(self, p):
        return isinstance(p, Poly) and self.int_objs.get(id(p)) is p

    def module_of_current(self):
        fn = self.fn_stack[-1] if self.fn_stack else None
        return getattr(fn, "_gs_module", None)

    def ev_Name(self, n, env):
        nm = n.id
        if nm in env:
            return env[nm]
        mod = self.module_of_current()
        if mod is not None:
            local_cls = self.pkg.module_classes.get(mod, {})
            if nm in local_cls:
                return ClassRef(local_cls[nm])
            consts = self.pkg.module_consts.get(mod, {})
            if nm in consts:
                return self.module_global(mod, nm, consts[nm])
            imps = self.pkg.module_imports.get(mod, {})
            if nm in imps:
                origin = imps[nm]
                if origin in ("numpy", "math"):
                    return Opaque("module", origin)
                if origin.startswith(".") or origin.startswith("graphslam"):
                    leaf = origin.rsplit(".", 1)[-1]
                    if leaf in self.pkg.classes:
                        return ClassRef(leaf)
                    src_mod = origin.rsplit(".", 1)[0].rsplit(".", 1)[-1]
                    for rel_, fm_ in sorted(self.pkg.module_funcs.items()):
                        if leaf in fm_ and os.path.splitext(os.path.basename(rel_))[0] == src_mod:
                            return Opaque("pkgfunc", fm_[leaf])
                    if leaf in self.pkg.funcs:
                        return Opaque("pkgfunc", leaf)
                    for rel, cs in sorted(self.pkg.module_consts.items()):
                        if leaf in cs:
                            return self.module_global(rel, leaf, cs[leaf])
                return Opaque("import", origin)
        if nm in self.pkg.classes:
            return ClassRef(nm)
        fk_ = self.pkg.func_key(nm, mod)
        if fk_ is not None:
            return Opaque("pkgfunc", fk_)
        if nm in BUILTIN_NAMES:
            return Opaque("builtin", nm)
        if nm == "__name__":
            return "graphslam"
        if nm == "__debug__":
            return True
        if nm == "NotImplemented":
            return NOTIMPL
        if nm == "float":
            return FLOAT
        raise self.unsupported("unknown name %s" % nm, n)

    def enum_member_names(self, cname):
        ci = self.pkg.classes[cname]
        return [k for k, e in ci.consts.items() if not k.startswith("_") and not isinstance(e, ast.Lambda)]

    def enum_member(self, cname, name):
        """Members of an Enum class are singletons; IntEnum members are the integers themselves (they are used as indices)."""
        key = ("enum", cname, name)
        if key not in self.globals_cache:
            ci = self.pkg.classes[cname]
            val = self.class_const(cname, name, ci.consts[name])
            if isinstance(val, EnumAuto):
                val = Poly.const(self.enum_member_names(cname).index(name) + 1)
            if ci.enum_kind == "int":
                self.globals_cache[key] = val
            else:
                m = Obj(cname)
                m.fields["_name_"] = m.fields["name"] = name
                m.fields["_value_"] = m.fields["value"] = val
                m.enum_member = True
                init = self.pkg.lookup(cname, "__init__")
                if init is not None and init[0] == "method":
                    self.call_function(init[1][0], [m] + (list(val) if isinstance(val, tuple) else [val]))
                self.globals_cache[key] = m
        return self.globals_cache[key]

    def enum_members(self, cname):
        return [self.enum_member(cname, k) for k in self.enum_member_names(cname)]

    def ensure_module(self, rel):
        """Execute the module-level statements with side effects (registrations, attribute assignments on classes) once."""
        if rel in self.modules_inited:
            return
        self.modules_inited.add(rel)
        fake = ast.FunctionDef(name="<module>", args=None, body=[], decorator_list=[])
        fake._gs_module, fake._gs_class = rel, None
        self.fn_stack.append(fake)
        try:
            env = {}
            for st in self.pkg.module_effects.get(rel, []):
                self.stmt(st, env)
        finally:
            self.fn_stack.pop()

    def annotation_class(self, ann, rel):
        """The class a parameter annotation denotes (for singledispatch registration by annotation), or None."""
        if ann is None:
            return None
        if isinstance(ann, ast.Constant) and isinstance(ann.value, str):
            try:
                ann = ast.parse(ann.value, mode="eval").body
            except SyntaxError:
                return None
        try:
            v = self.ev_in_module(ann, rel)
        except (Unsupported, PathRaise):
            return None
        return self.as_class(v)

    @staticmethod
    def as_class(v):
        if isinstance(v, ClassRef):
            return v
        if isinstance(v, Opaque) and v.kind == "builtin" and v.payload[0] in ("int", "float", "str", "list", "tuple", "dict", "set", "bool", "object"):
            return ClassRef(v.payload[0])
        return None

    def dispatch_target(self, fn, args):
        """functools.singledispatch(-method): the registered implementation for the type of the dispatch argument."""
        is_method = getattr(fn, "_gs_class", None) is not None
        k = 1 if is_method else 0
        if len(args) <= k:
            return fn
        v = args[k]
        regs = []       # (class, FunctionDef)
        rel = getattr(fn, "_gs_module", None)
        if is_method:
            for c in self.pkg.mro(fn._gs_class):
                for r in self.pkg.classes[c].dispatch_regs.get(fn.name, []):
                    regs.append(r)
        else:
            regs = list(self.pkg.dispatch_regs.get((rel, fn.name), []))
        table = []
        for r in regs:
            cls = None
            for d in r.decorator_list:
                if isinstance(d, ast.Call) and isinstance(d.func, ast.Attribute) and d.func.attr == "register" and d.args:
                    cls = self.as_class(self.ev_in_module(d.args[0], rel))
            if cls is None:
                params = r.args.args[k:]
                cls = self.annotation_class(params[0].annotation, rel) if params else None
            if cls is None:
                raise self.unsupported("singledispatch registration of %s without a resolvable type" % fn_label(r), r)
            table.append((cls, r))
        table += self.dyn_regs.get(id(fn), [])
        # most specific registered class along the value's MRO
        t = self.type_of(v, fn)
        if t.name in self.pkg.classes:
            for c in self.pkg.mro(t.name):
                for cls, r in table:
                    if cls.name == c:
                        return r
            if isinstance(v, Arr):
                for cls, r in table:
                    if cls.name == "ndarray":
                        return r
        else:
            for cls, r in table:
                if self.isinstance_(v, cls, fn) and cls.name != "object":
                    return r
        return fn

    CLASS_DECORATORS_TRANSPARENT = {"dataclass", "total_ordering", "final", "runtime_checkable", "unique", "verify"}

    def ensure_class(self, name):
        """Apply the class decorators of `name` (and of its bases) once, as the class statement would."""
        for c in reversed(self.pkg.mro(name)):
            if c in self.class_inited:
                continue
            self.class_inited.add(c)
            ci = self.pkg.classes[c]
            if ci.module in self.pkg.module_effects:
                self.ensure_module(ci.module)
            for b_ in self.pkg.mro(c)[1:]:
                bi = self.pkg.classes[b_]
                if "__init_subclass__" in bi.methods:
                    kwargs_ = {k_.arg: self.ev_in_module(k_.value, ci.module) for k_ in ci.node.keywords if k_.arg and k_.arg != "metaclass"}
                    self.call_function(bi.methods["__init_subclass__"][0], [ClassRef(c)], kwargs_)
                    break
            for d in reversed(ci.decorators):
                if _deco_leaf(d) in self.CLASS_DECORATORS_TRANSPARENT:
                    if _deco_leaf(d) == "total_ordering":
                        raise self.unsupported("functools.total_ordering on %s" % c, d)
                    continue
                dv = self.ev_in_module(d, ci.module)
                r = self.call_value(dv, [ClassRef(c)], d)
                if not (isinstance(r, ClassRef) and r.name == c):
                    raise self.unsupported("class decorator of %s does not return the class" % c, d)

    def module_global(self, rel, nm, expr):
        """A module-level binding is evaluated once per program run: mutable values (arrays, dicts used as memo tables, ...)
        are shared by every reference, exactly as in Python."""
        key = (rel, nm)
        if key not in self.globals_cache:
            self.globals_cache[key] = self.ev_in_module(expr, rel)
        return self.globals_cache[key]

    def class_const(self, owner, nm, expr):
        key = ("class", owner, nm)
        if key not in self.globals_cache:
            # a class body is a scope: names of earlier class-level bindings are visible in later ones
            ci = self.pkg.classes[owner]
            env = {}
            for x in ast.walk(expr):
                if isinstance(x, ast.Name) and x.id in ci.consts and x.id != nm:
                    env[x.id] = self.class_const(owner, x.id, ci.consts[x.id])
            self.globals_cache[key] = self.ev_in_module(expr, ci.module, env)
        return self.globals_cache[key]

    def ev_in_module(self, expr, rel, env=None):
        fake = ast.FunctionDef(name="<module>", args=None, body=[], decorator_list=[])
        fake._gs_module = rel
        fake._gs_class = None
        self.fn_stack.append(fake)
        try:
            return self.ev(expr, dict(env or {}))
        finally:
            self.fn_stack.pop()

    def _elts(self, elts, env):
        out = []
        for e in elts:
            if isinstance(e, ast.Starred):
                out.extend(self.iterate(self.ev(e.value, env), e))
            else:
                out.append(self.ev(e, env))
        return out

    def ev_List(self, n, env):
        return self._elts(n.elts, env)

    def ev_Tuple(self, n, env):
        return tuple(self._elts(n.elts, env))

    def ev_Dict(self, n, env):
        return {self.hashable(self.ev(k, env), n): self.ev(v, env) for k, v in zip(n.keys, n.values)}

    def ev_IfExp(self, n, env):
        if self.truth(self.ev(n.test, env), n.test):
            return self.ev(n.body, env)
        return self.ev(n.orelse, env)

    def truth_of_or(self, n, env):
        """Truth value of `a or b or c` when only its truth value is used and the operands are plain numbers read from names /
        subscripts (no side effects): one decision for the whole chain.  None when the shape does not apply."""
        if not (isinstance(n, ast.BoolOp) and isinstance(n.op, ast.Or) and len(n.values) >= 2 and
                all(isinstance(e, (ast.Name, ast.Subscript, ast.Attribute, ast.Constant)) for e in n.values)):
            return None
        vals = [self.ev(e, env) for e in n.values]
        if not all(isinstance(v, (Poly, Wrapped)) and not isinstance(v, bool) for v in vals):
            # (already evaluated operands are pure reads: evaluating them again below is harmless)
            return None
        return self.any_nonzero(vals, n)

    def test(self, node, env):
        """Truth value of an expression in a boolean position (if / while / not / conditional expression)."""
        r = self.truth_of_or(node, env)
        if r is not None:
            return r
        return self.truth(self.ev(node, env), node)

    def ev_UnaryOp(self, n, env):
        if isinstance(n.op, ast.Not):
            r = self.truth_of_or(n.operand, env)
            if r is not None:
                return not r
        v = self.ev(n.operand, env)
        if isinstance(n.op, ast.Not):
            return not self.truth(v, n)
        if isinstance(n.op, ast.USub):
            return self.neg(v, n)
        if isinstance(n.op, ast.UAdd):
            return v
        raise self.unsupported("unary operator", n)

    def dunder(self, v, name):
        """The method implementing operator `name` for an object of a package class, or None."""
        if isinstance(v, Obj) and v.cls in self.pkg.classes:
            k = self.pkg.lookup(v.cls, name)
            if k is not None and k[0] == "method":
                return k[1][0]
        return None

    def neg(self, v, node):
        f_ = self.dunder(v, "__neg__")
        if f_ is not None:
            return self.call_function(f_, [v])
        if isinstance(v, Pose):
            return Pose(v.cls, [self.neg(x, node) for x in v.data])
        if isinstance(v, Arr):
            return v.map(lambda x: self.neg(x, node))
        if isinstance(v, Poly):
            return -v
        if isinstance(v, Cx):
            return Cx(-v.re, -v.im)
        if isinstance(v, Quot):
            return Quot(self.neg(v.num, node), v.den)
        if isinstance(v, Wrapped):
            return -self.unwrap(v, node)
        raise self.unsupported("negation of %r" % (v,), node)

    def ev_BoolOp(self, n, env):
        if isinstance(n.op, ast.Or):
            last = False
            for e in n.values:
                last = self.ev(e, env)
                if self.truth(last, e):
                    return last
            return last
        last = True
        for e in n.values:
            last = self.ev(e, env)
            if not self.truth(last, e):
                return last
        return last

    def ev_Compare(self, n, env):
        l = self.ev(n.left, env)
        if len(n.ops) == 1:
            return self.cmp(n, l, n.ops[0], self.ev(n.comparators[0], env))     # may be an element-wise (boolean array) result
        for op, rn in zip(n.ops, n.comparators):
            r = self.ev(rn, env)
            res = self.cmp(n, l, op, r)
            if isinstance(res, BoolArr):
                raise PathRaise("ValueError(truth value of an array is ambiguous)", self.where(n))
            if not res:
                return False
            l = r
        return True

    def compare_values(self, op, l, r):
        return self.cmp(None, l, op, r)

    def cmp(self, node, l, op, r):
        if isinstance(op, (ast.Is, ast.IsNot)):
            same = self.identical(l, r)
            return same if isinstance(op, ast.Is) else not same
        if isinstance(op, (ast.In, ast.NotIn)):
            if isinstance(r, dict):
                res = self.hashable(l, node) in r
            elif isinstance(r, (set, frozenset)):
                res = self.hashable(l, node) in r
            elif isinstance(r, (list, tuple)):
                res = any(self.equal(l, x, node) for x in r)
            else:
                raise self.unsupported("membership test in %r" % (r,), node)
            return res if isinstance(op, ast.In) else not res
        if type(op) in SIGNS_OF and (isinstance(l, Wrapped) or isinstance(r, Wrapped)):
            # a wrapped value lies in [offset, offset + modulus): comparisons with constants outside that interval are decided by it
            w_, c_, flip = (l, r, False) if isinstance(l, Wrapped) else (r, l, True)
            if isinstance(c_, Poly):
                lo_, hi_, cv_ = self.pi_value(w_.offset), self.pi_value(w_.offset + w_.modulus), self.pi_value(c_)
                if None not in (lo_, hi_, cv_):
                    o_ = type(op)
                    if flip:
                        o_ = {ast.Lt: ast.Gt, ast.LtE: ast.GtE, ast.Gt: ast.Lt, ast.GtE: ast.LtE}.get(o_, o_)
                    if cv_ <= lo_ + 1e-12 and o_ in (ast.GtE, ast.Lt):
                        return o_ is ast.GtE            # w >= c always / w < c never   (c <= lower end)
                    if cv_ < lo_ - 1e-12 and o_ in (ast.Gt, ast.LtE):
                        return o_ is ast.Gt
                    if cv_ >= hi_ - 1e-12 and o_ in (ast.Lt, ast.GtE):
                        return o_ is ast.Lt             # w < c always / w >= c never   (c >= upper end, which is excluded)
                    if cv_ >= hi_ - 1e-12 and o_ in (ast.LtE, ast.Gt):
                        return o_ is ast.LtE
        if isinstance(l, Wrapped):
            l = self.unwrap(l, node)
        if isinstance(r, Wrapped):
            r = self.unwrap(r, node)
        if isinstance(l, Poly) and isinstance(r, Poly):
            for a_, b_ in ((l, r), (r, l)):
                ta, tb = self.taint.get(id(a_)), self.taint.get(id(b_))
                c_ = b_.const_value()
                if ta is None or tb is not None or c_ is None:
                    continue
                # a collection size / an iteration counter tested against a constant: what the code does may differ for larger
                # inputs / later iterations than any finite scenario contains
                if ta[0] in ("len", "param") and isinstance(op, (ast.Lt, ast.LtE, ast.Gt, ast.GtE)) and c_ >= 3:
                    self.events.append(("size-threshold", "%s compared with %s at %s" % ("len(...)", c_, self.where(node))))
                elif ta[0] in ("counter", "counter-derived") and (c_ >= 2 or ta[0] == "counter-derived") and not (ta[0] == "counter" and c_ <= 1):
                    self.events.append(("size-threshold", "an iteration counter compared with %s at %s" % (c_, self.where(node))))
            d = l - r
            return self.decide_sign(d, SIGNS_OF[type(op)], "%s %s 0" % (d.short(80), OPNAME[type(op)]))
        if (isinstance(l, Quot) or isinstance(r, Quot)) and isinstance(l, (Quot, Poly)) and isinstance(r, (Quot, Poly)) and type(op) in SIGNS_OF:
            q = self.quot_arith(ast.Sub, l, r, node)
            if isinstance(q.num, Poly) and isinstance(q.den, Poly):
                if self.known_positive(q.den):
                    return self.decide_sign(q.num, SIGNS_OF[type(op)], "%s %s 0" % (q.num.short(80), OPNAME[type(op)]))
                if self.known_positive(-q.den):
                    return self.decide_sign(-q.num, SIGNS_OF[type(op)], "%s %s 0" % ((-q.num).short(80), OPNAME[type(op)]))
                # sign of the denominator unknown: decide the sign of num*den instead (same sign as the quotient where defined)
                pr = q.num * q.den
                return self.decide_sign(pr, SIGNS_OF[type(op)], "(%s)/(%s) %s 0" % (q.num.short(40), q.den.short(40), OPNAME[type(op)]))
        if (isinstance(l, Arr) or isinstance(r, Arr)) and type(op) in SIGNS_OF:
            la = l if isinstance(l, Arr) else None
            ra = r if isinstance(r, Arr) else None
            if la is not None and ra is not None and la.shape != ra.shape:
                a, b = la.shape[::-1], ra.shape[::-1]
                if all(x == y or x == 1 or y == 1 for x, y in zip(a, b)):
                    raise self.unsupported("broadcast comparison", node)
                if isinstance(op, (ast.Eq, ast.NotEq)):
                    return isinstance(op, ast.NotEq)
                raise PathRaise("ValueError(operands could not be broadcast together)", self.where(node))
            shape = (la or ra).shape
            lf = la.flat() if la is not None else [self.scalar(l, node)] * len(ra.flat())
            rf = ra.flat() if ra is not None else [self.scalar(r, node)] * len(la.flat())
            out = []
            if isinstance(op, ast.NotEq) and la is not None and ra is None and isinstance(r, Poly) and r.is_zero() and la.ndim == 1 and \
                    sum(1 for x in lf if isinstance(x, Poly) and x.const_value() is None) > 2:
                # `values != 0` over many symbolic entries: kept undecided (deciding every entry would fork 2^n ways)
                return NonZeroMask([None if x.const_value() is None else (x.const_value() != 0) for x in lf], shape, la)
            for x, y in zip(lf, rf):
                if not isinstance(x, Poly) or not isinstance(y, Poly):
                    raise self.unsupported("comparison of array elements %r, %r" % (x, y), node)
                d = x - y
                out.append(self.decide_sign(d, SIGNS_OF[type(op)], "%s %s 0" % (d.short(60), OPNAME[type(op)])))
            return BoolArr(out, shape)
        if isinstance(op, (ast.Eq, ast.NotEq)):
            e = self.equal(l, r, node)
            return e if isinstance(op, ast.Eq) else not e
        raise self.unsupported("comparison of %r and %r" % (l, r), node)

    def identical(self, l, r):
        if l is None or r is None:
            return l is None and r is None
        if isinstance(l, bool) or isinstance(r, bool):
            return isinstance(l, bool) and isinstance(r, bool) and l == r
        lc, rc = self.as_class(l), self.as_class(r)
        if lc is not None and rc is not None:
            return lc.name == rc.name          # `type(x) is int`: the builtin type names and the class references denote the same classes
        if isinstance(l, (Poly, Quot, Wrapped)) and isinstance(r, (Poly, Quot, Wrapped)):
            # `is` on two numbers: whether two equal numbers are one object is an accident of the implementation (small-int
            # cache, where the value came from); unequal numbers are never the same object.  Both outcomes are explored.
            if isinstance(l, Poly) and isinstance(r, Poly):
                d = l - r
                c = d.const_value()
                if c is not None and c != 0:
                    return False
                if c is None and not self.decide_sign(d, {0}, "%s == 0" % d.short(60)):
                    return False
            self.ident_counter = getattr(self, "ident_counter", 0) + 1
            return self.decide_sign(Poly.var("same_number_object#%d" % self.ident_counter), {1},
                                    "the two equal numbers compared with `is` are the same object")
        return l is r

    def equal(self, l, r, node):
        if isinstance(l, Poly) and isinstance(r, Poly):
            d = l - r
            return self.decide_sign(d, {0}, "%s == 0" % d.short(80))
        if isinstance(l, (tuple, list)) and isinstance(r, (tuple, list)):
            if type(l) is not type(r) or len(l) != len(r):
                return False
            return all(self.equal(a, b, node) for a, b in zip(l, r))
        if isinstance(l, ClassRef) and isinstance(r, ClassRef):
            return l.name == r.name
        if isinstance(l, Opaque) and isinstance(r, Opaque) and l.kind == r.kind == "dtype":
            f64 = ("float64", "float", "double", "float_")
            return (l.payload[0] in f64 and r.payload[0] in f64) or l.payload == r.payload
        if isinstance(l, Opaque) and l.kind == "dtype" and (r is FLOAT or (isinstance(r, ClassRef) and r.name == "float")):
            return l.payload[0] in ("float64", "float", "double", "float_")
        if isinstance(r, Opaque) and r.kind == "dtype" and (l is FLOAT or (isinstance(l, ClassRef) and l.name == "float")):
            return r.payload[0] in ("float64", "float", "double", "float_")
        if isinstance(l, BytesVal) and isinstance(r, BytesVal):
            return l.key() == r.key()       # bit patterns: different symbols are treated as different (a miss recomputes, which is always right)
        if isinstance(l, (set, frozenset)) and isinstance(r, (set, frozenset)):
            return set(l) == set(r)
        if isinstance(l, str) and isinstance(r, str):
            return l == r
        if l is None or r is None:
            return l is None and r is None
        if isinstance(l, bool) and isinstance(r, bool):
            return l == r
        if type(l) is not type(r) and not (isinstance(l, Arr) and isinstance(r, Arr)):
            return False
        if isinstance(l, Obj) and isinstance(r, Obj):
            f_ = self.dunder(l, "__eq__")
            if f_ is not None:
                res = self.call_function(f_, [l, r])
                if res is NOTIMPL:
                    g_ = self.dunder(r, "__eq__")
                    res = self.call_function(g_, [r, l]) if g_ is not None else NOTIMPL
                    if res is NOTIMPL:
                        return l is r
                return self.truth(res, node)
            if getattr(l, "tuple_fields", None) and getattr(r, "tuple_fields", None):
                return self.equal(tuple(l.fields[k] for k in l.tuple_fields), tuple(r.fields[k] for k in r.tuple_fields), node)
            return l is r            # default object equality is identity (enum members are singletons)
        raise self.unsupported("equality of %r and %r" % (l, r), node)

    def ev_BinOp(self, n, env):
        a, b = self.ev(n.left, env), self.ev(n.right, env)
        op = type(n.op)
        if isinstance(a, Pose) and op in (ast.Add, ast.Sub):
            name = "__add__" if op is ast.Add else "__sub__"
            if self.pkg.lookup(a.cls, name):
                return self.call_method(a, name, [b])
        if op is ast.MatMult:
            if isinstance(a, Arr3) or isinstance(b, Arr3):
                return self.matmul3(a, b, n)
            return self.dot(a, b, n)
        if isinstance(a, bool) and isinstance(b, bool) and op in (ast.BitXor, ast.BitAnd, ast.BitOr):
            return {ast.BitXor: a ^ b, ast.BitAnd: a & b, ast.BitOr: a | b}[op]
        if isinstance(a, BytesVal) and isinstance(b, BytesVal) and op is ast.Add:
            return BytesVal(a.vals + b.vals)
        if isinstance(a, str) and op is ast.Add and isinstance(b, str):
            return a + b
        if isinstance(a, str) and op is ast.Mult and isinstance(b, Poly) and b.const_value() is not None:
            return a * int(b.const_value())
        if isinstance(a, (tuple, list)) and not isinstance(b, (Arr, tuple, list)) and op is ast.Mult and isinstance(b, Poly) and b.const_value() is not None:
            return a * int(b.const_value())
        if isinstance(b, (tuple, list)) and not isinstance(a, (Arr, tuple, list)) and op is ast.Mult and isinstance(a, Poly) and a.const_value() is not None:
            return b * int(a.const_value())
        if isinstance(a, str) and op is ast.Mod:
            import re as _re
            vals = list(b) if isinstance(b, tuple) else [b]
            out, k, pos = [], 0, 0
            for m in _re.finditer(r"%(?:\((\w+)\))?([-+ #0]*)(\d+|\*)?(?:\.(\d+))?([sdrfgeEGi%])", a):
                out.append(a[pos:m.start()])
                pos = m.end()
                if m.group(5) == "%":
                    out.append("%")
                    continue
                if k >= len(vals):
                    raise PathRaise("TypeError(not enough arguments for format string)", self.where(n))
                v = vals[k]
                k += 1
                if isinstance(v, (Poly, Wrapped)) and (m.group(5) not in ("s", "r") or m.group(3) or m.group(4)):
                    if not (m.group(5) in ("d", "i") and v.key() in self.int_tokens):
                        if self.lossy_ok:
                            out.append("<display>")
                            continue
                        raise LossyOperation("number formatted with %%%s (not the shortest round-trip repr)" % m.group(5), self.where(n))
                out.append(self.render(v, n))
            out.append(a[pos:])
            return "".join(out)
        if isinstance(a, tuple) and isinstance(b, tuple) and op is ast.Add:
            return a + b
        if isinstance(a, list) and isinstance(b, list) and op is ast.Add:
            return a + b
        return self.arith(op, a, b, n)

    def scalar(self, v, node):
        if isinstance(v, Poly):
            return v
        if isinstance(v, Wrapped):
            return self.unwrap(v, node)
        if isinstance(v, bool):
            raise self.unsupported("bool used as number", node)
        raise self.unsupported("expected a scalar, got %r" % (v,), node)

    @staticmethod
    def pi_value(p):
        """Numeric value of a polynomial in pi alone (None if it involves anything else)."""
        import math
        if not isinstance(p, Poly):
            return None
        tot = 0.0
        for m, c in p.t.items():
            term = float(Fraction(c))
            for vi, e in m:
                if poly.R.vars[vi] != PI_NAME:
                    return None
                term *= math.pi ** e
            tot += term
        return tot

    def reduction_loop(self, st, env):
        """`while x >= a: x -= c` / `while x < a: x += c` on a symbolic x (constants a, c): the loop subtracts / adds whole multiples
        of c until x is in the interval next to a -- a wrap computed by iteration.  Returns True if the loop was of that kind (and
        has been executed in closed form)."""
        if st.orelse or len(st.body) != 1 or not isinstance(st.body[0], ast.AugAssign) or not isinstance(st.test, ast.Compare) or \
                len(st.test.ops) != 1:
            return False
        aug = st.body[0]
        if not isinstance(aug.target, ast.Name) or not isinstance(aug.op, (ast.Add, ast.Sub)):
            return False
        name = aug.target.id
        lhs, rhs, op = st.test.left, st.test.comparators[0], type(st.test.ops[0])
        if isinstance(rhs, ast.Name) and rhs.id == name:
            lhs, rhs = rhs, lhs
            op = {ast.Lt: ast.Gt, ast.LtE: ast.GtE, ast.Gt: ast.Lt, ast.GtE: ast.LtE}.get(op)
        if not (isinstance(lhs, ast.Name) and lhs.id == name) or op not in (ast.Lt, ast.LtE, ast.Gt, ast.GtE) or name not in env:
            return False
        x = env[name]
        if not isinstance(x, (Poly, Wrapped)) or (isinstance(x, Poly) and x.const_value() is not None):
            return False
        try:
            a, c = self.ev(rhs, env), self.ev(aug.value, env)
        except Unsupported:
            return False
        av, cv = self.pi_value(a), self.pi_value(c)
        if av is None or cv is None or cv == 0:
            return False
        step = cv if isinstance(aug.op, ast.Add) else -cv          # x += step per pass
        if (op in (ast.GtE, ast.Gt) and step >= 0) or (op in (ast.Lt, ast.LtE) and step <= 0):
            return False                                            # does not move towards leaving the loop: not a reduction
        if not self.truth(self.compare_values(op(), x, a), st.test):
            return True                                             # the loop body never runs on this path
        m = c if cv > 0 else -c
        if isinstance(x, Wrapped):
            x = self.unwrap(x, st)
        self.events.append(("iterated-wrap", "`%s` at %s" % (ast.unparse(st).split("\n")[0][:60], self.where(st))))
        if op in (ast.GtE, ast.Gt):
            lo = a - m                                              # ends in [a - |c|, a)
        else:
            lo = a                                                  # ends in [a, a + |c|)
        env[name] = Wrapped(x - lo, m, lo)
        return True

    def unwrap(self, w, node):
        """A wrapped angle as an element of R/2piZ: inner + offset, provided the modulus is a multiple of 2*pi."""
        two_pi = PI() * 2
        m = w.modulus
        ok = False
        for k in (1, 2, 3, 4):
            if m == two_pi * k:
                ok = True
        if not ok:
            self.events.append(("noncongruent-wrap", "modulus %s at %s" % (m.short(40), self.where(node))))
        self.wrap_uses += 1
        if self.mark_wraps == "numbered":
            name = "WRAP%d" % len(self.wraps)
            self.wraps.append((name, w.inner + w.offset))
            return w.inner + w.offset + Poly.var(name)
        if self.mark_wraps:
            return w.inner + w.offset + Poly.var("WRAP")
        return w.inner + w.offset

    DUNDER_OF = {ast.Add: "add", ast.Sub: "sub", ast.Mult: "mul", ast.Div: "truediv", ast.MatMult: "matmul", ast.Pow: "pow", ast.Mod: "mod"}

    def arith(self, op, a, b, node):
        r = self._arith(op, a, b, node)
        if isinstance(r, Poly) and op in (ast.Add, ast.Sub, ast.Mult, ast.Mod, ast.FloorDiv, ast.Pow) and self.is_int_obj(a) and self.is_int_obj(b) \
                and r.const_value() is not None and int(r.const_value()) == r.const_value():
            if r is a or r is b or id(r) in self.taint:
                return self.as_int(r) if id(r) in self.taint else self.as_int(Poly(dict(r.t)))
            return self.as_int(r)
        return r

    def _arith(self, op, a, b, node):
        if isinstance(a, Obj) or isinstance(b, Obj):
            nm = self.DUNDER_OF.get(op)
            if nm is not None:
                f_ = self.dunder(a, "__%s__" % nm)
                if f_ is not None:
                    return self.call_function(f_, [a, b])
                f_ = self.dunder(b, "__r%s__" % nm)
                if f_ is not None:
                    return self.call_function(f_, [b, a])
            if isinstance(a, Obj) and getattr(a, "tuple_fields", None) and isinstance(b, Arr):
                a = self.to_arr(a, node)
            elif isinstance(b, Obj) and getattr(b, "tuple_fields", None) and isinstance(a, Arr):
                b = self.to_arr(b, node)
        if isinstance(a, (list, tuple)) and isinstance(b, Arr):
            a = self.to_arr(a, node)
        if isinstance(b, (list, tuple)) and isinstance(a, Arr):
            b = self.to_arr(b, node)
        if isinstance(a, Arr3) or isinstance(b, Arr3):
            if isinstance(a, (list, tuple)):
                a = self.to_arr(a, node)
            if isinstance(b, (list, tuple)):
                b = self.to_arr(b, node)
            if not all(isinstance(x, (Arr, Arr3, Poly, Wrapped)) for x in (a, b)):
                raise self.unsupported("arithmetic between a stack of matrices and %r" % (b if isinstance(a, Arr3) else a,), node)
            (sa_, fa), (sb_, fb) = nd_of(a), nd_of(b)
            tgt = nd_broadcast_shape(sa_, sb_)
            fa, fb = nd_expand(sa_, fa, tgt), nd_expand(sb_, fb, tgt)
            return nd_wrap(tgt, [self.arith(op, x, y, node) for x, y in zip(fa, fb)])
        if isinstance(a, Cx) or isinstance(b, Cx):
            return self.cx_arith(op, a, b, node)
        if isinstance(a, Pose) or isinstance(b, Pose):
            # numpy keeps the ndarray subclass for element-wise arithmetic
            cls = a.cls if isinstance(a, Pose) else b.cls
            r = self.arith(op, Arr(a.data, a.ndim) if isinstance(a, Arr) else a, Arr(b.data, b.ndim) if isinstance(b, Arr) else b, node)
            return Pose(cls, r.data) if isinstance(r, Arr) and r.ndim == 1 else r
        if isinstance(a, Arr) or isinstance(b, Arr):
            if isinstance(a, Arr) and isinstance(b, Arr):
                if a.ndim == 2 and b.ndim == 1 and a.shape[1] == b.shape[0]:
                    return Arr([[self.arith(op, x, y, node) for x, y in zip(r, b.data)] for r in a.data], 2)
                if a.ndim == 1 and b.ndim == 2 and b.shape[1] == a.shape[0]:
                    return Arr([[self.arith(op, x, y, node) for x, y in zip(a.data, r)] for r in b.data], 2)
                return a.zip(b, lambda x, y: self.arith(op, x, y, node))
            if isinstance(a, Arr):
                return Arr(a.data, a.ndim).map(lambda x: self.arith(op, x, b, node))
            return Arr(b.data, b.ndim).map(lambda y: self.arith(op, a, y, node))
        if isinstance(a, Wrapped) and op in (ast.Add, ast.Sub) and isinstance(b, Poly):
            return Wrapped(a.inner, a.modulus, a.offset + b if op is ast.Add else a.offset - b)
        if isinstance(b, Wrapped) and op is ast.Add and isinstance(a, Poly):
            return Wrapped(b.inner, b.modulus, b.offset + a)
        if isinstance(a, Wrapped):
            a = self.unwrap(a, node)
        if isinstance(b, Wrapped):
            b = self.unwrap(b, node)
        if isinstance(a, Quot) or isinstance(b, Quot):
            return self.quot_arith(op, a, b, node)
        if not isinstance(a, Poly) or not isinstance(b, Poly):
            raise self.unsupported("arithmetic on %r and %r" % (a, b), node)
        ta_, tb_ = self.taint.get(id(a)), self.taint.get(id(b))
        if (ta_ or tb_) and op in (ast.Add, ast.Sub, ast.Mult, ast.Mod, ast.FloorDiv):
            r = self._arith_plain(op, a, b, node)
            if isinstance(r, Poly):
                kind = (ta_ or tb_)[0]
                if op in (ast.Mod, ast.FloorDiv):
                    other = b if ta_ else a
                    oc = other.const_value()
                    if oc is not None and oc >= 2:
                        # len(xs) % 128, (i + 1) % 10, len(xs) // 8192: chunking / periodic behaviour
                        self.events.append(("size-threshold", "%s taken modulo / divided by %s at %s" % (
                            "a collection size" if kind == "len" else "an iteration counter", oc, self.where(node))))
                    kind = "counter-derived" if kind.startswith("counter") else kind
                r = Poly(dict(r.t))         # a private object, so that the taint does not leak to shared constants
                self.taint[id(r)] = (kind, r)
            return r
        return self._arith_plain(op, a, b, node)

    def _arith_plain(self, op, a, b, node):
        if op is ast.Add:
            r = a + b
            if self.is_nonneg_by_construction(a) and self.is_nonneg_by_construction(b):
                self.nonneg_keys.add(r.key())
            return r
        if op is ast.Sub:
            return a - b
        if op is ast.Mult:
            r = a * b
            if a == b or (self.is_nonneg_by_construction(a) and self.is_nonneg_by_construction(b)):
                self.nonneg_keys.add(r.key())      # a square, or a product of two non-negative quantities
            return r
        if op is ast.Pow:
            e = b.const_value()
            if e is None:
                raise self.unsupported("symbolic exponent", node)
            if isinstance(e, Fraction) and e == Fraction(1, 2):
                return self.np_sqrt(a, node)
            if int(e) != e or e < 0:
                raise self.unsupported("exponent %s" % e, node)
            r = a ** int(e)
            if int(e) % 2 == 0:
                self.nonneg_keys.add(r.key())
            return r
        if op is ast.Div:
            d = b.const_value()
            if d is None:
                nonzero = self.known_positive(b) or self.known_positive(-b)
                if a.is_zero() and nonzero:
                    return Poly()
                if not nonzero:
                    # a divisor that is not known to be non-zero on this path: recorded so that the obligation can look for an
                    # input of the property's domain at which it vanishes (the result is then inf / nan)
                    self.events.append(("division", b, self.where(node), {k: set(v) for k, v in self.facts.items()}))
                return Quot(a, b)
            if d == 0:
                raise self.unsupported("division by constant zero", node)
            if abs(Fraction(d)) <= Fraction(1, 1000) and not a.is_zero():
                # exact over the reals, but in floating point the rounding error of the numerator is amplified by 1/d (a difference
                # quotient): recorded for the obligations that promise an *exact* (analytic) result
                self.events.append(("amplification", "division by the constant %s" % float(Fraction(d)), self.where(node)))
            return a.scale(Fraction(1) / Fraction(d))
        if op is ast.Mod:
            if b.const_value() is None and not (b.variables() <= {PI_NAME}):
                raise self.unsupported("modulus by symbolic value", node)
            if a.const_value() is not None and b.const_value() is not None:
                return Poly.const(Fraction(a.const_value()) % Fraction(b.const_value()))
            return Wrapped(a, b, Poly())
        if op is ast.FloorDiv:
            ca, cb = a.const_value(), b.const_value()
            if ca is not None and cb is not None and int(ca) == ca and int(cb) == cb and cb != 0:
                return Poly.const(int(ca) // int(cb))       # integer bookkeeping (sizes, indices) is exact
            raise LossyOperation("floor division", self.where(node))
        raise self.unsupported("operator %s" % op.__name__, node)

    def cx_arith(self, op, a, b, node):
        def cx(x):
            if isinstance(x, Cx):
                return x
            if isinstance(x, Wrapped):
                x = self.unwrap(x, node)
            if isinstance(x, Poly):
                return Cx(x, Poly())
            raise self.unsupported("complex arithmetic with %r" % (x,), node)
        a, b = cx(a), cx(b)
        if op is ast.Add:
            return Cx(a.re + b.re, a.im + b.im)
        if op is ast.Sub:
            return Cx(a.re - b.re, a.im - b.im)
        if op is ast.Mult:
            return Cx(a.re * b.re - a.im * b.im, a.re * b.im + a.im * b.re)
        if op is ast.Div:
            den = b.re * b.re + b.im * b.im
            c = den.const_value()
            if c is None or c == 0:
                raise self.unsupported("division by a symbolic complex number", node)
            k = Fraction(1) / Fraction(c)
            return Cx((a.re * b.re + a.im * b.im).scale(k), (a.im * b.re - a.re * b.im).scale(k))
        if op is ast.Pow:
            e = b.re.const_value() if b.im.is_zero() else None
            if e is not None and int(e) == e and 0 <= e <= 8:
                r = Cx(Poly.const(1), Poly())
                for _ in range(int(e)):
                    r = self.cx_arith(ast.Mult, r, a, node)
                return r
        raise self.unsupported("operator on complex numbers", node)

    def quot_arith(self, op, a, b, node):
        def parts(x):
            return (x.num, x.den) if isinstance(x, Quot) else (x, Poly.const(1))
        (an, ad), (bn, bd) = parts(a), parts(b)
        for x in (an, ad, bn, bd):
            if not isinstance(x, Poly):
                raise self.unsupported("quotient arithmetic on arrays", node)
        if op is ast.Mult:
            return Quot(an * bn, ad * bd)
        if op is ast.Div:
            return Quot(an * bd, ad * bn)
        if op is ast.Add:
            return Quot(an * bd + bn * ad, ad * bd)
        if op is ast.Sub:
            return Quot(an * bd - bn * ad, ad * bd)
        raise self.unsupported("operator on quotient", node)

    # ------------------------------------------------------------------------------------ subscripts
    def ev_index(self, sl, env):
        if isinstance(sl, _Lit) and isinstance(sl.value, (slice, IndexSet, int, tuple, list)):
            return sl.value
        if isinstance(sl, ast.Constant) and sl.value is Ellipsis:
            return slice(None)
        if isinstance(sl, ast.Tuple) and len(sl.elts) == 2 and not any(isinstance(e, ast.Slice) for e in sl.elts):
            vals = [self.ev(e, env) for e in sl.elts]
            if all(isinstance(x, Arr) and x.ndim == 2 for x in vals):
                return self.index_grid2(vals[0], vals[1], sl)
            if all(isinstance(x, (Arr, list)) for x in vals):
                rows = [self.intval(x, sl) for x in (vals[0].data if isinstance(vals[0], Arr) else vals[0])]
                cols = [self.intval(x, sl) for x in (vals[1].data if isinstance(vals[1], Arr) else vals[1])]
                if len(rows) == len(cols):
                    return IndexSet(list(zip(rows, cols)))
            return tuple(x if isinstance(x, (slice, IndexSet)) or x is None else self.intval(x, sl) for x in vals)
        if isinstance(sl, ast.Tuple):
            return tuple(None if (isinstance(e, ast.Constant) and e.value is None) or
                         (isinstance(e, ast.Attribute) and e.attr == "newaxis") else self.ev_index(e, env) for e in sl.elts)
        if isinstance(sl, ast.Slice):
            lo = self.intval(self.ev(sl.lower, env), sl) if sl.lower is not None else None
            hi = self.intval(self.ev(sl.upper, env), sl) if sl.upper is not None else None
            st = self.intval(self.ev(sl.step, env), sl) if sl.step is not None else None
            return slice(lo, hi, st)
        v = self.ev(sl, env)
        if isinstance(v, (IndexSet, slice, BoolArr)):
            return v
        if isinstance(v, tuple) and any(isinstance(x, slice) for x in v):
            return tuple(x if isinstance(x, slice) else self.intval(x, sl) for x in v)
        if isinstance(v, Arr3) and all(isinstance(x, Poly) and x.const_value() is not None for m_ in v.mats for x in m_.flat()):
            return IndexGrid3([[[self.intval(x, sl) for x in r] for r in m_.data] for m_ in v.mats])
        if isinstance(v, tuple) and len(v) == 2 and all(isinstance(x, Arr) and x.ndim == 2 for x in v):
            return self.index_grid2(v[0], v[1], sl)
        if isinstance(v, tuple) and len(v) == 2 and all(isinstance(x, (Arr, list)) for x in v):
            rows = [self.intval(x, sl) for x in (v[0].data if isinstance(v[0], Arr) else v[0])]
            cols = [self.intval(x, sl) for x in (v[1].data if isinstance(v[1], Arr) else v[1])]
            if len(rows) == len(cols):
                return IndexSet(list(zip(rows, cols)))
        if isinstance(v, (list, tuple)) and v and all((isinstance(x, Poly) and x.const_value() is not None) or (isinstance(x, int) and not isinstance(x, bool)) for x in v) \
                and isinstance(v, list):
            return [x if isinstance(x, int) else self.intval(x, sl) for x in v]
        if isinstance(v, Arr) and v.ndim == 1 and all(x.const_value() is not None for x in v.data):
            return [self.intval(x, sl) for x in v.data]
        if isinstance(v, Arr) and v.ndim == 2 and all(isinstance(x, Poly) and x.const_value() is not None for x in v.flat()):
            return IndexGrid([[self.intval(x, sl) for x in r] for r in v.data])
        if isinstance(v, tuple) and all(isinstance(x, Poly) for x in v):
            return tuple(self.intval(x, sl) for x in v)
        return self.intval(v, sl)

    def index_grid2(self, A_, B_, sl):
        """a[A, B] with two (broadcastable) 2-D integer arrays: pairwise positions."""
        ra, ca = A_.shape
        rb, cb = B_.shape
        if (ra == rb or ra == 1 or rb == 1) and (ca == cb or ca == 1 or cb == 1):
            R_, C_ = max(ra, rb), max(ca, cb)
            rows = [[self.intval(A_.data[i if ra > 1 else 0][j if ca > 1 else 0], sl) for j in range(C_)] for i in range(R_)]
            cols = [[self.intval(B_.data[i if rb > 1 else 0][j if cb > 1 else 0], sl) for j in range(C_)] for i in range(R_)]
            return IndexGrid2(rows, cols)
        raise PathRaise("IndexError(shape mismatch: indexing arrays could not be broadcast together)", self.where(sl))

    def intval(self, v, node=None):
        if isinstance(v, Poly):
            c = v.const_value()
            if c is None and self.thin:
                sub, _ = self.equalities()
                if sub:
                    c = v.subs(sub).const_value()
            if c is not None and int(c) == c:
                return int(c)
        raise self.unsupported("non-constant index %r" % (v,), node)

    def ev_Subscript(self, n, env):
        v = self.ev(n.value, env)
        if isinstance(v, Opaque) and v.kind == "npfunc" and v.payload[0] in ("s_", "index_exp"):
            return self.ev_index(n.slice, env)
        if isinstance(v, Opaque) and v.kind == "npfunc" and v.payload[0] in ("c_", "r_"):
            parts = [self.ev(e, env) for e in (n.slice.elts if isinstance(n.slice, ast.Tuple) else [n.slice])]
            if any(isinstance(p_, str) for p_ in parts):
                raise self.unsupported("np.%s with a directive string" % v.payload[0], n)
            arrs = [p_ if isinstance(p_, Arr) else (self.to_arr(p_, n) if isinstance(p_, (list, tuple)) else Arr([self.scalar(p_, n)], 1)) for p_ in parts]
            if v.payload[0] == "r_":
                if all(a_.ndim == 1 for a_ in arrs):
                    return Arr([x for a_ in arrs for x in a_.data], 1)
                return self.npfunc("vstack", [arrs], {}, n)
            cols = [[[x] for x in a_.data] if a_.ndim == 1 else [list(r) for r in a_.data] for a_ in arrs]
            if len({len(c_) for c_ in cols}) != 1:
                raise PathRaise("ValueError(np.c_ row mismatch)", self.where(n))
            return Arr([sum((c_[i] for c_ in cols), []) for i in range(len(cols[0]))], 2)
        if isinstance(v, dict):
            k = self.hashable(self.ev(n.slice, env), n)
            if k not in v:
                if getattr(v, "default_factory", None) is not None:
                    v[k] = v.default_factory()
                    return v[k]
                raise PathRaise("KeyError", self.where(n))
            return v[k]
        idx = self.ev_index(n.slice, env)
        return self.index(v, idx, n)

    def index(self, v, idx, node):
        if isinstance(idx, IndexGrid2):
            if not isinstance(v, Arr) or v.ndim != 2:
                raise self.unsupported("pair of 2-D integer indices into %r" % (v,), node)
            nr, nc = v.shape
            if any(not -nr <= k < nr for r in idx.rows for k in r) or any(not -nc <= k < nc for r in idx.cols for k in r):
                raise PathRaise("IndexError(index out of bounds)", self.where(node))
            return Arr([[v.data[i][j] for i, j in zip(ri, ci)] for ri, ci in zip(idx.rows, idx.cols)], 2)
        if isinstance(idx, IndexGrid3):
            if not isinstance(v, Arr) or v.ndim != 1:
                raise self.unsupported("3-D integer index into %r" % (v,), node)
            n_ = len(v.data)
            if any(not -n_ <= k < n_ for m_ in idx.mats for r in m_ for k in r):
                raise PathRaise("IndexError(index out of bounds)", self.where(node))
            return Arr3([Arr([[v.data[k] for k in r] for r in m_], 2) for m_ in idx.mats])
        if isinstance(idx, tuple) and isinstance(v, (Arr, Arr3)) and not isinstance(v, Pose) and all(x is None or isinstance(x, (int, slice)) for x in idx) and \
                (isinstance(v, Arr3) or len(idx) >= 3):
            shp, fl = nd_of(v)
            return nd_wrap(*nd_basic_index(shp, fl, idx, self.where(node)))
        if isinstance(v, Arr3) and isinstance(idx, tuple) and len(idx) == 3:
            full = slice(None, None, None)
            a0, a1, a2 = idx
            if a0 == full and a1 == full and isinstance(a2, int):
                try:
                    return Arr([[r[a2] for r in m_.data] for m_ in v.mats], 2)
                except IndexError:
                    raise PathRaise("IndexError", self.where(node))
            if a0 == full and isinstance(a1, int) and a2 == full:
                try:
                    return Arr([list(m_.data[a1]) for m_ in v.mats], 2)
                except IndexError:
                    raise PathRaise("IndexError", self.where(node))
            if isinstance(a0, int) and isinstance(a1, int) and isinstance(a2, int):
                try:
                    return v.mats[a0].data[a1][a2]
                except IndexError:
                    raise PathRaise("IndexError", self.where(node))
            if isinstance(a0, int):
                if not -len(v.mats) <= a0 < len(v.mats):
                    raise PathRaise("IndexError", self.where(node))
                return self.index(v.mats[a0], (a1, a2), node)
        if isinstance(v, Arr3):
            if isinstance(idx, int):
                if not -len(v.mats) <= idx < len(v.mats):
                    raise PathRaise("IndexError", self.where(node))
                return v.mats[idx]
            if isinstance(idx, slice):
                return Arr3(v.mats[idx])
            raise self.unsupported("index %r into a stack of matrices" % (idx,), node)
        if isinstance(idx, IndexGrid):
            if not isinstance(v, Arr) or v.ndim != 1:
                raise self.unsupported("2-D integer index into %r" % (v,), node)
            n_ = len(v.data)
            if any(not -n_ <= k < n_ for r in idx.rows for k in r):
                raise PathRaise("IndexError(index out of bounds)", self.where(node))
            return Arr([[v.data[k] for k in r] for r in idx.rows], 2)
        if isinstance(idx, NonZeroMask):
            if not isinstance(v, Arr) or v.ndim != 1 or len(v.data) != len(idx.flat):
                raise self.unsupported("value-dependent mask applied to %r" % (v,), node)
            return MaskedArr(v, idx)
        if isinstance(idx, BoolArr):
            if not isinstance(v, Arr) or v.ndim != 1 or len(v.data) != len(idx.flat):
                raise self.unsupported("boolean mask applied to %r" % (v,), node)
            return Arr([x for x, f_ in zip(v.data, idx.flat) if f_], 1)
        if isinstance(v, BoolArr) and isinstance(idx, int) and len(v.shape) == 1:
            if not -len(v.flat) <= idx < len(v.flat):
                raise PathRaise("IndexError", self.where(node))
            return v.flat[idx]
        if isinstance(v, Obj):
            f_ = self.dunder(v, "__getitem__")
            if f_ is not None:
                return self.call_function(f_, [v, idx if not isinstance(idx, int) else Poly.const(idx)])
            if getattr(v, "tuple_fields", None):
                return self.index(tuple(v.fields[k] for k in v.tuple_fields), idx, node)
        if isinstance(v, _regex.Match):
            try:
                return v.group(idx if isinstance(idx, str) else self.intval(idx, node))
            except IndexError:
                raise PathRaise("IndexError(no such group)", self.where(node))
        if isinstance(v, str):
            if isinstance(idx, (slice, int)):
                try:
                    return v[idx]
                except IndexError:
                    raise PathRaise("IndexError", self.where(node))
            raise self.unsupported("index into string", node)
        if isinstance(v, (list, tuple)):
            if isinstance(idx, slice):
                return v[idx]
            if isinstance(idx, int):
                if not -len(v) <= idx < len(v):
                    raise PathRaise("IndexError", self.where(node))
                return v[idx]
            raise self.unsupported("index into sequence", node)
        if not isinstance(v, Arr):
            raise self.unsupported("subscript of %r" % (v,), node)
        if isinstance(idx, IndexSet):
            if v.ndim != 2:
                raise self.unsupported("index set on 1-D array", node)
            try:
                return Arr([v.data[i][j] for i, j in idx.pairs], 1)
            except IndexError:
                raise PathRaise("IndexError", self.where(node))
        if isinstance(idx, tuple) and any(x is None for x in idx) and v.ndim == 1 and len(idx) == 2:
            # v[:, np.newaxis] -> column ; v[np.newaxis, :] -> row
            rest = [x for x in idx if x is not None]
            if len(rest) == 1 and isinstance(rest[0], slice):
                vals = v.data[rest[0]]
                return Arr([[x] for x in vals], 2) if idx[1] is None else Arr([list(vals)], 2)
        if idx is None and isinstance(v, Arr) and v.ndim == 1:
            return Arr([list(v.data)], 2)
        if isinstance(idx, list):
            try:
                if v.ndim == 1:
                    return Arr([v.data[i] for i in idx], 1)
                return Arr([list(v.data[i]) for i in idx], 2)
            except IndexError:
                raise PathRaise("IndexError", self.where(node))
        if v.ndim == 1:
            if isinstance(idx, slice):
                r = Pose(v.cls, v.data[idx]) if isinstance(v, Pose) else Arr(v.data[idx], 1)
                self.make_view(r, v, [(i,) for i in range(len(v.data))[idx]])
                return r
            if isinstance(idx, int):
                if not -len(v.data) <= idx < len(v.data):
                    raise PathRaise("IndexError", self.where(node))
                return v.data[idx]
            raise self.unsupported("index %r into 1-D array" % (idx,), node)
        # 2-D
        if isinstance(idx, int):
            if not -len(v.data) <= idx < len(v.data):
                raise PathRaise("IndexError", self.where(node))
            r = Arr(list(v.data[idx]), 1)
            ncols_ = len(v.data[idx])
            self.make_view(r, v, [(idx % len(v.data), c) for c in range(ncols_)])
            return r
        if isinstance(idx, slice):
            r = Arr([list(x) for x in v.data[idx]], 2)
            ncols_ = len(v.data[0]) if v.data else 0
            self.make_view(r, v, [(r_, c) for r_ in range(len(v.data))[idx] for c in range(ncols_)])
            return r
        if isinstance(idx, tuple) and len(idx) == 2:
            ri, ci = idx
            try:
                if isinstance(ri, int) and isinstance(ci, int):
                    return v.data[ri][ci]
                if isinstance(ri, int):
                    r = Arr(v.data[ri][ci], 1)
                elif isinstance(ci, int):
                    r = Arr([row[ci] for row in v.data[ri]], 1)
                else:
                    r = Arr([row[ci] for row in v.data[ri]], 2)
            except IndexError:
                raise PathRaise("IndexError", self.where(node))
            nrows_, ncols_ = len(v.data), (len(v.data[0]) if v.data else 0)
            rows_ = [ri % nrows_] if isinstance(ri, int) else list(range(nrows_))[ri]
            cols_ = [ci % ncols_] if isinstance(ci, int) else list(range(ncols_))[ci]
            self.make_view(r, v, [(r_, c_) for r_ in rows_ for c_ in cols_])
            return r
        raise self.unsupported("index %r into 2-D array" % (idx,), node)

    # ------------------------------------------------------------------------------------ attributes
    def ev_Attribute(self, n, env):
        v = self.ev(n.value, env)
        a = n.attr
        if isinstance(v, Opaque) and v.kind in ("pkgfunc", "clsmeth", "bound") and a == "register":
            if v.kind == "pkgfunc":
                disp = self.pkg.funcs[v.payload[0]]
            else:
                owner_ = v.payload[0].name if isinstance(v.payload[0], ClassRef) else v.payload[0].cls
                kk_ = self.pkg.lookup(owner_, v.payload[1])
                disp = kk_[1][0] if kk_ is not None and kk_[0] == "method" else None
            if disp is None:
                raise self.unsupported("register on %r" % (v,), n)

            def register(cls_, impl=None, disp=disp, n=n):
                c_ = self.as_class(cls_)
                if c_ is None or impl is None:
                    raise self.unsupported("dynamic singledispatch registration form", n)
                if isinstance(impl, Opaque) and impl.kind == "pkgfunc":
                    f_ = self.pkg.funcs[impl.payload[0]]
                elif isinstance(impl, Opaque) and impl.kind in ("clsmeth", "bound"):
                    o_ = impl.payload[0].name if isinstance(impl.payload[0], ClassRef) else impl.payload[0].cls
                    f_ = self.pkg.lookup(o_, impl.payload[1])[1][0]
                else:
                    raise self.unsupported("dynamic singledispatch registration of %r" % (impl,), n)
                self.dyn_regs.setdefault(id(disp), []).append((c_, f_))
                return impl
            return Opaque("callable", register)
        if isinstance(v, Opaque) and v.kind in ("closure", "pkgfunc", "clsmeth", "bound") and a in ("__name__", "__qualname__", "__doc__", "__code__", "__wrapped__", "__module__"):
            fdef = None
            if v.kind == "closure":
                fdef = v.payload[0]
            elif v.kind == "pkgfunc":
                fdef = self.pkg.funcs[v.payload[0]]
            else:
                owner_ = v.payload[0].name if isinstance(v.payload[0], ClassRef) else v.payload[0].cls
                kk = self.pkg.lookup(owner_, v.payload[1])
                if kk is not None and kk[0] == "method":
                    fdef = kk[1][0]
            if fdef is None:
                raise self.unsupported("attribute %s of %r" % (a, v), n)
            if a in ("__name__", "__qualname__"):
                return fdef.name
            if a == "__doc__":
                return ast.get_docstring(fdef) or None
            if a == "__module__":
                return "graphslam"
            if a == "__code__":
                co = Obj("<code>")
                co.fields["co_argcount"] = Poly.const(len(fdef.args.posonlyargs) + len(fdef.args.args))
                co.fields["co_varnames"] = tuple(x.arg for x in fdef.args.args)
                return co
            raise self.unsupported("attribute %s of a function" % a, n)
        if isinstance(v, Opaque) and v.kind == "builtin" and v.payload[0] == "dict" and a == "fromkeys":
            def fromkeys(keys, value=None, n=n):
                d = {}
                for k_ in self.iterate(keys, n):
                    d.setdefault(self.hashable(k_, n), value)       # insertion order, first occurrence of every key
                return d
            return Opaque("callable", fromkeys)
        if isinstance(v, Opaque):
            if v.kind == "npfunc" and v.payload[0] in ("add", "subtract") and a == "at":
                return Opaque("ufunc_at", v.payload[0])
            if v.kind == "module":
                return self.module_attr(v.payload[0], a, n)
            if v.kind == "npsub":
                return Opaque("npfunc", v.payload[0] + "." + a)
            if v.kind == "finfo" and a == "eps":
                return poly.opaque("eps")
            if v.kind == "import":
                origin_ = v.payload[0]
                if origin_.startswith(".") or origin_.startswith("graphslam"):
                    if a in self.pkg.funcs:
                        return Opaque("pkgfunc", a)
                    if a in self.pkg.classes:
                        return ClassRef(a)
                    leafmod = origin_.rsplit(".", 1)[-1]
                    for rel, cs in sorted(self.pkg.module_consts.items()):
                        if a in cs and os.path.splitext(os.path.basename(rel))[0] == leafmod:
                            return self.module_global(rel, a, cs[a])
                return Opaque("import", v.payload[0] + "." + a)
            if v.kind == "lu" and a == "solve" and "spsolve" in self.overrides:
                return Opaque("callable", lambda rhs, H_=v.payload[0]: self.overrides["spsolve"](H_, rhs))
            if v.kind == "logger":
                return Opaque("logmeth", a)
            raise self.unsupported("attribute %s of %r" % (a, v), n)
        if isinstance(v, (Pose, Obj)) and v.cls in self.pkg.classes:
            self.ensure_class(v.cls)
        if isinstance(v, ClassRef) and v.name in self.pkg.classes:
            self.ensure_class(v.name)
        if isinstance(v, (Pose, Obj)) and not (isinstance(v, Obj) and (a in v.fields or a in v.stubs)) and \
                not (isinstance(v, Arr) and a in v.__dict__.get("attrs", {})):
            for c_ in (self.pkg.mro(v.cls) if v.cls in self.pkg.classes else []):
                if (c_, a) in self.class_attrs:
                    cv = self.class_attrs[(c_, a)]
                    if isinstance(cv, Opaque) and cv.kind in ("closure", "clsmeth"):
                        # a function stored on the class is a method of its instances
                        if cv.kind == "clsmeth":
                            kk = self.pkg.lookup(cv.payload[0].name, cv.payload[1])
                            if kk is not None and kk[0] == "method" and not kk[1][1] and not kk[1][2]:
                                return Opaque("callable", (lambda *args, v=v, f_=kk[1][0], **kw: self.call_function(f_, [v] + list(args), kw)))
                            return cv
                        return Opaque("callable", (lambda *args, v=v, cv=cv, n=n, **kw: self.call_value(cv, [v] + list(args), n, kw)))
                    return cv
                ci_ = self.pkg.classes[c_]
                if a in ci_.methods or a in ci_.props or a in ci_.consts:
                    break
        if isinstance(v, Pose):
            k = self.pkg.lookup(v.cls, a)
            if k is not None:
                if k[0] == "prop":
                    return self.call_function(k[1], [v])
                if k[0] == "const":
                    return self.class_const(k[2], a, k[1])
                return Opaque("bound", v, a)
        if isinstance(v, Cx):
            if a == "real":
                return v.re
            if a == "imag":
                return v.im
            if a == "conjugate":
                return Opaque("callable", lambda v=v: Cx(v.re, -v.im))
            raise self.unsupported("attribute %s of a complex number" % a, n)
        if isinstance(v, Poly) and a in ("real", "imag", "conjugate"):
            return v if a == "real" else (Poly() if a == "imag" else Opaque("callable", lambda v=v: v))
        if isinstance(v, slice) and a in ("start", "stop", "step"):
            x = getattr(v, a)
            return None if x is None else Poly.const(x)
        if isinstance(v, (dict, list, tuple, str, Arr)) and a == "__getitem__":
            return Opaque("callable", (lambda k, v=v, n=n: self.ev_Subscript(ast.Subscript(value=_Lit(v), slice=_Lit(k), ctx=ast.Load(), lineno=getattr(n, "lineno", 0)), {})))
        if isinstance(v, Arr) and a == "__dict__":
            return v.__dict__.setdefault("attrs", {})
        if isinstance(v, Arr) and a in v.__dict__.get("attrs", {}):
            return v.__dict__["attrs"][a]
        if isinstance(v, Arr3):
            if a == "shape":
                return tuple(Poly.const(x) for x in v.shape)
            if a == "ndim":
                return Poly.const(3)
            if a == "size":
                return Poly.const(len(nd_of(v)[1]))
            if a in ("ravel", "flatten"):
                return Opaque("callable", lambda v=v: Arr(nd_of(v)[1], 1))
            if a == "copy":
                return Opaque("callable", lambda v=v: Arr3([m_.copy() for m_ in v.mats]))
            if a == "reshape":
                def _reshape3(*shape, v=v, n=n):
                    if len(shape) == 1 and isinstance(shape[0], (tuple, list)):
                        shape = tuple(shape[0])
                    dims = [self.intval(x, n) for x in shape]
                    flat = nd_of(v)[1]
                    if dims.count(-1) == 1:
                        known = 1
                        for d in dims:
                            known *= d if d != -1 else 1
                        dims[dims.index(-1)] = len(flat) // known if known else 0
                    tot = 1
                    for d in dims:
                        tot *= d
                    if tot != len(flat):
                        raise PathRaise("ValueError(cannot reshape array)", self.where(n))
                    return nd_wrap(dims, flat)
                return Opaque("callable", _reshape3)
            raise self.unsupported("attribute %s of a 3-D array" % a, n)
        if isinstance(v, Arr):
            if a == "T":
                return v.T()
            if a == "shape":
                return tuple(Poly.const(x) for x in v.shape)
            if a == "ndim":
                return Poly.const(v.ndim)
            if a == "size":
                return Poly.const(len(v.flat()))
            if a in ARR_METHODS:
                return Opaque("arrmeth", v, a)
            if a == "flags":
                fl_ = Obj("<flags>")
                fl_.fields["writeable"] = True
                return fl_
            if a == "dtype":
                return Opaque("dtype", "float64")
            if isinstance(v, Pose) and v.cls in self.pkg.classes and not v.__dict__.get("_finalized"):
                # numpy calls __array_finalize__(self, obj) whenever an instance of the subclass comes into being; the translator
                # runs it on first use of an instance attribute (obj=None: attributes are not inherited from a parent array)
                fin = self.pkg.lookup(v.cls, "__array_finalize__")
                if fin is not None and fin[0] == "method":
                    v._finalized = True
                    self.call_function(fin[1][0], [v, None])
                    if a in v.__dict__.get("attrs", {}):
                        return v.__dict__["attrs"][a]
            raise self.unsupported("ndarray attribute %s" % a, n)
        if isinstance(v, ClassRef) and v.name in self.pkg.classes and self.pkg.classes[v.name].enum_kind and \
                a in self.enum_member_names(v.name):
            return self.enum_member(v.name, a)
        if isinstance(v, ClassRef):
            for c_ in (self.pkg.mro(v.name) if v.name in self.pkg.classes else [v.name]):
                if (c_, a) in self.class_attrs:
                    return self.class_attrs[(c_, a)]
            if v.name in self.pkg.classes:
                k = self.pkg.lookup(v.name, a)
                if k is not None:
                    if k[0] == "const":
                        return self.class_const(k[2], a, k[1])
                    if k[0] == "method":
                        return Opaque("clsmeth", v, a)
                ci = self.pkg.classes[v.name]
                if a in ci.inner:
                    return ClassRef(ci.inner[a])
                if a in ("__name__", "__qualname__"):
                    return v.name.split("@")[0]
                if a == "__bases__":
                    local = self.pkg.module_classes.get(ci.module, {})
                    return tuple(ClassRef(local.get(b, b)) for b in ci.bases)
                if a == "__mro__":
                    return tuple(ClassRef(c_) for c_ in self.pkg.mro(v.name))
            raise self.unsupported("class attribute %s.%s" % (v.name, a), n)
        if isinstance(v, Obj):
            k = self.pkg.lookup(v.cls, a) if v.cls in self.pkg.classes else None
            if k is not None and k[0] == "prop" and a not in v.stubs:
                return self.call_function(k[1], [v])      # a property is a data descriptor: it wins over the instance dict
            if a in v.fields:
                return v.fields[a]
            if a in v.stubs:
                return Opaque("bound", v, a)
            if getattr(v, "tuple_fields", None):
                if a == "_fields":
                    return tuple(v.tuple_fields)
                if a == "_asdict":
                    return Opaque("callable", (lambda v=v: {k_: v.fields[k_] for k_ in v.tuple_fields}))
                if a == "_replace":
                    def repl(v=v, **kw_):
                        o = Obj(v.cls, **dict(v.fields))
                        o.tuple_fields = v.tuple_fields
                        for k_, x_ in kw_.items():
                            if k_ not in v.tuple_fields:
                                raise PathRaise("ValueError(unexpected field %s)" % k_, self.where(n))
                            o.fields[k_] = x_
                        return o
                    return Opaque("callable", repl)
                if a in ("index", "count"):
                    return Opaque("pymeth", tuple(v.fields[k_] for k_ in v.tuple_fields), a)
            if k is not None:
                if k[0] == "prop":
                    return self.call_function(k[1], [v])
                if k[0] == "const":
                    return self.class_const(k[2], a, k[1])
                return Opaque("bound", v, a)
            if a == "__class__":
                return ClassRef(v.cls)
            if v.cls in self.pkg.classes:
                for c_ in self.pkg.mro(v.cls):
                    if a in self.pkg.classes[c_].inner:
                        return ClassRef(self.pkg.classes[c_].inner[a])      # a nested class reached through an instance
                unk = self.pkg.unknown_bases(v.cls)
                if unk and set(b_.split(".")[-1] for b_ in unk) <= {"Mapping", "MutableMapping"} and self.dunder(v, "__getitem__") and self.dunder(v, "__iter__"):
                    # collections.abc.Mapping mixin methods, derived from __getitem__ / __iter__ / __len__ as the ABC does
                    def keys_(v=v):
                        return self.iterate(self.call_function(self.dunder(v, "__iter__"), [v]), n)

                    def getitem_(k_, v=v):
                        return self.call_function(self.dunder(v, "__getitem__"), [v, k_])
                    if a == "keys":
                        return Opaque("callable", lambda: list(keys_()))
                    if a == "values":
                        return Opaque("callable", lambda: [getitem_(k_) for k_ in keys_()])
                    if a == "items":
                        return Opaque("callable", lambda: [(k_, getitem_(k_)) for k_ in keys_()])
                    if a == "__contains__":
                        return Opaque("callable", lambda k_: any(self.equal(k_, x_, n) is True for x_ in keys_()))
                    if a == "get":
                        def get_(k_, default=None):
                            for x_ in keys_():
                                if self.equal(k_, x_, n) is True:
                                    return getitem_(k_)
                            return default
                        return Opaque("callable", get_)
                if unk:
                    raise self.unsupported("attribute %s of %s, which inherits from %s (not part of the model)" % (a, v.cls, ", ".join(unk)), n)
            raise PathRaise("AttributeError(%s.%s)" % (v.cls, a), self.where(n))
        if isinstance(v, Poly):
            if a in ("real",):
                return v
            if a in ("tobytes", "tostring"):
                return Opaque("callable", (lambda v=v: BytesVal([v])))
            if a == "item":
                return Opaque("callable", (lambda v=v: v))
        if isinstance(v, _regex.Regex):
            if a == "pattern":
                return v.pattern
            if a == "groups":
                return Poly.const(v.rx.groups)
            return Opaque("callable", (lambda *args, v=v, a=a, n=n, **kw: self.re_call(a, v, list(args), kw, n)))
        if isinstance(v, _regex.Match):
            return Opaque("callable", (lambda *args, v=v, a=a, n=n, **kw: self.match_method(v, a, list(args), kw, n)))
        if isinstance(v, VFile):
            return Opaque("vfile", v, a)
        if isinstance(v, BoolArr) and a in ("all", "any"):
            return Opaque("callable", (lambda v=v, a=a: all(v.flat) if a == "all" else any(v.flat)))
        if isinstance(v, (list, dict, str, tuple, set, frozenset)):
            return Opaque("pymeth", v, a)
        if v is None:
            raise PathRaise("AttributeError(None.%s)" % a, self.where(n))
        raise self.unsupported("attribute %s on %r" % (a, v), n)

    def module_attr(self, mod, a, n):
        if a == "pi":
            return PI()
        if a == "tau":
            return PI() * 2
        if a == "inf":
            raise self.unsupported("infinity", n)
        if a == "newaxis":
            return None
        if a in OK_DTYPES:
            return Opaque("dtype", a)
        if a == "ndarray":
            return NDARRAY
        if a in ("linalg", "random"):
            return Opaque("npsub", a)
        if mod == "math" and a == "sqrt":
            return Opaque("npfunc", "math.sqrt")       # math.sqrt raises ValueError for a negative argument, np.sqrt returns nan
        return Opaque("npfunc", a)

    # ------------------------------------------------------------------------------------ calls
    def ev_Call(self, n, env):
        f = self.ev(n.func, env)
        args = []
        for a in n.args:
            if isinstance(a, ast.Starred):
                args.extend(self.iterate(self.ev(a.value, env), a))
            else:
                args.append(self.ev(a, env))
        kw = {}
        for k in n.keywords:
            if k.arg is None:
                d = self.ev(k.value, env)
                if not isinstance(d, dict) or not all(isinstance(x, str) for x in d):
                    raise self.unsupported("**kwargs call", n)
                kw.update(d)
                continue
            kw[k.arg] = self.ev(k.value, env)
        if isinstance(f, ClassRef):
            if f.name in self.pkg.classes:
                return self.construct(f.name, args, kw)
            if f is FLOAT or f.name == "float":
                if isinstance(args[0], str):
                    return self.parse_number(args[0], n, integer=False)
                if isinstance(args[0], bool):
                    return Poly.const(1 if args[0] else 0)
                return self.scalar(args[0], n)
            raise self.unsupported("call of class %s" % f.name, n)
        if not isinstance(f, Opaque):
            raise self.unsupported("call of %r" % (f,), n)
        k = f.kind
        if k == "bound":
            return self.call_method(f.payload[0], f.payload[1], args, kw)
        if k == "clsmeth":
            return self.call_classmethod(f.payload[0], f.payload[1], args, kw)
        if k == "arrmeth":
            return self.arr_method(f.payload[0], f.payload[1], args, kw, n)
        if k == "pymeth":
            return self.py_method(f.payload[0], f.payload[1], args, kw, n)
        if k == "pkgfunc":
            fn = self.pkg.funcs[f.payload[0]]
            return self.call_function(fn, args, kw)
        if k == "builtin":
            return self.builtin(f.payload[0], args, kw, n, env)
        if k == "npfunc":
            return self.npfunc(f.payload[0], args, kw, n)
        if k == "closure":
            fn, cenv = f.payload[0], f.payload[1]
            dvals = f.payload[2] if len(f.payload) > 2 else None
            kdvals = f.payload[3] if len(f.payload) > 3 else None
            if dvals is None:
                dvals = [self.ev(d, cenv) for d in fn.args.defaults]
            return self.call_function(fn, args, kw, base_env=cenv, defaults=dvals, kw_defaults=kdvals)
        if k == "ufunc_at":
            # np.add.at(a, idx, b): unbuffered in-place a[idx] += b
            target, idx_v, val = args
            op_ = ast.Add if f.payload[0] == "add" else ast.Sub
            if not isinstance(target, Arr):
                raise self.unsupported("ufunc.at on %r" % (target,), n)
            if isinstance(idx_v, (Arr, list)) and target.ndim == 1:
                ids = [self.intval(x, n) for x in (idx_v.data if isinstance(idx_v, Arr) else idx_v)]
                vals_ = val.flat() if isinstance(val, Arr) else [self.scalar(val, n)] * len(ids)
                if len(vals_) != len(ids):
                    raise PathRaise("ValueError(ufunc.at shapes)", self.where(n))
                for i_, x_ in zip(ids, vals_):
                    target.data[i_] = self.arith(op_, target.data[i_], x_, n)
                return None
            idx = idx_v if isinstance(idx_v, (slice, IndexSet)) else (tuple(x if isinstance(x, slice) else self.intval(x, n) for x in idx_v)
                                                                       if isinstance(idx_v, tuple) else self.intval(idx_v, n))
            cur = self.index(target, idx, n)
            new_ = self.arith(op_, cur, val, n)
            self.store(target, _Lit(idx), new_, {}, n)
            return None
        if k == "vfile":
            return f.payload[0].call(self, f.payload[1], args, n)
        if k == "logmeth":
            self.events.append(("log", f.payload[0], args))
            return None
        if k == "import":
            return self.imported_call(f.payload[0], args, kw, n)
        if k == "callable":
            return f.payload[0](*args, **kw) if kw else f.payload[0](*args)
        if k == "dtype" and f.payload and f.payload[0] in ("float64", "float_", "double") and len(args) == 1 and not kw:
            # np.float64(x): the same number as a numpy scalar (exact for anything that already is a binary64)
            v = args[0]
            if isinstance(v, str):
                return self.parse_number(v, n, integer=False)
            if isinstance(v, (Poly, Wrapped)):
                return v
            if isinstance(v, Arr):
                return v.copy()
        raise self.unsupported("call of %r" % (f,), n)

    def imported_call(self, origin, args, kw, n):
        leaf = origin.rsplit(".", 1)[-1]
        if leaf in self.overrides:
            return self.overrides[leaf](*args, **kw)
        if "spsolve" in self.overrides and origin.split(".")[0] in ("scipy", "numpy") and "linalg" in origin:
            # the family of *exact* linear solves: whichever is used, it is "the solve" of the harness
            solver = self.overrides["spsolve"]
            if leaf == "solve" and len(args) >= 2:
                return solver(args[0], args[1])
            if leaf == "factorized" and len(args) == 1:
                return Opaque("callable", lambda rhs, H_=args[0]: solver(H_, rhs))
            if leaf == "splu" and len(args) >= 1:
                return Opaque("lu", args[0])
            if leaf in ("lstsq", "pinv", "pinvh", "lsqr", "lsmr", "cg", "cgs", "gmres", "lgmres", "bicg", "bicgstab", "minres", "qmr", "spilu"):
                raise LossyOperation("%s in place of the exact linear solve (least-squares / iterative / incomplete solvers return an "
                                     "approximation, and something even for a singular system)" % origin, self.where(n))
        if leaf not in ("closing", "islice"):
            args = [a.drain() if isinstance(a, LazyIter) else a for a in args]
        if origin.startswith("logging") and leaf == "getLogger":
            return Opaque("logger")
        if origin.startswith("warnings"):
            if leaf == "catch_warnings":
                return Opaque("warnctx")
            def catname(cat, default):
                if isinstance(cat, ClassRef):
                    return cat.name
                if isinstance(cat, Opaque) and cat.payload and isinstance(cat.payload[0], str):
                    return cat.payload[0].split(".")[-1]
                return default
            if leaf in ("simplefilter", "filterwarnings") and args and isinstance(args[0], str):
                cat = kw.get("category", args[1] if leaf == "simplefilter" and len(args) > 1 else (args[2] if leaf == "filterwarnings" and len(args) > 2 else None))
                self.warn_filters.insert(0, (args[0], catname(cat, "Warning")))
                return None
            if leaf == "resetwarnings":
                del self.warn_filters[:]
                return None
            if leaf == "warn":
                cat = kw.get("category", args[1] if len(args) > 1 else None)
                self.emit_warning(catname(cat, "UserWarning"), n)
                return None
            return None
        if origin in ("io.StringIO", "StringIO.StringIO"):
            init_ = args[0] if args else ""
            if not isinstance(init_, str):
                raise self.unsupported("StringIO of a non-string", n)
            return VFile("<StringIO>", [init_] if init_ else [])
        if origin == "itertools.chain.from_iterable" and len(args) == 1:
            return LazyIter([x for s_ in self.iterate(args[0], n) for x in self.iterate(s_, n)])
        if origin.startswith("itertools"):
            import itertools as _it
            seqs = [self.iterate(a, n) for a in args] if leaf in ("chain", "product") else []
            if leaf == "chain":
                return [x for s_ in seqs for x in s_]
            if leaf == "product":
                rep = self.intval(kw["repeat"], n) if "repeat" in kw else 1
                return [tuple(c) for c in _it.product(*seqs, repeat=rep)]
            if leaf in ("combinations", "combinations_with_replacement", "permutations"):
                r_ = self.intval(args[1], n) if len(args) > 1 else None
                f_ = getattr(_it, leaf)
                return [tuple(c) for c in (f_(self.iterate(args[0], n), r_) if r_ is not None else f_(self.iterate(args[0], n)))]
            if leaf == "accumulate":
                items = self.iterate(args[0], n)
                out_ = []
                acc_ = kw.get("initial")
                if acc_ is not None:
                    out_.append(acc_)
                for x in items:
                    acc_ = x if acc_ is None else self.arith(ast.Add, acc_, x, n)
                    out_.append(acc_)
                return out_
            if leaf == "islice":
                iv = [None if a is None else self.intval(a, n) for a in args[1:]]
                src_ = args[0]
                if isinstance(src_, LazyIter):
                    # an iterator is consumed only as far as the slice needs: what follows stays available to the next consumer
                    def pulls():
                        while True:
                            try:
                                yield src_.next()
                            except StopIteration:
                                return
                    return LazyIter(list(_it.islice(pulls(), *iv)))
                return list(_it.islice(self.iterate(src_, n), *iv))
        if origin.startswith("operator") and leaf == "methodcaller":
            mname, margs = args[0], list(args[1:])
            return Opaque("callable", (lambda obj, mname=mname, margs=margs: self.call_method(obj, mname, margs) if isinstance(obj, (Pose, Obj))
                                       else self.arr_method(obj, mname, margs, {}, n)))
        if origin.startswith("operator") and leaf in ("itemgetter", "attrgetter"):
            keys = list(args)
            if leaf == "itemgetter":
                return Opaque("callable", (lambda x, keys=keys: self.index(x, self.intval(keys[0], n), n) if len(keys) == 1 else
                                           tuple(self.index(x, self.intval(k, n), n) for k in keys)))
        if origin.startswith("operator") and leaf == "attrgetter":
            names = list(args)
            if not all(isinstance(x, str) for x in names):
                raise self.unsupported("attrgetter with non-literal names", n)

            def get1(obj, nm):
                for part in nm.split("."):
                    obj = self.ev_Attribute(ast.Attribute(value=_Lit(obj), attr=part, ctx=ast.Load(), lineno=getattr(n, "lineno", 0)), {})
                return obj
            return Opaque("callable", (lambda obj, names=names: get1(obj, names[0]) if len(names) == 1 else tuple(get1(obj, x) for x in names)))
        if origin.startswith("operator") and leaf in OPERATOR_BINARY and len(args) == 2:
            kind, node_cls = OPERATOR_BINARY[leaf]
            if kind == "arith":
                if node_cls is ast.MatMult:
                    return self.dot(args[0], args[1], n)
                return self.ev_BinOp(ast.BinOp(left=_Lit(args[0]), op=node_cls(), right=_Lit(args[1]), lineno=getattr(n, "lineno", 0)), {})
            return self.cmp(n, args[0], node_cls(), args[1])
        if origin.startswith("operator") and leaf in ("neg", "pos", "not_", "truth", "abs", "index") and len(args) == 1:
            if leaf == "neg":
                return self.neg(args[0], n)
            if leaf == "pos":
                return args[0]
            if leaf == "not_":
                return not self.truth(args[0], n)
            if leaf == "truth":
                return self.truth(args[0], n)
            if leaf == "abs":
                return self.absval(args[0], n)
            return args[0]
        if origin.startswith("operator") and leaf == "getitem" and len(args) == 2:
            return self.ev_Subscript(ast.Subscript(value=_Lit(args[0]), slice=_Lit(args[1]), ctx=ast.Load(), lineno=getattr(n, "lineno", 0)), {})
        if origin.startswith("operator") and leaf == "contains" and len(args) == 2:
            return self.cmp(n, args[1], ast.In(), args[0])
        if origin.startswith("enum") and leaf == "auto":
            return EnumAuto()
        if origin.startswith("itertools") and leaf == "filterfalse":
            return LazyIter([x for x in self.iterate(args[1], n) if not (self.truth(self.call_value(args[0], [x], n), n) if args[0] is not None else self.truth(x, n))])
        if origin.startswith("itertools") and leaf in ("takewhile", "dropwhile"):
            xs = self.iterate(args[1], n)
            k_ = 0
            while k_ < len(xs) and self.truth(self.call_value(args[0], [xs[k_]], n), n):
                k_ += 1
            return LazyIter(xs[:k_] if leaf == "takewhile" else xs[k_:])
        if origin.startswith("itertools") and leaf == "starmap":
            return LazyIter([self.call_value(args[0], list(self.iterate(xs, n)), n) for xs in self.iterate(args[1], n)])
        if origin.startswith("itertools") and leaf == "repeat":
            if len(args) < 2:
                raise self.unsupported("infinite itertools.repeat", n)
            return LazyIter([args[0]] * self.intval(args[1], n))
        if origin.startswith("itertools") and leaf == "zip_longest":
            seqs = [self.iterate(a, n) for a in args]
            m_ = max((len(x) for x in seqs), default=0)
            fill = kw.get("fillvalue")
            return LazyIter([tuple(x[i] if i < len(x) else fill for x in seqs) for i in range(m_)])
        if origin.startswith("itertools") and leaf == "pairwise":
            xs = self.iterate(args[0], n)
            return LazyIter(list(zip(xs, xs[1:])))
        if origin.startswith("dataclasses") and leaf == "field":
            return FieldSpec(kw.get("default", _NO_DEFAULT), kw.get("default_factory"))
        if origin.startswith("dataclasses") and leaf in ("astuple", "asdict", "replace", "fields"):
            raise self.unsupported("dataclasses.%s" % leaf, n)
        if origin.startswith("functools") and leaf == "wraps":
            return Opaque("callable", (lambda f_: f_))
        if origin.startswith("functools") and leaf in ("lru_cache", "cache"):
            if len(args) == 1 and isinstance(args[0], Opaque) and not kw:
                return args[0]
            return Opaque("callable", (lambda f_: f_))
        if origin.startswith("contextlib") and leaf == "closing":
            return args[0]
        if origin.startswith("functools") and leaf == "partial":
            f0, a0, k0 = args[0], list(args[1:]), dict(kw)
            return Opaque("callable", (lambda *a, f0=f0, a0=a0, k0=k0, **k: self.ev_Call(
                ast.Call(func=_Lit(f0), args=[_Lit(x) for x in a0 + list(a)],
                         keywords=[ast.keyword(arg=kk, value=_Lit(vv)) for kk, vv in {**k0, **k}.items()], lineno=getattr(n, "lineno", 0)), {})))
        if origin == "re" or origin.startswith("re."):
            return self.re_call(leaf, None, args, kw, n)
        if leaf == "defaultdict":
            d = DDict()
            fac = args[0] if args else None
            if fac is not None:
                d.default_factory = (lambda fac=fac: self.call_value(fac, [], n))
            return d
        if leaf == "reduce":
            fn, seq = args[0], self.iterate(args[1], n)
            if len(args) > 2:
                acc = args[2]
            else:
                acc, seq = seq[0], seq[1:]
            for x in seq:
                acc = self.call_value(fn, [acc, x], n)
            return acc
        if leaf in ("coo_matrix", "csr_matrix", "csc_matrix") and args and isinstance(args[0], tuple) and len(args[0]) == 2 and \
                isinstance(args[0][1], (tuple, list)) and len(args[0][1]) == 2:
            data_, (rows_, cols_) = args[0]
            if isinstance(data_, MaskedArr) or isinstance(rows_, MaskedArr) or isinstance(cols_, MaskedArr):
                trio = (data_, rows_, cols_)
                if not all(isinstance(x, MaskedArr) for x in trio) or not (rows_.mask is data_.mask and cols_.mask is data_.mask) or \
                        data_.mask.source is not data_.base:
                    raise self.unsupported("sparse matrix from triplets selected by a value-dependent mask", n)
                # the triplets dropped by `values != 0` are exact zeros: the matrix is the one built from all entries that may be non-zero
                keep = [f_ is not False for f_ in data_.mask.flat]
                data_ = Arr([x for x, k_ in zip(data_.base.data, keep) if k_], 1)
                rows_ = Arr([x for x, k_ in zip(rows_.base.data, keep) if k_], 1)
                cols_ = Arr([x for x, k_ in zip(cols_.base.data, keep) if k_], 1)
            shp_ = kw.get("shape", args[1] if len(args) > 1 else None)
            if shp_ is None:
                raise self.unsupported("sparse matrix from triplets without shape", n)
            r_, c_ = self.intval(shp_[0], n), self.intval(shp_[1], n)
            a_ = Arr([[Poly() for _ in range(c_)] for _ in range(r_)], 2)
            dv = self.to_arr(data_, n).flat() if not isinstance(data_, Arr) else data_.flat()
            rv = [self.intval(x, n) for x in (rows_.flat() if isinstance(rows_, Arr) else rows_)]
            cv = [self.intval(x, n) for x in (cols_.flat() if isinstance(cols_, Arr) else cols_)]
            for i_, j_, x_ in zip(rv, cv, dv):
                a_.data[i_][j_] = a_.data[i_][j_] + x_      # duplicate entries are summed on conversion
            a_.sparse = True
            return a_
        if leaf in ("lil_matrix", "csr_matrix", "csc_matrix", "dok_matrix", "coo_matrix"):
            self.check_dtype(kw, n)
            shp = args[0]
            if isinstance(shp, tuple) and len(shp) == 2:
                r, c = self.intval(shp[0], n), self.intval(shp[1], n)
                a = Arr([[Poly() for _ in range(c)] for _ in range(r)], 2)
                a.sparse = True
                return a
            if isinstance(shp, Arr):
                return shp.copy()
            raise self.unsupported("sparse matrix constructor argument", n)
        if origin.startswith("scipy.sparse") and leaf in ("diags", "spdiags") and len(args) == 1 and isinstance(args[0], (Arr, list, tuple)):
            dv_ = self.to_arr(args[0], n)
            if dv_.ndim == 1:
                k_ = len(dv_.data)
                a_ = Arr([[dv_.data[i] if i == j else Poly() for j in range(k_)] for i in range(k_)], 2)
                a_.sparse = True
                return a_
        if origin.startswith("scipy.sparse") and leaf in ("eye", "identity") and args:
            k_ = self.intval(args[0], n)
            a_ = Arr([[Poly.const(1 if i == j else 0) for j in range(k_)] for i in range(k_)], 2)
            a_.sparse = True
            return a_
        if origin in ("scipy.linalg.block_diag", "scipy.sparse.block_diag") and args:
            blocks = list(self.iterate(args[0], n)) if origin.startswith("scipy.sparse") else list(args)
            mats = []
            for b_ in blocks:
                if isinstance(b_, (Poly, Wrapped)):
                    mats.append(Arr([[self.scalar(b_, n)]], 2))
                else:
                    a_ = self.to_arr(b_, n)
                    mats.append(a_ if a_.ndim == 2 else Arr([list(a_.data)], 2))
            R_, C_ = sum(m_.shape[0] for m_ in mats), sum(m_.shape[1] for m_ in mats)
            out_ = [[Poly() for _ in range(C_)] for _ in range(R_)]
            r0 = c0 = 0
            for m_ in mats:
                for i in range(m_.shape[0]):
                    for j in range(m_.shape[1]):
                        out_[r0 + i][c0 + j] = m_.data[i][j]
                r0 += m_.shape[0]
                c0 += m_.shape[1]
            res_ = Arr(out_, 2)
            if origin.startswith("scipy.sparse"):
                res_.sparse = True
            return res_
        if origin in ("collections.namedtuple",) and len(args) >= 2 and isinstance(args[0], str):
            # the functional form of a record type: instances are tuples with named fields
            names = args[1].replace(",", " ").split() if isinstance(args[1], str) else [x for x in self.iterate(args[1], n)]
            if not all(isinstance(x, str) for x in names):
                raise self.unsupported("namedtuple with computed field names", n)
            defaults = list(self.iterate(kw["defaults"], n)) if kw.get("defaults") is not None else []
            tname = args[0]

            def ctor(*a_, **k_):
                if len(a_) > len(names) or any(x not in names for x in k_):
                    raise PathRaise("TypeError(%s() got unexpected arguments)" % tname, self.where(n))
                vals = dict(zip(names, a_))
                for x, y in k_.items():
                    if x in vals:
                        raise PathRaise("TypeError(%s() got multiple values for %s)" % (tname, x), self.where(n))
                    vals[x] = y
                for x, y in zip(names[len(names) - len(defaults):], defaults):
                    vals.setdefault(x, y)
                missing = [x for x in names if x not in vals]
                if missing:
                    raise PathRaise("TypeError(%s() missing %s)" % (tname, missing), self.where(n))
                o = Obj(tname)
                for x in names:
                    o.fields[x] = vals[x]
                o.tuple_fields = list(names)
                return o
            return Opaque("callable", ctor)
        if origin.startswith("cmath."):
            z = args[0] if args else None
            if leaf == "phase" and isinstance(z, (Cx, Poly)):
                z = z if isinstance(z, Cx) else Cx(z, Poly())
                return self.atan2(z.im, z.re, n)
            if leaf == "exp" and isinstance(z, Cx) and z.re.is_zero():
                c_, s_ = self.cos_sin(z.im, n)
                return Cx(c_, s_)
            if leaf == "rect" and len(args) == 2:
                c_, s_ = self.cos_sin(args[1], n)
                r_ = self.scalar(args[0], n)
                return Cx(r_ * c_, r_ * s_)
            raise self.unsupported("cmath.%s" % leaf, n)
        if origin in ("types.SimpleNamespace", "argparse.Namespace") and not args:
            ns = Obj("<namespace>")
            ns.fields.update(kw)
            return ns
        if origin == "operator.index" and len(args) == 1:
            v = args[0]
            if isinstance(v, Poly) and (v.const_value() is None or int(v.const_value()) == v.const_value()):
                return v
            raise PathRaise("TypeError(object cannot be interpreted as an integer)", self.where(n))
        if leaf == "deepcopy" or leaf == "copy":
            v = args[0]
            if isinstance(v, Pose):
                return Pose(v.cls, list(v.data))
            if isinstance(v, Arr):
                return v.copy()
        raise self.unsupported("call of imported %s" % origin, n)

    def call_value(self, f, args, n, kw=None):
        if kw:
            return self.ev_Call(ast.Call(func=_Lit(f), args=[_Lit(a) for a in args],
                                         keywords=[ast.keyword(arg=k_, value=_Lit(v_)) for k_, v_ in kw.items()],
                                         lineno=getattr(n, "lineno", 0)), {})
        if isinstance(f, ClassRef) and f.name in ("float", "int", "str"):
            return self.builtin(f.name, list(args), {}, n, {})
        if isinstance(f, ClassRef):
            return self.construct(f.name, args)
        if isinstance(f, Opaque):
            if f.kind == "builtin":
                return self.builtin(f.payload[0], list(args), {}, n, {})
            if f.kind == "npfunc":
                return self.npfunc(f.payload[0], list(args), {}, n)
            if f.kind == "closure":
                return self.ev_Call(ast.Call(func=_Lit(f), args=[_Lit(a) for a in args], keywords=[], lineno=getattr(n, "lineno", 0)), {})
            if f.kind == "bound":
                return self.call_method(f.payload[0], f.payload[1], args)
            if f.kind == "clsmeth":
                return self.call_classmethod(f.payload[0], f.payload[1], args)
            if f.kind == "pkgfunc":
                return self.call_function(self.pkg.funcs[f.payload[0]], args)
            if f.kind == "callable":
                return f.payload[0](*args)
            if f.kind == "import":
                return self.imported_call(f.payload[0], list(args), {}, n)
            if f.kind == "pymeth":
                return self.py_method(f.payload[0], f.payload[1], list(args), {}, n)
            if f.kind == "arrmeth":
                return self.arr_method(f.payload[0], f.payload[1], list(args), {}, n)
        if callable(f):
            return f(*args)
        raise self.unsupported("call of value %r" % (f,), n)

    def arr_method(self, v, name, args, kw, n):
        if name == "view":
            c = args[0]
            if isinstance(c, ClassRef) and c.name in self.pkg.classes:
                if v.ndim != 1:
                    raise self.unsupported("view of 2-D array as pose", n)
                if getattr(v, "foreign_dtype", False):
                    raise LossyOperation("a pose that views an array whose dtype is the caller's: every later operation on it computes in "
                                         "that dtype (integer wrap-around / truncation, float32 rounding)", self.where(n))
                return Pose(c.name, v.data)     # a view: the pose shares its storage with the array it was made from
            if isinstance(c, ClassRef) and c.name == "ndarray":
                return Arr(v.data, v.ndim)      # a plain-ndarray view shares the data
            raise self.unsupported("view(%r)" % (c,), n)
        if name == "copy":
            if isinstance(v, Pose):
                return Pose(v.cls, list(v.data))
            c_ = v.copy()
            if getattr(v, "foreign_dtype", False):
                c_.foreign_dtype = True        # a copy has the dtype of the original
            return c_
        if name == "dot":
            return self.dot(v, args[0], n)
        if name == "transpose":
            return v.T()
        if name in ("flatten", "ravel"):
            return Arr(v.flat(), 1)
        if name == "tolist":
            return [list(r) for r in v.data] if v.ndim == 2 else list(v.data)
        if name == "astype":
            d = args[0] if args else kw.get("dtype")
            if isinstance(d, Opaque) and d.kind == "dtype" or d is FLOAT:
                return v.copy()
            raise LossyOperation("astype to a non-float64 dtype", self.where(n))
        if name == "reshape":
            shp = args[0] if len(args) == 1 and isinstance(args[0], tuple) else tuple(args)
            dims = [self.intval(x, n) for x in shp]
            flat = v.flat()
            if len(dims) == 1 and dims[0] in (-1, len(flat)):
                return Arr(flat, 1)
            if len(dims) == 2:
                r, c = dims
                if r == -1:
                    r = len(flat) // c
                if c == -1:
                    c = len(flat) // r
                if r * c == len(flat):
                    return Arr([flat[i * c:(i + 1) * c] for i in range(r)], 2)
            raise self.unsupported("reshape", n)
        if name == "sum":
            r_ = sum(v.flat(), Poly())
            if all(self.is_nonneg_by_construction(x) for x in v.flat()):
                self.nonneg_keys.add(r_.key())
            return r_
        if name == "round":
            raise LossyOperation("ndarray.round", self.where(n))
        if name in ("tocsr", "tocsc", "tolil", "todense", "toarray", "tocoo", "squeeze", "conj", "conjugate", "__array__"):
            return v
        if name in ("tobytes", "tostring"):
            return BytesVal(v.flat())
        if name in ("setflags", "eliminate_zeros", "sum_duplicates"):
            return None
        if name == "all":
            return all(self.truth(x, n) for x in v.flat())
        if name == "item":
            fl = v.flat()
            if len(fl) == 1 and not args:
                return fl[0]
            if args:
                return fl[self.intval(args[0], n)]
            raise PathRaise("ValueError(item)", self.where(n))
        if name == "diagonal" and v.ndim == 2:
            return Arr([v.data[i][i] for i in range(min(v.shape))], 1)
        if name == "setdiag" and v.ndim == 2:
            vals_ = args[0]
            k_ = min(v.shape)
            vals_ = self.to_arr(vals_, n).flat() if isinstance(vals_, (Arr, list, tuple)) else [self.scalar(vals_, n)] * k_
            if len(vals_) < k_:
                raise self.unsupported("setdiag with a short value array", n)
            for i in range(k_):
                v.data[i][i] = vals_[i]
            self.after_write(v)
            return None
        if name == "trace" and v.ndim == 2:
            return sum((v.data[i][i] for i in range(min(v.shape))), Poly())
        if name in ("max", "min"):
            ax = kw.get("axis", args[0] if args else None)
            if ax is not None and v.ndim == 2:
                ax = self.intval(ax, n)
                groups = [list(c) for c in zip(*v.data)] if ax in (0, -2) else [list(r) for r in v.data]
                return Arr([self.builtin(name, [g], {}, n, {}) for g in groups], 1)
            return self.builtin(name, [v.flat()], {}, n, {})
        if name == "fill":
            x = self.scalar(args[0], n)
            if v.ndim == 2:
                for r in v.data:
                    r[:] = [x] * len(r)
            else:
                v.data[:] = [x] * len(v.data)
            self.after_write(v)
            return None
        if name == "any":
            return self.any_nonzero(list(v.flat()), n)
        raise self.unsupported("ndarray method %s" % name, n)

    def py_method(self, v, name, args, kw, n):
        args = [a.drain() if isinstance(a, LazyIter) else a for a in args]
        if isinstance(v, (list, tuple)) and name in ("index", "count"):
            hits = [i for i, x in enumerate(v) if self.equal(x, args[0], n)]
            if name == "count":
                return Poly.const(len(hits))
            if not hits:
                raise PathRaise("ValueError(not in list)", self.where(n))
            return Poly.const(hits[0])
        if isinstance(v, list):
            if name == "pop":
                try:
                    return v.pop(self.intval(args[0], n)) if args else v.pop()
                except IndexError:
                    raise PathRaise("IndexError", self.where(n))
            if name == "insert":
                v.insert(self.intval(args[0], n), args[1])
                return None
            if name == "reverse":
                v.reverse()
                return None
            if name == "sort":
                v[:] = self.sort_values(list(v), kw.get("key"), kw.get("reverse", False), n)
                return None
            if name == "clear":
                del v[:]
                return None
            if name == "append":
                v.append(args[0])
                return None
            if name == "extend":
                v.extend(self.iterate(args[0], n))
                return None
            if name == "copy":
                return list(v)
        if isinstance(v, (set, frozenset)):
            if name == "add" and isinstance(v, set):
                v.add(self.hashable(args[0], n))
                return None
            if name == "discard" and isinstance(v, set):
                v.discard(self.hashable(args[0], n))
                return None
            if name == "update" and isinstance(v, set):
                for x in self.elements(args[0], n):
                    v.add(self.hashable(x, n))
                return None
            if name == "isdisjoint":
                return not any(self.hashable(x, n) in v for x in self.elements(args[0], n))
            if name == "issubset":
                other = set(self.hashable(x, n) for x in self.elements(args[0], n))
                return set(v) <= other
            if name == "intersection":
                other = set(self.hashable(x, n) for x in self.elements(args[0], n))
                return set(v) & other
            if name in ("union", "copy"):
                r = set(v)
                for a_ in args:
                    for x in self.elements(a_, n):
                        r.add(self.hashable(x, n))
                return r
        if isinstance(v, dict):
            if name == "items":
                return [(self.unhash(k), x) for k, x in v.items()]
            if name == "values":
                return list(v.values())
            if name == "keys":
                return [self.unhash(k) for k in v.keys()]
            if name == "get":
                return v.get(self.hashable(args[0], n), args[1] if len(args) > 1 else None)
            if name == "setdefault":
                return v.setdefault(self.hashable(args[0], n), args[1] if len(args) > 1 else None)
            if name == "pop":
                k_ = self.hashable(args[0], n)
                if k_ in v:
                    return v.pop(k_)
                if len(args) > 1:
                    return args[1]
                raise PathRaise("KeyError", self.where(n))
            if name == "update":
                other = args[0] if args else {}
                if isinstance(other, dict):
                    v.update(other)
                else:
                    for pair in self.iterate(other, n):
                        k2, v2 = self.iterate(pair, n)
                        v[self.hashable(k2, n)] = v2
                for k2, v2 in kw.items():
                    v[k2] = v2
                return None
            if name == "copy":
                return dict(v)
        if isinstance(v, str):
            if name == "format":
                return self.str_format(v, args, kw, n)
            if name == "join":
                items = self.iterate(args[0], n)
                if not all(isinstance(x, str) for x in items):
                    raise PathRaise("TypeError(join of non-strings)", self.where(n))
                return v.join(items)
            if name in ("startswith", "endswith", "split", "rsplit", "strip", "rstrip", "lstrip", "lower", "upper", "replace",
                        "splitlines", "partition", "find", "count", "isspace", "index"):
                if all(isinstance(a, (str, type(None))) or (isinstance(a, Poly) and a.const_value() is not None) for a in args):
                    pa = [int(a.const_value()) if isinstance(a, Poly) else a for a in args]
                    if "\x01" in v and pa and isinstance(pa[0], str) and pa[0]:
                        # the text contains numbers in unknown spellings: an operation whose outcome depends on the characters *inside* a
                        # number (a digit, a sign, a dot, an exponent letter) has no spelling-independent result
                        numchars = set("0123456789+-.eE_")
                        if name in ("strip", "lstrip", "rstrip"):
                            r0 = getattr(v, name)(*pa)
                            eats = set(pa[0]) & numchars
                            if eats and ((name != "rstrip" and r0.startswith("\x01")) or (name != "lstrip" and r0.endswith("\x02"))):
                                raise LossyOperation("str.%s(%r) next to a number: the character set contains %s, which can be the first / last "
                                                     "characters of the number itself" % (name, pa[0], sorted(eats)), self.where(n))
                        elif name in ("split", "rsplit", "replace", "partition", "find", "count", "index") and set(pa[0]) <= numchars:
                            raise LossyOperation("str.%s(%r) on text that contains numbers: the argument can occur inside a number" % (name, pa[0]),
                                                 self.where(n))
                        elif name == "startswith" and v.startswith("\x01") and set(pa[0]) <= numchars or \
                                name == "endswith" and v.endswith("\x02") and set(pa[0]) <= numchars:
                            raise LossyOperation("str.%s(%r) tests the spelling of a number" % (name, pa[0]), self.where(n))
                    try:
                        r = getattr(v, name)(*pa)
                    except ValueError:
                        raise PathRaise("ValueError(str.%s)" % name, self.where(n))
                    if isinstance(r, bool):
                        return r
                    if isinstance(r, int):
                        return Poly.const(r)
                    if isinstance(r, tuple):
                        return tuple(r)
                    return r
        raise self.unsupported("method %s of %s" % (name, type(v).__name__), n)

    # ------------------------------------------------------------------------------------ regular expressions
    def re_flags(self, v, n):
        import re as _re
        if v is None:
            return 0
        if isinstance(v, Poly) and v.const_value() is not None:
            return int(v.const_value())
        if isinstance(v, Opaque) and v.kind == "import" and v.payload[0].startswith("re."):
            return int(getattr(_re, v.payload[0].split(".", 1)[1]))
        raise self.unsupported("regular-expression flags %r" % (v,), n)

    def re_call(self, name, rx, args, kw, n):
        """re.<name>(pattern, ...) when rx is None, else <compiled>.<name>(...)."""
        import re as _re
        args = list(args)
        if name == "escape" and rx is None:
            if not isinstance(args[0], str) or "\x01" in args[0]:
                raise self.unsupported("re.escape of a non-literal", n)
            return _re.escape(args[0])
        if rx is None:
            pat = args.pop(0)
            if isinstance(pat, _regex.Regex):
                rx = pat
            elif isinstance(pat, str) and "\x01" not in pat:
                flags = kw.pop("flags", None)
                if name == "compile" and args:
                    flags = args.pop(0)
                elif name in ("match", "fullmatch", "search", "findall", "finditer") and len(args) > 1:
                    flags = args.pop(1)
                try:
                    rx = _regex.Regex(pat, self.re_flags(flags, n))
                except _re.error as e:
                    raise PathRaise("re.error(%s)" % e, self.where(n))
            else:
                raise self.unsupported("regular expression built from data", n)
            if name == "compile":
                return rx
        is_int = lambda tok: tok in self.ph_val and self.ph_val[tok].key() in self.int_tokens
        try:
            pos_ = kw.get("pos", args[1] if (len(args) > 1 and name in ("match", "fullmatch", "search", "findall", "finditer")) else None)
            pos_ = self.intval(pos_, n) if pos_ is not None else 0
            if name in ("match", "fullmatch", "search"):
                s_ = args[0]
                if not isinstance(s_, str):
                    raise PathRaise("TypeError(expected string)", self.where(n))
                return _regex.match(rx, s_, is_int, name, pos_)
            if name in ("findall", "finditer"):
                ms = _regex.finditer(rx, args[0], is_int, pos_)
                if name == "finditer":
                    return ms
                if rx.rx.groups == 0:
                    return [m.whole for m in ms]
                if rx.rx.groups == 1:
                    return [m.groups_[0] if m.groups_[0] is not None else "" for m in ms]
                return [tuple(g if g is not None else "" for g in m.groups_) for m in ms]
            if name == "split":
                ms = kw.get("maxsplit", args[1] if len(args) > 1 else None)
                return _regex.split(rx, args[0], is_int, self.intval(ms, n) if ms is not None else 0)
            if name == "sub":
                if not isinstance(args[0], str):
                    raise self.unsupported("re.sub with a function", n)
                cnt = kw.get("count", args[2] if len(args) > 2 else None)
                return _regex.sub(rx, args[0], args[1], is_int, self.intval(cnt, n) if cnt is not None else 0)
        except _regex.SpellingDependent as e:
            raise LossyOperation("regular expression does not treat every spelling of a number alike: %s" % e, self.where(n))
        raise self.unsupported("re.%s" % name, n)

    def match_method(self, m, name, args, kw, n):
        try:
            if name == "groups":
                d = args[0] if args else kw.get("default")
                return tuple(g if g is not None else d for g in m.groups_)
            if name == "group":
                return m.group(*[a if isinstance(a, str) else self.intval(a, n) for a in args])
            if name in ("start", "end", "span"):
                i = (args[0] if isinstance(args[0], str) else self.intval(args[0], n)) if args else 0
                a_, b_ = m.span(i)
                return Poly.const(a_) if name == "start" else (Poly.const(b_) if name == "end" else (Poly.const(a_), Poly.const(b_)))
            if name == "groupdict":
                d = args[0] if args else kw.get("default")
                return {k: (m.groups_[i - 1] if m.groups_[i - 1] is not None else d) for k, i in m.names.items()}
        except IndexError:
            raise PathRaise("IndexError(no such group)", self.where(n))
        raise self.unsupported("match-object method %s" % name, n)

    # ------------------------------------------------------------------------------------ strings (the .g2o text layer)
    def placeholder(self, p):
        """A whitespace-free token that stands for the (lossless) decimal rendering of the number p."""
        key = p.key()
        if key not in self.ph_of:
            tok = "\x01%d\x02" % len(self.ph_of)
            self.ph_of[key] = tok
            self.ph_val[tok] = p
        return self.ph_of[key]

    def render(self, v, n):
        if isinstance(v, str):
            return v
        if isinstance(v, bool) or v is None:
            return str(v)
        if isinstance(v, Wrapped):
            v = self.unwrap(v, n)
        if isinstance(v, Poly):
            return self.placeholder(v)
        raise self.unsupported("str() of %r" % (v,), n)

    def str_format(self, fmt, args, kw, n):
        import string
        out = []
        auto = 0
        for lit, field, spec, conv in string.Formatter().parse(fmt):
            out.append(lit)
            if field is None:
                continue
            if field == "":
                if auto >= len(args):
                    raise PathRaise("IndexError(format)", self.where(n))
                val = args[auto]
                auto += 1
            elif field.isdigit():
                if int(field) >= len(args):
                    raise PathRaise("IndexError(format)", self.where(n))
                val = args[int(field)]
            elif field in kw:
                val = kw[field]
            else:
                raise self.unsupported("format field %r" % field, n)
            if self.lossy_ok and not isinstance(val, (str, Poly, Wrapped, bool, type(None))):
                out.append("<display>")
                continue
            if isinstance(val, (Poly, Wrapped)):
                ok_spec = spec in ("", "r", "s") or spec in (".17g", ".17e", ".16e", "r")
                if (not ok_spec or conv not in (None, "r", "s")) and self.lossy_ok:
                    out.append("<display>")
                    continue
                if not ok_spec or conv not in (None, "r", "s"):
                    raise LossyOperation("number formatted with format spec %r (not the shortest round-trip repr)" % (":" + spec if spec else "!" + str(conv)), self.where(n))
            out.append(self.render(val, n))
        return "".join(out)

    def parse_number(self, tok, n, integer):
        t = tok.strip()
        if t in self.ph_val:
            v = self.ph_val[t]
            if not integer and v.key() in self.int_tokens:
                self.events.append(("integer-through-float", self.where(n)))
            return v
        if "\x01" in tok:
            raise PathRaise("ValueError(could not convert %r)" % tok, self.where(n))
        try:
            v = int(t) if integer else float(t)
        except ValueError:
            raise PathRaise("ValueError(could not convert string %r to %s)" % (tok[:20], "int" if integer else "float"), self.where(n))
        return Poly.const(v)

    def unhash(self, k):
        if isinstance(k, ObjKey):
            return k.obj
        if isinstance(k, tuple) and len(k) == 2 and k[0] == "num":
            return Poly.const(k[1])
        if isinstance(k, tuple) and len(k) == 2 and k[0] == "poly":
            return Poly(dict(k[1]))
        if isinstance(k, tuple) and len(k) == 3 and k[0] == "enum":
            return self.enum_member(k[1], k[2])
        if isinstance(k, tuple):
            return tuple(self.unhash(x) for x in k)
        return k

    def type_of(self, v, n):
        if isinstance(v, Pose):
            return ClassRef(v.cls)
        if isinstance(v, Obj):
            return ClassRef(v.cls)
        if isinstance(v, Arr):
            return NDARRAY
        if isinstance(v, bool):
            return BOOL
        if isinstance(v, Poly):
            return INT if self.is_int_obj(v) else FLOAT
        if v is None:
            return NONETYPE
        if isinstance(v, list):
            return LIST
        if isinstance(v, tuple):
            return TUPLE
        if isinstance(v, str):
            return STR
        raise self.unsupported("type() of %r" % (v,), n)

    def isinstance_(self, v, c, n):
        if isinstance(c, (tuple, list)):
            return any(self.isinstance_(v, x, n) for x in c)
        if isinstance(c, Opaque) and c.kind == "import" and c.payload and isinstance(c.payload[0], str) and c.payload[0].startswith("numbers."):
            # the abstract numeric tower: python and numpy real scalars are Real (ints are also Integral / Rational); bool is an int
            leaf_ = c.payload[0].split(".")[-1]
            if isinstance(v, Wrapped):
                v = self.unwrap(v, n)
            if isinstance(v, Cx):
                return leaf_ in ("Number", "Complex")
            if isinstance(v, bool):
                return leaf_ in ("Number", "Complex", "Real", "Rational", "Integral")
            if isinstance(v, (Poly, Quot)):
                if leaf_ in ("Number", "Complex", "Real"):
                    return True
                if leaf_ in ("Rational", "Integral"):
                    return isinstance(v, Poly) and self.is_int_obj(v)
            if leaf_ in ("Number", "Complex", "Real", "Rational", "Integral"):
                return False
        if not isinstance(c, ClassRef):
            raise self.unsupported("isinstance against %r" % (c,), n)
        t = self.type_of(v, n)
        if c.name in self.pkg.classes:
            return t.name in self.pkg.classes and c.name in self.pkg.mro(t.name)
        if c.name == "ndarray":
            return isinstance(v, Arr)
        if c.name == "float":
            return isinstance(v, Poly)
        if c.name == "int":
            return isinstance(v, Poly) and v.const_value() is not None and int(v.const_value()) == v.const_value()
        return t.name == c.name

    def builtin(self, name, args, kw, n, env):
        if name not in ("next", "iter", "any", "all", "isinstance", "type", "id", "print", "callable", "hasattr", "getattr", "setattr"):
            # a builtin that is handed an iterator consumes it (once)
            args = [a.drain() if isinstance(a, LazyIter) else a for a in args]
        if name == "isinstance":
            return self.isinstance_(args[0], args[1], n)
        if name == "issubclass":
            a, b = args
            if isinstance(a, Obj) and "__subclass_of__" in a.fields and isinstance(b, ClassRef):
                return b.name in a.fields["__subclass_of__"]
            return isinstance(a, ClassRef) and isinstance(b, ClassRef) and b.name in self.pkg.mro(a.name)
        if name == "type":
            return self.type_of(args[0], n)
        if name == "len":
            v = args[0]
            if isinstance(v, Arr):
                return Poly.const(v.shape[0])
            if isinstance(v, (list, tuple, dict, str)):
                r_ = self.as_int(Poly.const(len(v)))
                if isinstance(v, (list, tuple, dict)):
                    self.len_objs.append(r_)   # the size of a collection (see `cmp`: size thresholds are recorded)
                    self.taint[id(r_)] = ("len", r_)
                return r_
            if v is None:
                raise PathRaise("TypeError(len(None))", self.where(n))
            if isinstance(v, ClassRef) and v.name in self.pkg.classes and self.pkg.classes[v.name].enum_kind:
                return Poly.const(len(self.enum_member_names(v.name)))
            if isinstance(v, Obj):
                f_ = self.dunder(v, "__len__")
                if f_ is not None:
                    return self.call_function(f_, [v])
                if getattr(v, "tuple_fields", None):
                    return Poly.const(len(v.tuple_fields))
            if isinstance(v, (set, frozenset)):
                # structurally different symbolic numbers may still be equal: every pair is a decision
                reps, other = [], 0
                for k in sorted(v, key=repr):
                    if isinstance(k, tuple) and len(k) == 2 and k[0] in ("poly", "num"):
                        q = Poly(dict(k[1])) if k[0] == "poly" else Poly.const(k[1])
                        if any((q - r).is_zero() or not self.decide_sign(q - r, {-1, 1}, "%s != %s" % (q.short(30), r.short(30))) for r in reps):
                            continue
                        reps.append(q)
                    else:
                        other += 1
                return Poly.const(len(reps) + other)
            raise self.unsupported("len of %r" % (v,), n)
        if name == "range":
            iv = [self.intval(a, n) for a in args]
            out_ = [self.as_int(Poly.const(i)) for i in range(*iv)]
            if len(args) == 3 and id(args[1]) in self.taint and iv[2] >= 2:
                self.events.append(("size-threshold", "%s taken modulo / divided by %s at %s" % (
                    "a collection size" if self.taint[id(args[1])][0] == "len" else "an iteration counter", iv[2], self.where(n))))
            if len(args) == 1 or any(id(a) in self.taint for a in args):
                for x_ in out_:
                    self.taint[id(x_)] = ("counter", x_)      # a loop counter: behaviour keyed on it is recorded (see `cmp`)
            return out_
        if name == "zip":
            if kw.get("strict") is True and len({len(self.iterate(a, n)) for a in args}) > 1:
                raise PathRaise("ValueError(zip() arguments have different lengths)", self.where(n))
            return LazyIter([tuple(x) for x in zip(*[self.iterate(a, n) for a in args])])
        if name == "enumerate":
            start = self.intval(args[1] if len(args) > 1 else kw["start"], n) if (len(args) > 1 or "start" in kw) else 0
            return LazyIter([(self.as_int(Poly.const(i + start)), x) for i, x in enumerate(self.iterate(args[0], n))])
        if name == "reversed":
            return LazyIter(list(reversed(self.iterate(args[0], n))))
        if name in ("set", "frozenset"):
            seq = self.elements(args[0], n) if args else []
            r = set(self.hashable(x, n) for x in seq)
            return r if name == "set" else frozenset(r)
        if name == "dict":
            d = {}
            if args:
                if isinstance(args[0], dict):
                    d.update(args[0])
                else:
                    for pair in self.iterate(args[0], n):
                        k2, v2 = self.iterate(pair, n)
                        d[self.hashable(k2, n)] = v2
            for k2, v2 in kw.items():
                d[k2] = v2
            return d
        if name in ("list", "tuple"):
            seq = self.iterate(args[0], n) if args else []
            return list(seq) if name == "list" else tuple(seq)
        if name == "float":
            if isinstance(args[0], str):
                return self.parse_number(args[0], n, integer=False)
            if isinstance(args[0], bool):
                return Poly.const(1 if args[0] else 0)
            return self.scalar(args[0], n)
        if name in ("getattr", "hasattr"):
            obj, attr = args[0], args[1]
            if not isinstance(attr, str):
                raise self.unsupported("%s with a non-literal attribute name" % name, n)
            try:
                val = self.ev_Attribute(ast.Attribute(value=_Lit(obj), attr=attr, ctx=ast.Load(), lineno=getattr(n, "lineno", 0)), env)
                found = True
            except PathRaise as e:
                if "AttributeError" not in e.exc:
                    raise
                found, val = False, None
            except Unsupported:
                if isinstance(obj, (Pose, Arr)):
                    found, val = False, None
                else:
                    raise
            if name == "hasattr":
                return found
            if found:
                return val
            if len(args) > 2:
                return args[2]
            raise PathRaise("AttributeError(%s)" % attr, self.where(n))
        if name == "setattr":
            obj, attr, val = args
            if isinstance(obj, ClassRef) and obj.name in self.pkg.classes and isinstance(attr, str):
                self.class_attrs[(obj.name, attr)] = val
                return None
            if isinstance(obj, (Obj, Pose)) and isinstance(attr, str):
                self.assign(ast.Attribute(value=_Lit(obj), attr=attr, ctx=ast.Store(), lineno=getattr(n, "lineno", 0)), val, {})
                return None
            if isinstance(obj, Obj):
                obj.fields[attr] = val
            elif isinstance(obj, Arr):
                obj.__dict__.setdefault("attrs", {})[attr] = val
            else:
                raise self.unsupported("setattr on %r" % (obj,), n)
            return None
        if name == "next":
            if isinstance(args[0], LazyIter):
                try:
                    return args[0].next()
                except StopIteration:
                    if len(args) > 1:
                        return args[1]
                    raise PathRaise("StopIteration", self.where(n))
            seq = self.iterate(args[0], n)
            if seq:
                return seq[0]
            if len(args) > 1:
                return args[1]
            raise PathRaise("StopIteration", self.where(n))
        if name == "divmod":
            t_ = self.taint.get(id(args[0]))
            if t_ is not None and isinstance(args[1], Poly) and args[1].const_value() is not None and args[1].const_value() >= 2:
                self.events.append(("size-threshold", "%s taken modulo / divided by %s at %s" % (
                    "a collection size" if t_[0] == "len" else "an iteration counter", args[1].const_value(), self.where(n))))
            a_, b_ = self.scalar(args[0], n), self.scalar(args[1], n)
            if a_.const_value() is not None and b_.const_value() is not None:
                q_, r_ = divmod(Fraction(a_.const_value()), Fraction(b_.const_value()))
                return (Poly.const(q_), Poly.const(r_))
            self.floordivs = getattr(self, "floordivs", 0) + 1
            return (Poly.var("floordiv#%d" % self.floordivs), self.arith(ast.Mod, a_, b_, n))
        if name == "slice":
            iv = [None if a is None else self.intval(a, n) for a in args]
            return slice(*iv)
        if name == "iter":
            return args[0] if isinstance(args[0], LazyIter) else LazyIter(self.iterate(args[0], n))
        if name == "map":
            seqs = [self.iterate(a, n) for a in args[1:]]
            return LazyIter([self.call_value(args[0], list(xs), n) for xs in zip(*seqs)])
        if name == "filter":
            return LazyIter([x for x in self.iterate(args[1], n) if (self.truth(self.call_value(args[0], [x], n), n) if args[0] is not None else self.truth(x, n))])
        if name == "sorted":
            return self.sort_values(list(self.elements(args[0], n)), kw.get("key"), kw.get("reverse", False), n)
        if name == "id":
            return Poly.var("pyid#%d" % id(args[0]))
        if name == "complex":
            if len(args) == 1 and isinstance(args[0], Cx):
                return args[0]
            re_ = self.scalar(args[0], n) if args else Poly()
            im_ = self.scalar(args[1], n) if len(args) > 1 else Poly()
            return Cx(re_, im_)
        if name == "abs" and args and isinstance(args[0], Cx):
            return self.np_sqrt(args[0].re * args[0].re + args[0].im * args[0].im, n)
        if name == "object" and not args:
            return Obj("object")              # a sentinel: compared by identity only
        if name == "hash":
            # equal keys have equal hashes; structurally different keys are given different hashes (a collision would only cost
            # an extra __eq__ call in a real dict, it cannot change which keys are equal)
            k_ = self.hashable(args[0], n)
            return HashVal(k_.hv if isinstance(k_, ObjKey) else k_)
        if name == "abs":
            return self.absval(args[0], n)
        if name == "bool":
            return self.truth(args[0], n)
        if name == "open":
            path = args[0]
            mode = args[1] if len(args) > 1 else kw.get("mode", "r")
            if not isinstance(path, str) or self.vfs is None:
                raise self.unsupported("open() of a non-virtual file", n)
            if "w" in mode:
                self.vfs[path] = VFile(path, [])
            if path not in self.vfs:
                raise PathRaise("FileNotFoundError", self.where(n))
            return self.vfs[path]
        if name in ("str", "repr"):
            return self.render(args[0], n)
        if name == "format":
            # format(x) / format(x, spec): the same rules as "{:spec}".format(x)
            spec = args[1] if len(args) > 1 else ""
            if not isinstance(spec, str):
                raise self.unsupported("format() with a computed spec", n)
            return self.str_format("{:%s}" % spec if spec else "{}", [args[0]], {}, n)
        if name in ("all", "any"):
            src = args[0]
            if isinstance(src, LazyIter):
                while True:       # consumes only as far as the answer requires
                    try:
                        x = src.next()
                    except StopIteration:
                        return name == "all"
                    if self.truth(x, n) != (name == "all"):
                        return name == "any"
            if name == "all":
                return all(self.truth(x, n) for x in self.elements(src, n))
            return any(self.truth(x, n) for x in self.elements(src, n))
        if name == "sum":
            items = self.elements(args[0], n)
            acc = args[1] if len(args) > 1 else Poly()
            for x in items:
                acc = self.arith(ast.Add, acc, x, n)
            return acc
        if name in ("max", "min"):
            items = list(args) if len(args) > 1 else self.elements(args[0], n)
            best = items[0]
            for x in items[1:]:
                d = self.scalar(x, n) - self.scalar(best, n)
                bigger = self.decide_sign(d, {1}, "%s > 0" % d.short(60))
                if (name == "max") == bigger:
                    best = x
            return best
        if name == "super":
            cls = env.get("__class__")
            slf = env.get("self")
            if slf is None and self.fn_stack and getattr(self.fn_stack[-1], "args", None) is not None and self.fn_stack[-1].args.args:
                slf = env.get(self.fn_stack[-1].args.args[0].arg)       # `cls` of a classmethod / __init_subclass__ / __new__
            if len(args) == 2:
                cls, slf = args
            return SuperRef(cls.name, slf)
        if name == "print":
            if isinstance(kw.get("file"), VFile):
                sep_ = kw.get("sep", " ")
                end_ = kw.get("end", "\n")
                sep_ = " " if sep_ is None else sep_
                end_ = "\n" if end_ is None else end_
                kw["file"].lines.append(sep_.join(self.render(a, n) for a in args) + end_)
                return None
            if "print" in self.overrides:
                return self.overrides["print"](*args)
            return None
        if name == "int" and isinstance(args[0], str):
            return self.parse_number(args[0], n, integer=True)
        if name in LOSSY_BUILTINS:
            if name == "int" and isinstance(args[0], Poly) and args[0].const_value() is not None and int(args[0].const_value()) == args[0].const_value():
                return args[0]
            raise LossyOperation("builtin %s()" % name, self.where(n))
        if name == "NotImplementedError":
            return Opaque("exc", name)
        raise self.unsupported("builtin %s" % name, n)

    def ev_ListComp(self, n, env):
        out = []
        self.comp(n.generators, 0, dict(env), lambda e: out.append(self.ev(n.elt, e)))
        return out

    def ev_GeneratorExp(self, n, env):
        return LazyIter(self.ev_ListComp(n, env))

    def ev_SetComp(self, n, env):
        out = []
        self.comp(n.generators, 0, dict(env), lambda e: out.append(self.ev(n.elt, e)))
        res = []
        for x in out:
            if not any(self.equal(x, y, n) for y in res):
                res.append(x)
        return set(self.hashable(x, n) for x in res)

    def ev_DictComp(self, n, env):
        out = {}

        def emit(e):
            out[self.hashable(self.ev(n.key, e), n)] = self.ev(n.value, e)
        self.comp(n.generators, 0, dict(env), emit)
        return out

    def comp(self, gens, i, env, emit):
        if i == len(gens):
            emit(env)
            return
        g = gens[i]
        for el in self.iterate(self.ev(g.iter, env), g.iter):
            self.assign(g.target, el, env)
            if all(self.truth(self.ev(c, env), c) for c in g.ifs):
                self.comp(gens, i + 1, env, emit)

    def ev_JoinedStr(self, n, env):
        out = []
        for v in n.values:
            if isinstance(v, ast.Constant):
                out.append(str(v.value))
            elif isinstance(v, ast.FormattedValue):
                val = self.ev(v.value, env)
                spec = ""
                if v.format_spec is not None:
                    spec = self.ev_JoinedStr(v.format_spec, env)
                conv = {-1: None, 115: "s", 114: "r", 97: "a"}.get(v.conversion, None)
                if isinstance(val, (Poly, Wrapped)) and (spec not in ("", "r", "s", ".17g", ".17e", ".16e") or conv == "a") and self.lossy_ok:
                    out.append("<display>")
                    continue
                if isinstance(val, (Poly, Wrapped)) and (spec not in ("", "r", "s", ".17g", ".17e", ".16e") or conv == "a"):
                    raise LossyOperation("number formatted with format spec %r (not the shortest round-trip repr)" % spec, self.where(n))
                out.append(self.render(val, n))
            else:
                raise self.unsupported("f-string part", n)
        return "".join(out)

    def ev_Lambda(self, n, env):
        fn = ast.FunctionDef(name="<lambda>", args=n.args, body=[ast.Return(value=n.body, lineno=n.lineno)], decorator_list=[], lineno=n.lineno)
        fn._gs_module = self.module_of_current()
        fn._gs_class = None
        return self.make_closure(fn, env)

    def ev_NamedExpr(self, n, env):
        v = self.ev(n.value, env)
        self.assign(n.target, v, env)
        return v

    # ------------------------------------------------------------------------------------ numpy
    def check_dtype(self, kw, n, value=None):
        d = kw.get("dtype")
        if d is None:
            return
        if (isinstance(d, Opaque) and d.kind == "npfunc" and d.payload[0] in ("intp", "int64", "int32", "int_", "uint64", "int")) or \
                (isinstance(d, ClassRef) and d.name == "int"):
            # an integer array is exact when every entry is an integer constant (index arrays)
            if value is None:
                return      # zeros / ones / empty / arange of an integer dtype are exact
            try:
                flat = self.to_arr(value, n).flat()
            except Unsupported:
                flat = None
            if flat is not None and all(x.const_value() is not None and int(x.const_value()) == x.const_value() for x in flat):
                return
            raise LossyOperation("array cast to an integer dtype", self.where(n))
        if isinstance(d, Opaque) and d.kind == "dtype":
            return
        if d is FLOAT or (isinstance(d, ClassRef) and d.name == "float"):
            return
        raise LossyOperation("array constructed with a non-float64 dtype", self.where(n))

    @staticmethod
    def is_float64(d):
        return d is None or (isinstance(d, Opaque) and d.kind in ("dtype", "npfunc") and d.payload and d.payload[0] in ("float64", "float_", "double")) or \
            (isinstance(d, ClassRef) and d.name == "float")

    def to_arr(self, v, node):
        if isinstance(v, Arr3):
            return Arr3([m_.copy() for m_ in v.mats])
        if isinstance(v, Obj) and getattr(v, "tuple_fields", None):
            v = [v.fields[k] for k in v.tuple_fields]
        if isinstance(v, (list, tuple)) and any(isinstance(x, Obj) and getattr(x, "tuple_fields", None) for x in v):
            v = [([x.fields[k] for k in x.tuple_fields] if isinstance(x, Obj) and getattr(x, "tuple_fields", None) else x) for x in v]
        if isinstance(v, (list, tuple)) and v and all(isinstance(x, str) for x in v):
            return Arr([self.parse_number(x, node, integer=False) for x in v], 1)
        if isinstance(v, Arr):
            return Arr([list(r) for r in v.data], 2) if v.ndim == 2 else Arr(list(v.data), 1)
        if isinstance(v, (list, tuple)):
            if v and all(isinstance(r, (list, tuple, Arr)) for r in v):
                if all(isinstance(r, (list, tuple)) and r and all(isinstance(x, (list, tuple)) for x in r) for r in v) or \
                        all(isinstance(r, Arr) and r.ndim == 2 for r in v):
                    mats = [self.to_arr(r, node) for r in v]
                    if all(m_.ndim == 2 and m_.shape == mats[0].shape for m_ in mats):
                        return Arr3(mats)            # three levels of nesting: a stack of matrices
                rows = [list(r.data) if isinstance(r, Arr) else [self.scalar(x, node) for x in r] for r in v]
                if any(isinstance(x, list) for r in rows for x in r):
                    raise self.unsupported("array with more than 2 dimensions", node)
                if len({len(r) for r in rows}) > 1:
                    raise self.unsupported("ragged array literal", node)
                return Arr(rows, 2)
            return Arr([self.scalar(x, node) for x in v], 1)
        raise self.unsupported("cannot convert %r to an array" % (v,), node)

    def np_sqrt(self, p, node, math_domain=False):
        if isinstance(p, Arr):
            return p.map(lambda x: self.np_sqrt(x, node))
        p = self.scalar(p, node)
        c = p.const_value()
        if c is not None:
            f = Fraction(c)
            if f < 0:
                raise self.unsupported("sqrt of a negative constant", node)
            import math
            a, b = math.isqrt(f.numerator), math.isqrt(f.denominator)
            if a * a == f.numerator and b * b == f.denominator:
                return Poly.const(Fraction(a, b))
        if c is None and not self.sqrt_arg_nonnegative(p):
            # the argument may be negative on this path: explore both; the negative branch produces nan
            if not self.decide_sign(p, {0, 1}, "%s >= 0" % p.short(60)):
                if math_domain:
                    raise PathRaise("ValueError(math domain error)", self.where(node))
                raise PathRaise("FloatingPointError(sqrt of a negative number: nan)", self.where(node))
        return poly.atom("sqrt", p)

    def is_nonneg_by_construction(self, p):
        if not isinstance(p, Poly):
            return False
        c = p.const_value()
        if c is not None:
            return c >= 0
        if p.key() in self.nonneg_keys:
            return True
        if len(p.t) == 1:
            (m, c_), = p.t.items()
            if c_ > 0 and len(m) == 1 and m[0][1] == 1 and poly.R.vars[m[0][0]].startswith(("norm#", "sqrt#")):
                return True          # a norm / square-root atom
        return all(c_ > 0 and all(e % 2 == 0 for _v, e in m) for m, c_ in p.t.items())

    def sqrt_arg_nonnegative(self, p):
        """Is p >= 0 on this path for a reason that needs no decision?  (sum of squares; c - n^2 with 0 <= n <= sqrt(c) known)"""
        if all(c_ > 0 and all(e % 2 == 0 for _v, e in m) for m, c_ in p.t.items()):
            return True
        if p.key() in self.nonneg_keys:
            return True
        if self.known_positive(p):
            return True
        if _psd_quadratic(p):
            return True
        for i, (kind, arg) in poly.R.atom_arg.items():
            rest = p + arg
            c_ = rest.const_value()
            if c_ is None or c_ <= 0:
                continue
            f = Fraction(c_)
            import math
            a, b = math.isqrt(f.numerator), math.isqrt(f.denominator)
            if a * a != f.numerator or b * b != f.denominator:
                continue
            n_ = Poly.var(poly.R.vars[i])
            key, orient = SignFacts.canon(n_ - Poly.const(Fraction(a, b)))
            signs = self.facts.get(key)
            if signs is not None and {x * orient for x in signs} <= {-1, 0}:
                return True         # n <= sqrt(c)  and  n >= 0  =>  c - n^2 >= 0
        return False

    def cos_sin(self, p, node):
        """(cos p, sin p) for an angle expression p = sum k_i * angle_i + c*pi/2 (k_i integer)."""
        p = self.scalar(p, node)
        c, s = Poly.const(1), Poly.const(0)
        for m, coef in sorted(p.t.items()):
            if m == ():
                raise self.unsupported("cos/sin of an angle with non-zero rational constant term %s" % coef, node)
            if len(m) != 1 or m[0][1] != 1:
                raise self.unsupported("cos/sin of non-linear argument %s" % p.short(60), node)
            vname = poly.R.vars[m[0][0]]
            if vname == PI_NAME:
                q = Fraction(coef) * 2
                if q.denominator != 1:
                    raise self.unsupported("cos/sin with constant term not a multiple of pi/2", node)
                for _ in range(int(q) % 4):
                    c, s = -s, c
                continue
            if vname.startswith("WRAP") and isinstance(coef, int):
                continue  # an integer multiple of 2*pi introduced by an earlier wrap (marker analysis)
            if vname not in poly.R.angles or not isinstance(coef, int):
                raise self.unsupported("cos/sin of %s which is not an integer combination of angle variables" % p.short(60), node)
            ca, sa = poly.R.angles[vname]
            if coef < 0:
                sa = -sa
            for _ in range(abs(coef)):
                c, s = c * ca - s * sa, s * ca + c * sa
        return c, s

    def atan2(self, y, x, node):
        y, x = self.scalar(y, node), self.scalar(x, node)
        self.atan2_uses += 1
        for name in sorted(poly.R.angles):
            for k in (1, -1):
                ang = Poly.var(name).scale(k)
                c, s = self.cos_sin(ang, node)
                if c == x and s == y:
                    # arctan2 returns the principal value: in marker mode it counts as a wrap of the angle
                    if self.mark_wraps == "numbered":
                        nm_ = "WRAP%d" % len(self.wraps)
                        self.wraps.append((nm_, ang))
                        return ang + Poly.var(nm_)
                    return ang
        if y.is_zero() and x == Poly.const(1):
            return Poly()
        raise self.unsupported("atan2 of arguments that are not (sin t, cos t) of a known angle", node)

    def matmul3(self, a, b, node):
        """np.matmul / @ with stacks of matrices: the product is taken matrix by matrix, a plain matrix is used for every member."""
        k = len(a.mats) if isinstance(a, Arr3) else len(b.mats)
        if isinstance(a, Arr3) and isinstance(b, Arr3) and len(a.mats) != len(b.mats):
            raise PathRaise("ValueError(matmul: stacks of different length)", self.where(node))
        out = []
        for i in range(k):
            x = a.mats[i] if isinstance(a, Arr3) else self.to_arr(a, node)
            y = b.mats[i] if isinstance(b, Arr3) else self.to_arr(b, node)
            out.append(self.dot(x, y, node))
        if not all(isinstance(m_, Arr) and m_.ndim == 2 for m_ in out):
            raise self.unsupported("matmul of a stack with a vector", node)
        return Arr3(out)

    def dot(self, a, b, node):
        if isinstance(a, (list, tuple)):
            a = self.to_arr(a, node)
        if isinstance(b, (list, tuple)):
            b = self.to_arr(b, node)
        if not isinstance(a, Arr) or not isinstance(b, Arr):
            return self.arith(ast.Mult, a, b, node)
        if a.ndim == 2 and b.ndim == 2:
            if a.shape[1] != b.shape[0]:
                raise PathRaise("ValueError(dot shapes %s %s)" % (a.shape, b.shape), self.where(node))
            bt = b.T().data
            return Arr([[_dotp(r, c) for c in bt] for r in a.data], 2)
        if a.ndim == 1 and b.ndim == 2:
            if a.shape[0] != b.shape[0]:
                raise PathRaise("ValueError(dot shapes %s %s)" % (a.shape, b.shape), self.where(node))
            return Arr([_dotp(a.data, c) for c in b.T().data], 1)
        if a.ndim == 2 and b.ndim == 1:
            if a.shape[1] != b.shape[0]:
                raise PathRaise("ValueError(dot shapes %s %s)" % (a.shape, b.shape), self.where(node))
            return Arr([_dotp(r, b.data) for r in a.data], 1)
        if a.shape != b.shape:
            raise PathRaise("ValueError(dot shapes %s %s)" % (a.shape, b.shape), self.where(node))
        r = _dotp(a.data, b.data)
        if isinstance(r, Poly) and (a is b or all(isinstance(x, Poly) and isinstance(y, Poly) and x == y for x, y in zip(a.data, b.data))):
            self.nonneg_keys.add(r.key())        # x . x is a sum of squares
        return r

    def npfunc(self, name, args, kw, n):
        if "out" in kw:
            # ufunc(..., out=target): the result is written into `target` in place, and `target` is returned
            kw = dict(kw)
            target = kw.pop("out")
            if isinstance(target, tuple) and len(target) == 1:
                target = target[0]
            res = self.npfunc(name, args, kw, n)
            if target is None:
                return res
            if not isinstance(target, Arr) or not isinstance(res, Arr) or res.shape != target.shape:
                raise self.unsupported("out= with mismatching shapes", n)
            if target.ndim == 2:
                for r_, row in zip(target.data, res.data):
                    r_[:] = list(row)
            else:
                target.data[:] = list(res.data)
            self.after_write(target)
            return target
        args = [a.drain() if isinstance(a, LazyIter) else a for a in args]
        if name in LOSSY_NP:
            raise LossyOperation("np.%s" % name, self.where(n))
        if name in ("bool_", "bool8") and len(args) == 1 and not kw:
            return self.truth(args[0], n) if not isinstance(args[0], bool) else args[0]       # np.bool_(x): the truth value as a numpy scalar
        if name == "indices":
            shp = args[0]
            dims = [self.intval(x, n) for x in shp] if isinstance(shp, (tuple, list)) else [self.intval(shp, n)]
            if len(dims) == 2:
                r_, c_ = dims
                return [Arr([[Poly.const(i) for _ in range(c_)] for i in range(r_)], 2), Arr([[Poly.const(j) for j in range(c_)] for _ in range(r_)], 2)]
            if len(dims) == 1:
                return [Arr([Poly.const(i) for i in range(dims[0])], 1)]
        if name == "frombuffer" and isinstance(args[0], BytesVal):
            return Arr([self.scalar(x, n) for x in args[0].vals], 1)
        if name == "fromiter":
            self.check_dtype(kw, n, list(self.iterate(args[0], n)))
            return self.to_arr(list(self.iterate(args[0], n)), n)
        if name in ("array", "asarray", "asanyarray", "ascontiguousarray", "copy"):
            self.check_dtype(kw, n, args[0])
            v = args[0]
            if getattr(v, "foreign_dtype", False) and "dtype" not in kw and name in ("array", "copy"):
                c_ = self.to_arr(v, n)
                c_ = c_.copy() if c_ is v else c_
                c_.foreign_dtype = True
                return c_
            if isinstance(v, Pose) and name == "asanyarray":
                return v
            if getattr(v, "foreign_dtype", False) and "dtype" in kw:
                c_ = self.to_arr(v, n)
                return c_.copy() if c_ is v else c_         # converted to the requested type: a new float64 array
            if name in ("asarray", "asanyarray", "ascontiguousarray") and isinstance(v, Arr) and "dtype" not in kw or \
                    (name in ("asarray", "asanyarray", "ascontiguousarray") and isinstance(v, Arr) and self.is_float64(kw.get("dtype"))):
                # no copy is made for an array that already has the requested type
                if isinstance(v, Pose):
                    return Arr(v.data, 1) if name == "asarray" else v
                return v
            return self.to_arr(v, n)
        if name == "exp" and len(args) == 1 and isinstance(args[0], Cx) and args[0].re.is_zero():
            c_, s_ = self.cos_sin(args[0].im, n)
            return Cx(c_, s_)
        if name in ("real", "imag") and len(args) == 1 and isinstance(args[0], (Cx, Poly)):
            z_ = args[0] if isinstance(args[0], Cx) else Cx(args[0], Poly())
            return z_.re if name == "real" else z_.im
        if name in ("conj", "conjugate") and len(args) == 1 and isinstance(args[0], Cx):
            return Cx(args[0].re, -args[0].im)
        if name == "angle" and len(args) == 1 and isinstance(args[0], Cx):
            return self.atan2(args[0].im, args[0].re, n)
        if name in ("cos", "sin"):
            if isinstance(args[0], Wrapped):
                args = [self.unwrap(args[0], n)]
            c, s = self.cos_sin(args[0], n)
            return c if name == "cos" else s
        if name in ("arctan2", "atan2"):
            return self.atan2(args[0], args[1], n)
        if name == "matmul" and (isinstance(args[0], Arr3) or isinstance(args[1], Arr3)):
            return self.matmul3(args[0], args[1], n)
        if name in ("dot", "matmul"):
            return self.dot(args[0], args[1], n)
        if name in ("eye", "identity"):
            self.check_dtype(kw, n)
            k = self.intval(args[0], n)
            m_arg = args[1] if len(args) > 1 else kw.get("M")
            m = self.intval(m_arg, n) if m_arg is not None else k
            return Arr([[Poly.const(1 if i == j else 0) for j in range(m)] for i in range(k)], 2)
        if name in ("zeros", "ones", "empty"):
            self.check_dtype(kw, n)
            fill = Poly.const(0 if name == "zeros" else 1)
            if name == "empty":
                # uninitialised memory: every entry is a distinct unknown, so an entry that is never written shows up
                self.uninit = getattr(self, "uninit", 0)
                shp_ = args[0]
                dims_ = [self.intval(x, n) for x in shp_] if isinstance(shp_, (tuple, list)) else [self.intval(shp_, n)]

                def fresh():
                    self.uninit += 1
                    return Poly.var("uninitialised#%d" % self.uninit)
                if len(dims_) == 1:
                    return Arr([fresh() for _ in range(dims_[0])], 1)
                if len(dims_) == 2:
                    return Arr([[fresh() for _ in range(dims_[1])] for _ in range(dims_[0])], 2)
                raise self.unsupported("np.empty with %d dims" % len(dims_), n)
            shp = args[0]
            if isinstance(shp, (tuple, list)):
                dims = [self.intval(x, n) for x in shp]
            else:
                dims = [self.intval(shp, n)]
            if len(dims) == 1:
                return Arr([fill for _ in range(dims[0])], 1)
            if len(dims) == 2:
                return Arr([[fill for _ in range(dims[1])] for _ in range(dims[0])], 2)
            raise self.unsupported("np.%s with %d dims" % (name, len(dims)), n)
        if name in ("zeros_like", "ones_like", "empty_like", "full_like"):
            proto = args[0]
            if "dtype" in kw:
                self.check_dtype(kw, n)
            elif getattr(proto, "foreign_dtype", False):
                raise LossyOperation("np.%s of a caller-supplied array inherits that array's dtype (an integer or float32 array truncates / "
                                     "rounds what is stored into it)" % name, self.where(n))
            if name == "empty_like":
                self.uninit = getattr(self, "uninit", 0)

                def fresh(_):
                    self.uninit += 1
                    return Poly.var("uninitialised#%d" % self.uninit)
                return self.to_arr(proto, n).map(fresh)
            if name == "full_like":
                fv = self.scalar(args[1] if len(args) > 1 else kw.get("fill_value"), n)
                return self.to_arr(proto, n).map(lambda _: fv)
            fill = Poly.const(0 if name == "zeros_like" else 1)
            return self.to_arr(proto, n).map(lambda _: fill)
        if name == "add":
            return self.arith(ast.Add, self.maybe_arr(args[0], n), self.maybe_arr(args[1], n), n)
        if name == "subtract":
            return self.arith(ast.Sub, self.maybe_arr(args[0], n), self.maybe_arr(args[1], n), n)
        if name == "multiply":
            return self.arith(ast.Mult, self.maybe_arr(args[0], n), self.maybe_arr(args[1], n), n)
        if name in ("divide", "true_divide"):
            return self.arith(ast.Div, self.maybe_arr(args[0], n), self.maybe_arr(args[1], n), n)
        if name == "negative":
            return self.neg(self.maybe_arr(args[0], n), n)
        if name == "square":
            v = self.maybe_arr(args[0], n)
            return self.arith(ast.Mult, v, v, n)
        if name == "power":
            return self.arith(ast.Pow, self.maybe_arr(args[0], n), args[1], n)
        if name == "transpose":
            if isinstance(args[0], (Poly, Wrapped)):
                return self.scalar(args[0], n)
            return self.to_arr(args[0], n).T()
        if name == "linalg.norm":
            if isinstance(args[0], (Poly, Wrapped)):
                a = Arr([self.scalar(args[0], n)], 1)
            else:
                a = self.to_arr(args[0], n)
            if len(args) > 1 or kw:
                raise self.unsupported("np.linalg.norm with ord/axis", n)
            sq = sum((x * x for x in a.flat()), Poly())
            if sq.const_value() is not None:
                return self.np_sqrt(sq, n)
            return poly.atom("norm", sq)
        if name in ("linalg.lstsq", "linalg.pinv") and "spsolve" in self.overrides:
            raise LossyOperation("np.%s in place of the exact linear solve (a least-squares / pseudo-inverse solution truncates small singular "
                                 "values and returns a minimum-norm answer for a singular system)" % name, self.where(n))
        if name == "linalg.solve" and "spsolve" in self.overrides and len(args) == 2:
            return self.overrides["spsolve"](args[0], args[1])
        if name == "linalg.inv":
            raise self.unsupported("np.linalg.inv", n)
        if name == "sqrt":
            return self.np_sqrt(args[0], n)
        if name == "math.sqrt":
            return self.np_sqrt(args[0], n, math_domain=True)
        if name in ("hstack", "concatenate"):
            parts = [self.to_arr(x, n) for x in self.iterate(args[0], n)]
            axis = self.intval(kw["axis"], n) if "axis" in kw else (self.intval(args[1], n) if len(args) > 1 else 0)
            if all(p.ndim == 1 for p in parts):
                return Arr([x for p in parts for x in p.data], 1)
            if all(p.ndim == 2 for p in parts):
                if name == "hstack" or axis == 1:
                    return Arr([sum((p.data[i] for p in parts), []) for i in range(parts[0].shape[0])], 2)
                return Arr([list(r) for p in parts for r in p.data], 2)
            raise self.unsupported("np.%s of mixed ranks" % name, n)
        if name == "vstack":
            parts = [self.to_arr(x, n) for x in self.iterate(args[0], n)]
            rows = []
            for p in parts:
                rows.extend([list(r) for r in p.data] if p.ndim == 2 else [list(p.data)])
            return Arr(rows, 2)
        if name in ("triu_indices", "tril_indices"):
            k = self.intval(args[0], n)
            off = self.intval(args[1], n) if len(args) > 1 else (self.intval(kw["k"], n) if "k" in kw else 0)
            if name == "triu_indices":
                return IndexSet([(i, j) for i in range(k) for j in range(k) if j - i >= off])
            return IndexSet([(i, j) for i in range(k) for j in range(k) if j - i <= off])
        if name == "finfo":
            return Opaque("finfo")
        if name == "sum":
            fl_ = self.to_arr(args[0], n).flat()
            r_ = sum(fl_, Poly())
            if all(self.is_nonneg_by_construction(x) for x in fl_):
                self.nonneg_keys.add(r_.key())
            return r_
        if name == "trace":
            a = self.to_arr(args[0], n)
            return sum((a.data[i][i] for i in range(min(a.shape))), Poly())
        if name == "outer":
            a, b = self.to_arr(args[0], n), self.to_arr(args[1], n)
            return Arr([[x * y for y in b.flat()] for x in a.flat()], 2)
        if name == "cross":
            a, b = self.to_arr(args[0], n).flat(), self.to_arr(args[1], n).flat()
            if len(a) == 3 and len(b) == 3:
                return Arr([a[1] * b[2] - a[2] * b[1], a[2] * b[0] - a[0] * b[2], a[0] * b[1] - a[1] * b[0]], 1)
        if name == "ndim":
            v = args[0]
            if isinstance(v, Arr):
                return Poly.const(v.ndim)
            if isinstance(v, Poly):
                return Poly.const(0)
            if isinstance(v, (list, tuple)):
                return Poly.const(self.to_arr(v, n).ndim)
            raise self.unsupported("np.ndim of %r" % (v,), n)
        if name == "shape":
            v = args[0]
            if isinstance(v, Poly) or v is None or isinstance(v, (str, bool)):
                return ()
            a = v if isinstance(v, Arr) else self.to_arr(v, n)
            return tuple(Poly.const(x) for x in a.shape)
        if name == "diag":
            a = self.to_arr(args[0], n)
            if a.ndim == 1:
                k = len(a.data)
                return Arr([[a.data[i] if i == j else Poly() for j in range(k)] for i in range(k)], 2)
            return Arr([a.data[i][i] for i in range(min(a.shape))], 1)
        if name in ("abs", "absolute", "fabs"):
            return self.absval(self.maybe_arr(args[0], n), n)
        if name == "sign":
            v = self.maybe_arr(args[0], n)
            f = lambda x: (Poly.const(1) if self.decide_sign(x, {1}, "%s > 0" % x.short(40)) else
                           (Poly.const(0) if self.decide_sign(x, {0}, "%s == 0" % x.short(40)) else Poly.const(-1)))
            return v.map(f) if isinstance(v, Arr) else f(self.scalar(v, n))
        if name in ("maximum", "minimum", "fmax", "fmin"):
            a, b = self.maybe_arr(args[0], n), self.maybe_arr(args[1], n)
            def pick(x, y):
                d = x - y
                gt = self.decide_sign(d, {1}, "%s > 0" % d.short(40))
                return (x if gt else y) if name in ("maximum", "fmax") else (y if gt else x)
            if isinstance(a, Arr) and isinstance(b, Arr):
                return a.zip(b, pick)
            if isinstance(a, Arr):
                return a.map(lambda x: pick(x, self.scalar(b, n)))
            if isinstance(b, Arr):
                return b.map(lambda y: pick(self.scalar(a, n), y))
            return pick(self.scalar(a, n), self.scalar(b, n))
        if name in ("all", "any"):
            v = args[0]
            if isinstance(v, BoolArr):
                return all(v.flat) if name == "all" else any(v.flat)
            if isinstance(v, bool):
                return v
            if isinstance(v, (list, tuple)):
                vals = [self.truth(x, n) for x in v]
                return all(vals) if name == "all" else any(vals)
            if isinstance(v, Arr):
                if name == "any":
                    return self.any_nonzero(list(v.flat()), n)
                vals = [self.truth(x, n) for x in v.flat()]
                return all(vals)
            if isinstance(v, (Poly, Wrapped)):
                return self.truth(v, n)
            raise self.unsupported("np.%s of %r" % (name, v), n)
        if name == "isclose" and ("rel_tol" in kw or "abs_tol" in kw):
            # math.isclose(a, b, rel_tol, abs_tol):  |a-b| <= max(rel_tol * max(|a|,|b|), abs_tol)
            a, b = self.scalar(args[0], n), self.scalar(args[1], n)
            d = self.absval(a - b, n)
            rel = self.scalar(kw.get("rel_tol", Poly.const(1e-09)), n)
            ab = self.scalar(kw.get("abs_tol", Poly.const(0)), n)
            big = self.builtin("max", [self.absval(a, n), self.absval(b, n)], {}, n, {})
            T = self.builtin("max", [rel * big, ab], {}, n, {})
            return self.decide_sign(d - T, {-1, 0}, "|%s| <= tolerance" % (a - b).short(40))
        if name in ("isclose", "allclose"):
            a, b = self.maybe_arr(args[0], n), self.maybe_arr(args[1], n)
            fa = a.flat() if isinstance(a, Arr) else [self.scalar(a, n)]
            fb = b.flat() if isinstance(b, Arr) else [self.scalar(b, n)]
            if len(fa) != len(fb):
                if len(fa) == 1:
                    fa = fa * len(fb)
                elif len(fb) == 1:
                    fb = fb * len(fa)
                else:
                    raise PathRaise("ValueError(shapes)", self.where(n))
            rtol = self.scalar(kw.get("rtol", Poly.const(1e-05)), n)
            atol = self.scalar(kw.get("atol", Poly.const(1e-08)), n)
            res = []
            for x, y in zip(fa, fb):
                d = x - y
                if d.is_zero():
                    res.append(True)
                    continue
                T = atol + rtol * self.absval(y, n)      # |x - y| <= atol + rtol * |y|
                res.append(self.decide_sign(d - T, {-1, 0}, "%s <= tolerance" % d.short(40)) and
                           self.decide_sign(d + T, {0, 1}, "%s >= -tolerance" % d.short(40)))
            if name == "allclose":
                return all(res)
            shp_ = a.shape if isinstance(a, Arr) else (b.shape if isinstance(b, Arr) else None)
            return BoolArr(res, shp_ if shp_ is not None and len(shp_) <= 2 else (len(res),)) if isinstance(a, Arr) or isinstance(b, Arr) else res[0]
        if name == "where" and len(args) == 3:
            c, a, b = args
            if isinstance(c, bool):
                return a if c else b
            if isinstance(c, BoolArr):
                fa = a.flat() if isinstance(a, Arr) else [self.scalar(a, n)] * len(c.flat)
                fb = b.flat() if isinstance(b, Arr) else [self.scalar(b, n)] * len(c.flat)
                flat = [x if k else y for k, x, y in zip(c.flat, fa, fb)]
                if len(c.shape) == 2:
                    w = c.shape[1]
                    return Arr([flat[i * w:(i + 1) * w] for i in range(c.shape[0])], 2)
                return Arr(flat, 1)
        if name in ("shares_memory", "may_share_memory") and len(args) == 2:
            def root(a_):
                seen_ = 0
                while isinstance(a_, Arr) and getattr(a_, "view_of", None) is not None and seen_ < 16:
                    a_, seen_ = a_.view_of[0], seen_ + 1
                return a_
            a_, b_ = root(args[0]), root(args[1])
            if not isinstance(a_, Arr) or not isinstance(b_, Arr):
                return False
            return a_ is b_ or a_.data is b_.data
        if name == "broadcast_to" and len(args) >= 2:
            src = args[0] if isinstance(args[0], (Arr, Arr3, Poly)) else self.to_arr(args[0], n)
            shp_ = args[1] if isinstance(args[1], (tuple, list)) else [args[1]]
            tgt = tuple(self.intval(x, n) for x in shp_)
            ssh, sfl = nd_of(src)
            if len(ssh) > len(tgt) or nd_broadcast_shape(ssh, tgt) != tgt:
                raise PathRaise("ValueError(operands could not be broadcast together with remapped shapes)", self.where(n))
            return nd_wrap(tgt, nd_expand(ssh, sfl, tgt))        # (numpy returns a read-only view; a store into it raises there)
        if name == "broadcast_shapes":
            shapes = [tuple(self.intval(x, n) for x in (sh if isinstance(sh, (tuple, list)) else [sh])) for sh in args]
            nd = max((len(sh) for sh in shapes), default=0)
            out_ = []
            for k_ in range(1, nd + 1):
                dims_ = {sh[-k_] for sh in shapes if len(sh) >= k_} - {1}
                if len(dims_) > 1:
                    raise PathRaise("ValueError(shape mismatch: objects cannot be broadcast to a single shape)", self.where(n))
                out_.append(dims_.pop() if dims_ else 1)
            return tuple(Poly.const(x) for x in reversed(out_))
        if name in ("max", "min", "amax", "amin") and args and kw.get("axis") is None and len(args) == 1:
            v_ = self.maybe_arr(args[0], n)
            items_ = list(v_.flat()) if isinstance(v_, Arr) else list(self.iterate(v_, n))
            if "initial" in kw:
                items_.append(self.scalar(kw["initial"], n))
            if not items_:
                raise PathRaise("ValueError(zero-size array to reduction operation)", self.where(n))
            return self.builtin("max" if name in ("max", "amax") else "min", [items_], {}, n, {})
        if name in ("split", "array_split") and len(args) == 2 and kw.get("axis", None) in (None, 0) or (name == "split" and len(args) == 2 and isinstance(kw.get("axis"), Poly) and kw["axis"].const_value() == 0):
            a_ = self.to_arr(args[0], n)
            if a_.ndim != 1:
                raise self.unsupported("np.split of a 2-D array", n)
            sec = args[1]
            if isinstance(sec, Poly):
                k_ = self.intval(sec, n)
                if len(a_.data) % k_:
                    raise PathRaise("ValueError(array split does not result in an equal division)", self.where(n))
                cuts = [len(a_.data) // k_ * i for i in range(1, k_)]
            else:
                cuts = [self.intval(x, n) for x in (sec.data if isinstance(sec, Arr) else self.iterate(sec, n))]
            bounds = [0] + cuts + [len(a_.data)]
            out_ = []
            for lo_, hi_ in zip(bounds[:-1], bounds[1:]):
                lo_, hi_ = min(max(lo_, 0), len(a_.data)), min(max(hi_, 0), len(a_.data))
                piece = Arr(list(a_.data[lo_:hi_]), 1)
                if hi_ > lo_:
                    self.make_view(piece, a_, [(i,) for i in range(lo_, hi_)])      # np.split returns views
                out_.append(piece)
            return out_
        if name == "remainder" and len(args) == 2:
            # IEEE remainder x - m*round_half_even(x/m): congruent to x modulo m and in the *closed* interval [-m/2, m/2] -- at the
            # boundary the result is not a function of the residue class (remainder(pi, 2pi) = pi, remainder(-pi, 2pi) = -pi)
            x_, m_ = self.scalar(args[0], n), self.scalar(args[1], n)
            half = m_.scale(Fraction(1, 2))
            self.events.append(("closed-wrap", "remainder(x, %s) at %s" % (m_.short(20), self.where(n))))
            return Wrapped(x_ + half, m_, -half)
        if name == "tri":
            rows_ = self.intval(args[0], n)
            cols_ = args[1] if len(args) > 1 else kw.get("M")
            cols_ = rows_ if cols_ is None else self.intval(cols_, n)
            k_ = self.intval(args[2], n) if len(args) > 2 else (self.intval(kw["k"], n) if "k" in kw else 0)
            dt_ = args[3] if len(args) > 3 else kw.get("dtype")
            flags = [[j <= i + k_ for j in range(cols_)] for i in range(rows_)]
            if (isinstance(dt_, Opaque) and dt_.payload and dt_.payload[0] in ("bool", "bool_")) or (isinstance(dt_, ClassRef) and dt_.name == "bool"):
                return BoolArr([x for r_ in flags for x in r_], (rows_, cols_))
            return Arr([[Poly.const(1 if x else 0) for x in r_] for r_ in flags], 2)
        if name == "count_nonzero":
            v = self.to_arr(args[0], n)
            return Poly.const(sum(1 for x in v.flat() if self.truth(x, n)))
        if name == "append":
            a, b = self.to_arr(args[0], n), args[1]
            bl = self.to_arr(b, n).flat() if isinstance(b, (Arr, list, tuple)) else [self.scalar(b, n)]
            return Arr(a.flat() + bl, 1)
        if name == "full":
            shp = args[0]
            fill = self.scalar(args[1], n)
            dims = [self.intval(x, n) for x in shp] if isinstance(shp, (tuple, list)) else [self.intval(shp, n)]
            if len(dims) == 1:
                return Arr([fill for _ in range(dims[0])], 1)
            if len(dims) == 2:
                return Arr([[fill for _ in range(dims[1])] for _ in range(dims[0])], 2)
        if name == "reshape" and len(args) >= 2:
            shp_ = args[1] if isinstance(args[1], tuple) else tuple(args[1:])
            return self.arr_method(self.to_arr(args[0], n), "reshape", [shp_], {}, n)
        if name in ("flatnonzero", "nonzero", "argwhere") and len(args) == 1:
            v_ = args[0]
            if isinstance(v_, BoolArr):
                flags = list(v_.flat)
                shape_ = v_.shape
            else:
                a_ = self.to_arr(v_, n)
                flags = [self.truth(x, n) for x in a_.flat()]
                shape_ = a_.shape
            if name == "flatnonzero" or len(shape_) == 1:
                idx_ = Arr([Poly.const(i) for i, f_ in enumerate(flags) if f_], 1)
                return idx_ if name == "flatnonzero" else (idx_,)
            raise self.unsupported("np.%s of a 2-D array" % name, n)
        if name == "cumsum" and len(args) == 1 and "axis" not in kw:
            fl_ = self.to_arr(args[0], n).flat()
            out_, acc_ = [], Poly()
            for x_ in fl_:
                acc_ = acc_ + x_
                out_.append(acc_)
            return Arr(out_, 1)
        if name == "arange":
            iv = [self.intval(a, n) for a in args]
            return Arr([Poly.const(i) for i in range(*iv)], 1)
        if name in ("repeat", "tile") and len(args) == 2 and "axis" not in kw:
            a = self.to_arr(args[0], n) if not isinstance(args[0], (Poly, Wrapped)) else Arr([self.scalar(args[0], n)], 1)
            k = self.intval(args[1], n)
            flat = a.flat()
            if name == "repeat":
                return Arr([x for x in flat for _ in range(k)], 1)
            if a.ndim == 1:
                return Arr(list(flat) * k, 1)
            return Arr([list(r) * k for r in a.data], 2)
        if name in ("atleast_1d", "squeeze", "ravel", "asfarray"):
            v = args[0]
            if isinstance(v, (Poly, Wrapped)):
                return Arr([self.scalar(v, n)], 1)
            a = self.to_arr(v, n)
            return Arr(a.flat(), 1) if name in ("ravel",) or (name == "squeeze" and 1 in a.shape and a.ndim == 2) else a
        if name == "atleast_2d":
            a = self.to_arr(args[0], n)
            return a if a.ndim == 2 else Arr([list(a.data)], 2)
        if name in ("prod",):
            acc = Poly.const(1)
            for x in self.to_arr(args[0], n).flat():
                acc = acc * x
            return acc
        if name == "mean":
            fl = self.to_arr(args[0], n).flat()
            return sum(fl, Poly()).scale(Fraction(1, len(fl)))
        if name in ("flip", "flipud"):
            a = self.to_arr(args[0], n)
            return Arr(list(reversed(a.data)), a.ndim)
        if name == "roll":
            a = self.to_arr(args[0], n)
            k = self.intval(args[1], n)
            if a.ndim == 1 and a.data:
                k %= len(a.data)
                return Arr(a.data[-k:] + a.data[:-k] if k else list(a.data), 1)
        if name == "fsum":
            return sum((self.scalar(x, n) for x in self.elements(args[0], n)), Poly())
        if name == "hypot":
            x, y = self.scalar(args[0], n), self.scalar(args[1], n)
            return poly.atom("norm", x * x + y * y)
        if name in ("isfinite", "isnan", "isinf"):
            # whether a computed number is finite is not a property of real arithmetic (a singular solve, an overflow): both
            # outcomes are explored, one decision per call (all elements alike)
            v_ = args[0]
            if isinstance(v_, Quot):
                flat_ = [v_]
            else:
                flat_ = v_.flat() if isinstance(v_, Arr) else [self.scalar(v_, n)]
            # inputs of the property's domain are finite numbers, and so is every polynomial / cos / sin / sqrt of them; what may be
            # inf or nan is a quotient and anything computed from an *uninterpreted* result (the step of a possibly singular solve)
            def risky(x):
                if not isinstance(x, Poly):
                    return True
                return any(v.startswith(tuple(self.maybe_nonfinite)) for v in base_variables(x)) if self.maybe_nonfinite else False
            if not any(risky(x) for x in flat_):
                fin = True
            else:
                key_ = tuple(sorted(str(x.key()) if isinstance(x, Poly) else repr(id(x)) for x in flat_))
                memo_ = self.__dict__.setdefault("_finite_memo", {})
                if key_ not in memo_:
                    self.finite_counter = getattr(self, "finite_counter", 0) + 1
                    memo_[key_] = self.decide_sign(Poly.var("all_finite#%d" % self.finite_counter), {1}, "the computed values are finite")
                fin = memo_[key_]
            res_ = fin if name == "isfinite" else (not fin)
            if isinstance(v_, Arr):
                return BoolArr([res_] * len(flat_), v_.shape)
            return res_
        if name == "block":
            rows = args[0]
            if isinstance(rows, list) and rows and all(isinstance(r, list) for r in rows):
                out = []
                for r in rows:
                    parts = [self.to_arr(x, n) if not isinstance(x, (Poly, Wrapped)) else Arr([[self.scalar(x, n)]], 2) for x in r]
                    parts = [p_ if p_.ndim == 2 else Arr([list(p_.data)], 2) for p_ in parts]
                    h = parts[0].shape[0]
                    if any(p_.shape[0] != h for p_ in parts):
                        raise PathRaise("ValueError(np.block shapes)", self.where(n))
                    for i in range(h):
                        out.append(sum((p_.data[i] for p_ in parts), []))
                return Arr(out, 2)
            if isinstance(rows, list):
                parts = [self.to_arr(x, n) if not isinstance(x, (Poly, Wrapped)) else Arr([self.scalar(x, n)], 1) for x in rows]
                if all(p_.ndim == 1 for p_ in parts):
                    return Arr([x for p_ in parts for x in p_.data], 1)
                if all(p_.ndim == 2 for p_ in parts):
                    return Arr([sum((p_.data[i] for p_ in parts), []) for i in range(parts[0].shape[0])], 2)
        if name == "einsum":
            return self.einsum(args[0], [self.to_arr(a, n) if not isinstance(a, (Poly, Wrapped)) else a for a in args[1:]], n)
        if name in ("stack", "column_stack", "row_stack"):
            parts = [self.to_arr(x, n) if not isinstance(x, (Poly, Wrapped)) else Arr([self.scalar(x, n)], 1) for x in self.iterate(args[0], n)]
            axis = self.intval(kw["axis"], n) if "axis" in kw else (self.intval(args[1], n) if len(args) > 1 else 0)
            if name == "row_stack" or (name == "stack" and axis == 0):
                if all(p_.ndim == 1 for p_ in parts):
                    return Arr([list(p_.data) for p_ in parts], 2)
                if name == "stack" and parts and all(p_.ndim == 2 and p_.shape == parts[0].shape for p_ in parts):
                    return Arr3([p_.copy() for p_ in parts])
            if name == "column_stack" or (name == "stack" and axis in (1, -1)):
                if all(p_.ndim == 1 for p_ in parts):
                    return Arr([list(r) for r in zip(*[p_.data for p_ in parts])], 2)
                if name == "column_stack" and all(p_.ndim in (1, 2) for p_ in parts):
                    cols = [p_ if p_.ndim == 2 else Arr([[x] for x in p_.data], 2) for p_ in parts]
                    return Arr([sum((c.data[i] for c in cols), []) for i in range(cols[0].shape[0])], 2)
            raise self.unsupported("np.%s of these shapes" % name, n)
        if name == "linalg.multi_dot":
            mats = [self.to_arr(x, n) for x in self.iterate(args[0], n)]
            acc = mats[0]
            for m_ in mats[1:]:
                acc = self.dot(acc, m_, n)
            return acc
        if name in ("triu", "tril"):
            a = self.to_arr(args[0], n)
            k_ = self.intval(args[1], n) if len(args) > 1 else (self.intval(kw["k"], n) if "k" in kw else 0)
            keep = (lambda i, j: j - i >= k_) if name == "triu" else (lambda i, j: j - i <= k_)
            return Arr([[x if keep(i, j) else Poly() for j, x in enumerate(r)] for i, r in enumerate(a.data)], 2)
        if name == "fill_diagonal":
            a = args[0]
            if isinstance(a, Arr) and a.ndim == 2:
                k_ = min(a.shape)
                if isinstance(args[1], (list, tuple, Arr)):
                    vals_ = self.to_arr(args[1], n).flat()
                    if len(vals_) < k_:
                        vals_ = (vals_ * k_)[:k_]       # numpy repeats a shorter value sequence
                else:
                    vals_ = [self.scalar(args[1], n)] * k_
                for i in range(k_):
                    a.data[i][i] = vals_[i]
                self.after_write(a)
                return None
        if name == "diag_indices":
            k_ = self.intval(args[0], n)
            return IndexSet([(i, i) for i in range(k_)])
        if name == "isclose" and False:
            pass
        if name == "array_equal":
            a, b = self.to_arr(args[0], n), self.to_arr(args[1], n)
            if a.shape != b.shape:
                return False
            fa, fb = a.flat(), b.flat()
            if all(isinstance(x, (Poly, Wrapped)) for x in fa + fb):
                # one decision for the whole comparison (the sum of squared differences vanishes exactly when the arrays are equal)
                return not self.any_nonzero([self.scalar(x, n) - self.scalar(y, n) for x, y in zip(fa, fb)], n)
            return all(self.equal(x, y, n) for x, y in zip(fa, fb))
        if name == "float64":
            return self.scalar(args[0], n)
        if name == "isscalar":
            return isinstance(args[0], Poly)
        raise self.unsupported("numpy/math function %s" % name, n)

    def einsum(self, spec, ops, n):
        import itertools as _it
        if not isinstance(spec, str):
            raise self.unsupported("einsum with non-literal subscripts", n)
        spec = spec.replace(" ", "")
        if "..." in spec:
            raise self.unsupported("einsum with ellipsis", n)
        if "->" in spec:
            ins, out = spec.split("->")
        else:
            ins = spec
            letters = [c for c in ins if c != ","]
            out = "".join(sorted(c for c in set(letters) if letters.count(c) == 1))
        ins = ins.split(",")
        if len(ins) != len(ops):
            raise PathRaise("ValueError(einsum operands)", self.where(n))
        dims = {}
        for sub, op in zip(ins, ops):
            shp = op.shape if isinstance(op, Arr) else ()
            if len(sub) != len(shp):
                raise PathRaise("ValueError(einsum subscripts do not match operand)", self.where(n))
            for c, d in zip(sub, shp):
                if dims.setdefault(c, d) != d:
                    raise PathRaise("ValueError(einsum dimension mismatch)", self.where(n))
        summed = [c for c in dims if c not in out]

        def elem(op, sub, idx):
            if not isinstance(op, Arr):
                return self.scalar(op, n)
            if op.ndim == 1:
                return op.data[idx[sub[0]]]
            return op.data[idx[sub[0]]][idx[sub[1]]]

        def value(fixed):
            acc = Poly()
            for combo in _it.product(*[range(dims[c]) for c in summed]):
                idx = dict(fixed)
                idx.update(zip(summed, combo))
                term = Poly.const(1)
                for op, sub in zip(ops, ins):
                    term = term * elem(op, sub, idx)
                    if not term.t:
                        break
                acc = acc + term
            return acc
        if len(out) == 0:
            return value({})
        if len(out) == 1:
            return Arr([value({out[0]: i}) for i in range(dims[out[0]])], 1)
        if len(out) == 2:
            return Arr([[value({out[0]: i, out[1]: j}) for j in range(dims[out[1]])] for i in range(dims[out[0]])], 2)
        raise self.unsupported("einsum with a result of more than 2 dimensions", n)

    def absval(self, v, n):
        if isinstance(v, Arr):
            return v.map(lambda x: self.absval(x, n))
        if isinstance(v, Quot) and isinstance(v.num, Poly) and isinstance(v.den, Poly):
            if self.known_positive(v.den):
                return Quot(self.absval(v.num, n), v.den)
            if self.known_positive(-v.den):
                return Quot(self.absval(v.num, n), -v.den)
            pr = v.num * v.den
            return v if self.decide_sign(pr, {0, 1}, "(%s)/(%s) >= 0" % (v.num.short(30), v.den.short(30))) else Quot(-v.num, v.den)
        x = self.scalar(v, n)
        c = x.const_value()
        if c is not None:
            return Poly.const(abs(Fraction(c)))
        return x if self.decide_sign(x, {0, 1}, "%s >= 0" % x.short(40)) else -x

    def maybe_arr(self, v, n):
        if isinstance(v, (list, tuple)):
            return self.to_arr(v, n)
        return v


class _Lit(ast.AST):
    """AST node that evaluates to an already computed value."""
    _fields = ()

    def __init__(self, value):
        self.value = value
        self.lineno = 0


class SuperRef:
    def __init__(self, clsname, slf):
        self.clsname, self.slf = clsname, slf


def _super_attr(interp, v, a, n):
    mro = interp.pkg.mro(v.slf.name if isinstance(v.slf, ClassRef) else interp.type_of(v.slf, n).name)
    if v.clsname not in mro:
        raise interp.unsupported("super() outside the MRO", n)
    if a in ("__init_subclass__", "__class_getitem__") and not any(a in interp.pkg.classes[c].methods for c in mro[mro.index(v.clsname) + 1:]):
        return Opaque("noop")
    for c in mro[mro.index(v.clsname) + 1:]:
        ci = interp.pkg.classes[c]
        if a in ci.methods:
            fn = ci.methods[a][0]
            return Opaque("superbound", fn, v.slf)
    if a == "__init__":
        return Opaque("noop")
    raise interp.unsupported("super().%s not found" % a, n)


_orig_ev_attribute = Interp.ev_Attribute


def _ev_attribute_with_super(self, n, env):
    if isinstance(n.value, ast.Call) and isinstance(n.value.func, ast.Name) and n.value.func.id == "super" and "super" not in env:
        v = self.ev(n.value, env)
        if isinstance(v, SuperRef):
            return _super_attr(self, v, n.attr, n)
    return _orig_ev_attribute(self, n, env)


Interp.ev_Attribute = _ev_attribute_with_super

_orig_ev_call = Interp.ev_Call


def _ev_call_with_super(self, n, env):
    if isinstance(n.func, ast.Attribute) and isinstance(n.func.value, ast.Call) and isinstance(n.func.value.func, ast.Name) \
            and n.func.value.func.id == "super":
        f = self.ev(n.func, env)
        if isinstance(f, Opaque) and f.kind == "superbound":
            args = [self.ev(a, env) for a in n.args]
            kw = {k.arg: self.ev(k.value, env) for k in n.keywords}
            if n.func.attr == "__new__":
                return self.call_function(f.payload[0], args, kw)       # __new__ is static: the class is passed explicitly
            return self.call_function(f.payload[0], [f.payload[1]] + args, kw)
        if isinstance(f, Opaque) and f.kind == "noop":
            return None
    return _orig_ev_call(self, n, env)


Interp.ev_Call = _ev_call_with_super


_GEN_CACHE = {}


def _is_generator(fn):
    k = id(fn)
    if k not in _GEN_CACHE:
        found = False
        todo = list(fn.body)
        while todo and not found:
            x = todo.pop()
            if isinstance(x, (ast.Yield, ast.YieldFrom)):
                found = True
            elif not isinstance(x, (ast.FunctionDef, ast.Lambda, ast.ClassDef)):
                todo.extend(ast.iter_child_nodes(x))
        _GEN_CACHE[k] = found
    return _GEN_CACHE[k]


def _elem(x):
    return x if isinstance(x, Quot) else as_poly(x)


def _dotp(r, c):
    acc = Poly()
    for x, y in zip(r, c):
        if x.t and y.t:
            acc = acc + x * y
    return acc


OPNAME = {ast.Lt: "<", ast.LtE: "<=", ast.Gt: ">", ast.GtE: ">=", ast.Eq: "==", ast.NotEq: "!="}
ARR_METHODS = {"diagonal", "setdiag", "trace", "eliminate_zeros", "sum_duplicates", "setflags", "tobytes", "tostring", "__array__", "squeeze", "conj", "conjugate", "all", "item", "max", "min", "fill", "tocsr", "tocsc", "tolil", "todense", "toarray", "tocoo", "any", "view", "copy", "dot", "transpose", "flatten", "ravel", "tolist", "astype", "reshape", "sum", "round"}
BUILTIN_NAMES = {"complex", "object", "hash", "format", "divmod", "slice", "map", "filter", "sorted", "getattr", "hasattr", "setattr", "next", "iter", "id", "abs", "bool", "open", "str", "repr", "set", "frozenset", "dict", "isinstance", "issubclass", "type", "len", "range", "zip", "enumerate", "reversed", "list", "tuple",
                 "all", "any", "sum", "max", "min", "super", "print", "round", "int", "abs", "NotImplementedError"}


# ----------------------------------------------------------------------------------------------- exploration
class PathResult:
    def __init__(self, conds, value=None, raised=None, events=None, wrap_uses=0, thin=False):
        self.conds, self.value, self.raised, self.events, self.wrap_uses, self.thin = conds, value, raised, events or [], wrap_uses, thin


EXPLORE_SECONDS = float(os.environ.get("GSVERIF_EXPLORE_SECONDS", "240"))


def explore(pkg, run, hook=None, max_paths=256):
    """Enumerate all paths of `run(interp)` (trace partitioning by re-interpretation with a decision script)."""
    import time as _time
    results = []
    stack = [[]]
    t_end = _time.time() + EXPLORE_SECONDS
    while stack:
        if results and _time.time() > t_end:
            e_ = Unsupported("path exploration exceeded %.0f s after %d paths" % (EXPLORE_SECONDS, len(results)))
            e_.partial = results
            raise e_
        script = stack.pop()
        it = Interp(pkg, script=script, hook=hook)
        try:
            try:
                val = run(it)
                res = PathResult(list(it.conds), value=val, events=it.events, wrap_uses=it.wrap_uses, thin=it.thin)
            except PathRaise as e:
                res = PathResult(list(it.conds), raised=e, events=it.events, wrap_uses=it.wrap_uses, thin=it.thin)
            res.decided = list(it.decided)
        finally:
            for g_ in it.live_generators:
                g_.close()       # abandoned generators: let their threads unwind
        results.append(res)
        if len(results) > max_paths:
            e_ = Unsupported("more than %d paths" % max_paths)
            e_.partial = results           # what was explored so far (a failing path among them is still a failing path)
            raise e_
        for k in range(len(script), len(it.script)):
            stack.append(it.script[:k] + [False])
    return results


# ----------------------------------------------------------------------------------------------- symbolic inputs
POSE_LEN = {"PoseR2": 2, "PoseR3": 3, "PoseSE2": 3, "PoseSE3": 7}


def pose_len(pkg, cls):
    """Ambient length of a pose class, derived from its own __new__ when possible (falls back to the table)."""
    return POSE_LEN[cls]


def int_const(it, value):
    """A Python int handed to the analysed code by the harness (an id, a count)."""
    return it.as_int(Poly.const(value))


def param_const(it, value):
    """An integer argument of the scenario (max_iter, ...): a constant here, but a *parameter* of the analysed code -- comparing a
    loop counter with it is not a hard-wired threshold."""
    p_ = Poly(dict(Poly.const(value).t))
    it.taint[id(p_)] = ("param", p_)
    return p_


def base_variables(p):
    """Names of the input symbols polynomial p depends on, looking through sqrt / norm atoms and cos / sin of angles."""
    out, todo, seen = set(), [p], set()
    while todo:
        q = todo.pop()
        for v in q.variables():
            if v in seen:
                continue
            seen.add(v)
            i = poly.var_index(v)
            if i in poly.R.atom_arg:
                todo.append(poly.R.atom_arg[i][1])
            elif v.startswith(("cos(", "sin(")) and v.endswith(")"):
                out.add(v[4:-1])
            else:
                out.add(v)
    return out


def sym_pose(cls, name, unit=False):
    n = POSE_LEN[cls]
    comps = [Poly.var("%s[%d]" % (name, i)) for i in range(n)]
    if cls == "PoseSE2":
        poly.register_angle("%s[2]" % name)
    if cls == "PoseSE3" and unit:
        poly.unit_quaternion(tuple("%s[%d]" % (name, i) for i in (3, 4, 5, 6)))
    return Pose(cls, comps)


def sym_vec(name, n, angle_idx=()):
    for i in angle_idx:
        poly.register_angle("%s[%d]" % (name, i))
    return Arr([Poly.var("%s[%d]" % (name, i)) for i in range(n)], 1)


def sym_mat(name, r, c):
    return Arr([[Poly.var("%s[%d,%d]" % (name, i, j)) for j in range(c)] for i in range(r)], 2)


def point_eval(p, zero_vars):
    """Evaluate polynomial p at the point where the variables in zero_vars are 0 (their cos -> 1, sin -> 0),
    resolving sqrt/norm atoms whose argument becomes a constant perfect square there.
    Returns a Poly in the remaining variables, or raises Unsupported."""
    import math
    mapping = {}
    for v in zero_vars:
        mapping[v] = 0
        if v in poly.R.angles:
            mapping["cos(%s)" % v] = 1
            mapping["sin(%s)" % v] = 0
    # atoms: iterate because atoms may depend on atoms
    for _ in range(4):
        changed = False
        for i, (kind, arg) in list(poly.R.atom_arg.items()):
            name = poly.R.vars[i]
            if name in mapping:
                continue
            a0 = arg.subs(mapping)
            c = a0.const_value()
            if c is not None:
                f = Fraction(c)
                if f < 0:
                    raise Unsupported("atom %s has negative argument at the evaluation point" % name)
                a, b = math.isqrt(f.numerator), math.isqrt(f.denominator)
                if a * a != f.numerator or b * b != f.denominator:
                    raise Unsupported("atom %s is irrational at the evaluation point" % name)
                mapping[name] = Fraction(a, b)
                changed = True
        if not changed:
            break
    return p.subs(mapping), mapping


def diff_at_zero(p, var, zero_vars):
    """d p / d var evaluated where all zero_vars are 0.

    sqrt/norm atoms a (a**2 = arg) have da/dvar = (d arg/d var) / (2a); this is only used where d arg/d var
    vanishes at the evaluation point and a is non-zero there, so that the term contributes 0 -- otherwise the
    expression is not (known to be) differentiable there and the analysis gives up."""
    zero_vars = list(zero_vars)
    pvars = {v for m in p.t for v, _ in m}
    for i, (kind, arg) in poly.R.atom_arg.items():
        if i not in pvars:
            continue
        darg = arg.diff(var)
        d0, mapping = point_eval(darg, zero_vars)
        if not d0.is_zero():
            raise Unsupported("atom %s has a non-vanishing derivative at the evaluation point" % poly.R.vars[i])
        a0, _ = point_eval(Poly.var(poly.R.vars[i]), zero_vars)
        if a0.is_zero() or a0.const_value() is None:
            raise Unsupported("atom %s is zero/undetermined at the evaluation point (not differentiable)" % poly.R.vars[i])
    d = p.diff(var)
    return point_eval(d, zero_vars)[0]
