"""Rules over Graph.optimize, evaluated on the fixpoint of gsverif.optim.OptimizeAnalysis."""
import ast

from . import poly
from .poly import Poly
from .optim import (OptimizeAnalysis, TermEnv, documented_predicate, normalise_predicate, self_reads_writes,
                    ALLOWED_EXPOSED_READS, unique_reaching_def, unp, header_of)
from .effects import path_str, last_attr
from .model import AnalysisError, fn_label

_CACHE = {}


class _NoTypestate:
    """Stand-in when the control-flow analysis of Graph.optimize cannot follow the way the function is written."""

    def __init__(self, why):
        self.failed = why
        self.findings = []
        self.n_verbose = self.n_fixed_stores = self.n_pose_stores = 0
        self.exposed_reads, self.role, self.return_nodes, self.main_header = [], {}, [], None

    def states_at(self, n):
        return []


def analyse(pkg):
    """The control-flow (typestate) analysis of Graph.optimize plus its bounded all-paths translation (gsverif.optsem).
    Never raises: `oa.failed` tells why the typestate could not be built; `oa.semantic` lists the translation results."""
    if id(pkg) in _CACHE:
        return _CACHE[id(pkg)]
    poly.reset()
    try:
        oa = OptimizeAnalysis(pkg)
        oa.solve()
        rules_structure(oa)
        rules_T1(oa)
        rules_T2(oa)
        rules_T3(oa)
        rules_T4(oa)
        rules_T5(oa)
        rules_fixed(oa)
        rules_solve_update(oa)
        semantic_update_check(oa)
        oa.failed = None
    except AnalysisError as e:
        oa = _NoTypestate(str(e))
    except RecursionError:
        oa = _NoTypestate("recursion limit while analysing Graph.optimize")
    oa.semantic = run_semantic(pkg)
    _CACHE[id(pkg)] = oa
    return oa


def run_semantic(pkg):
    import re
    from . import optsem
    from .algebra import run_tasks
    fn = pkg.method("Graph", "optimize")
    where = "%s:%d" % (fn._gs_module, fn.lineno)
    ts = optsem.tasks("", "optimize-semantics", where)
    results = run_tasks(pkg, ts)
    # size / iteration thresholds in the analysed code: aim scenarios at both sides of each constant
    size_c, iter_c = set(), set()
    for r in results:
        if r.get("status") == "error":
            for m_ in re.finditer(r"(len\(\.\.\.\)|a collection size|an iteration counter)[^;]*?(?:compared with|modulo / divided by) (\d+)", r.get("detail", "")):
                (iter_c if "iteration" in m_.group(1) else size_c).add(int(m_.group(2)))
    size_c = sorted(c for c in size_c if 2 <= c <= 120)[:2]
    iter_c = sorted(c for c in iter_c if 1 <= c <= 12)[:2]
    if size_c or iter_c:
        only_thresholds = all(r.get("status") != "error" or "a finite scenario cannot speak for larger inputs" in r.get("detail", "") for r in results)
        if only_thresholds:
            ts = optsem.directed_tasks("", "optimize-semantics", where, size_c, iter_c)
            results = run_tasks(pkg, ts)
    out = []
    for t, r in zip(ts, results):
        kinds = set(re.findall(r"\[(solve|pose|fixed|stopping|report|verbose|state)\]", r["detail"])) if r["status"] == "violation" else set()
        if r["status"] == "violation" and not kinds:
            kinds = {"solve", "pose", "fixed", "stopping", "report", "verbose", "state"}     # raises, non-exact operations, ...
        out.append(dict(name=t[0].split("/optimize-semantics/")[1], status=r["status"], detail=r["detail"], kinds=kinds, paths=r["paths"],
                        where=where, stats=r["stats"]))
    return out


# which kinds of deviation of optimize() from the reference semantics break which property
PROP_KINDS = {
    "C03": {"solve", "pose", "fixed"},
    "C04": {"solve", "pose", "stopping", "report"},
    "C06": {"fixed", "pose", "solve"},
    "C07": {"solve", "pose", "stopping"},
    "C08": {"stopping"},
    "C11": {"pose"},
    "C12": {"stopping", "report", "verbose", "state"},
    "C15": {"fixed"},
}


# typestate findings that are facts about what a statement *does* (from the effect analysis), not about how the loop is written: a
# pose mutated in place or written outside the boxplus update, the solver's step rescaled.  They stand even when the translation of
# optimize() is undecided; every other typestate finding is then undecided too.
STRONG_TYPESTATE_KEYS = ("C03-d/update-loop-extra", "C03-d/no-other-pose-write", "C03-d/step-modified",
                         "C04-ii/C03-d/update-loop-extra", "C04-ii/C03-d/no-other-pose-write", "C04-ii/C03-d/step-modified",
                         "C07-structure/C03-d/update-loop-extra", "C07-structure/C03-d/no-other-pose-write", "C07-structure/C03-d/step-modified",
                         "C11-Q2/C03-d/update-loop-extra", "C11-Q2/C03-d/no-other-pose-write", "C11-Q2/C03-d/step-modified",
                         "C06-d/optimize/pose-write")

# scenarios that exist for one clause of one property: any deviation on them breaks that property
PROP_SCENARIOS = {"C08": ("twin-graph",)}


def optimize_verdicts(run_, pkg, prop, select, rule_sem=None):
    """Report, for property `prop`, (1) the bounded all-paths translation of optimize() and (2) the typestate findings chosen by
    `select(finding) -> (key, rule) | None`.  When every translated scenario agrees with the reference semantics, a typestate
    *violation* is not believed (its recognisers know only some ways of writing the loop) and is recorded as a note; when the
    translation is undecided the typestate findings stand.  Returns the number of rule instances."""
    oa = analyse(pkg)
    kinds = PROP_KINDS[prop]
    sem = oa.semantic
    all_kinds = {"solve", "pose", "fixed", "stopping", "report", "verbose", "state"}
    def relevant(x):
        return bool(x["kinds"] & kinds) or (any(tag in x["name"] for tag in PROP_SCENARIOS.get(prop, ())) and bool(x["kinds"] & all_kinds))
    all_ok = bool(sem) and all(x["status"] == "ok" for x in sem)
    n = 0
    rule_sem = rule_sem or "%s-optimize-semantics" % prop
    for x in sem:
        key = "%s/optimize-semantics/%s" % (prop, x["name"])
        if not run_.wants(key):
            continue
        if x["status"] == "ok":
            n += 1
            run_.ok(key, rule_sem, sample=dict(obligation=key, paths=x["paths"], **x["stats"]))
        elif x["status"] == "violation" and relevant(x):
            n += 1
            parts = [p_ for p_ in x["detail"].split(" || ") if any("[%s]" % k in p_ for k in kinds)] or [x["detail"]]
            run_.violation(key, rule_sem, "optimize() deviates from the reference semantics: " + " || ".join(parts)[:1500], where=x["where"])
        elif x["status"] == "violation":
            run_.note("%s: deviation of another kind (%s), not a clause of %s" % (key, ",".join(sorted(x["kinds"])), prop))
        else:
            run_.note("%s: translation undecided (%s)" % (key, x["detail"][:160]))
    run_.extra["optimize_semantics"] = dict(scenarios=len(sem), ok=sum(1 for x in sem if x["status"] == "ok"),
                                            violations=sum(1 for x in sem if x["status"] == "violation"),
                                            undecided=sum(1 for x in sem if x["status"] == "error"), typestate=oa.failed or "built")
    if oa.failed:
        if all_ok:
            run_.note("typestate of Graph.optimize not built (%s); decided by the translation alone" % oa.failed)
        elif not any(x["status"] == "violation" and relevant(x) for x in sem):
            run_.error("Graph.optimize: %s; translation: %s" % (oa.failed, "; ".join("%s=%s" % (x["name"], x["status"]) for x in sem if x["status"] != "ok")[:300]))
        return n
    overridden = 0
    for f in oa.findings:
        kr = select(f)
        if kr is None:
            continue
        key, rule = kr
        if f.ok:
            n += 1
            run_.ok(key, rule)
        elif all_ok:
            overridden += 1
            run_.note("typestate finding %s not believed (every translated run of optimize() agrees with the reference semantics): %s" % (key, f.what[:160]))
        elif getattr(f, "undecided", False) or (not any(x["status"] == "violation" for x in sem) and not f.key.startswith(STRONG_TYPESTATE_KEYS)):
            # the translation of optimize() is undecided (a construct outside the modelled fragment) and the typestate, whose
            # recognisers know only some ways of writing the loop, objects: that is no verdict either way
            run_.error("%s: %s (typestate finding; the translation of optimize() is undecided: %s)" % (
                key, f.what[:200], "; ".join("%s: %s" % (x["name"], x["detail"][:80]) for x in sem if x["status"] == "error")[:200]))
        else:
            n += 1
            run_.violation(key, rule, f.what, where=f.where)
    run_.extra["typestate_findings_overridden"] = overridden
    return n


SWEEP_SYNTACTIC_KEYS = ("C03-d/update-covers-all-vertices", "C03-d/update-step", "C06-d/optimize/update-loop", "C03-d/update-loop-extra")


def semantic_update_check(oa):
    """Decide the update-loop rules semantically (translation of the pose-writing statements on graph shapes with a symbolic dx).
    When that succeeds it *replaces* the verdicts of the syntactic recognisers for the same rules (which only know a few idioms);
    when the translation is not possible the syntactic verdicts stand."""
    from .assembly import SCENARIOS, update_sweep_obligation
    from . import poly as _poly
    cfg = oa.cfg
    sweeps = [cfg.stmt[n] for n in sorted(oa.sweep_nodes)]
    dx_names = set()
    for n in oa.solve_nodes:
        st = cfg.stmt[n]
        if isinstance(st, ast.Assign):
            for t in st.targets:
                if isinstance(t, ast.Name):
                    dx_names.add(t.id)
    if not sweeps or not dx_names:
        return
    # only statements inside the main loop (the per-iteration update)
    inside = {id(x) for x in ast.walk(oa.main_loop)}
    sweeps = [st for st in sweeps if id(st) in inside]
    from .assembly import Scenario
    mixed = ["PoseSE3", "PoseR2", "PoseSE2", "PoseR3"]
    sweep_scns = [s for s in SCENARIOS if s.name in ("free", "fix-first", "fixed-two", "all-fixed")] + [
        Scenario("mixed-free", mixed, [(0, 3), (2, 1)]), Scenario("mixed-fix-first", mixed, [(0, 3), (2, 1)], fix_first_pose=True),
        Scenario("mixed-fixed-middle", mixed, [(0, 3), (2, 1)], fixed=[1, 2]), Scenario("mixed-fixed-last", mixed[::-1], [(0, 3), (2, 1)], fixed=[3]),
        # a free vertex that was created from the same pose object as a fixed one: the update must not reach the fixed pose
        Scenario("shared-pose-object-fixed-free", ["PoseSE2", "PoseR2", "PoseSE2"], [(0, 1), (2, 1)], fixed=[0], alias=(0, 2)),
        Scenario("shared-pose-object-free-fixed", ["PoseR2", "PoseSE2", "PoseR2"], [(0, 1), (2, 1)], fixed=[2], alias=(0, 2))]
    results = []
    for scn in sweep_scns:
        _poly.reset()
        results.append((scn, update_sweep_obligation(scn, sweeps, dx_names)(oa.pkg)))
    _poly.reset()
    oa.semantic_update = [(scn.name, r["status"], r["detail"][:300]) for scn, r in results]
    if any(r["status"] == "error" for _, r in results):
        return
    bad = [(scn, r) for scn, r in results if r["status"] == "violation"]
    for f in oa.findings:
        if f.key.startswith(SWEEP_SYNTACTIC_KEYS):
            f.ok = True
            f.what = ""
    anchor = sweeps[0]
    for scn, r in results:
        oa.add("C03-d/update-semantic/%s" % scn.name, "C03-d-solve-and-update", r["status"] == "ok",
               "pose update on graph shape `%s`: %s" % (scn.name, r["detail"][:400]), anchor)
        if scn.fixed or scn.ffp:
            oa.add("C06-d/optimize/update-semantic/%s" % scn.name, "C06-d-fixed-pose-never-written", r["status"] == "ok",
                   "pose update on graph shape `%s`: %s" % (scn.name, r["detail"][:400]), anchor)


def report(run_, oa, prefixes):
    n = 0
    for f in oa.findings:
        if not f.rule.startswith(tuple(prefixes)):
            continue
        n += 1
        if f.ok:
            run_.ok(f.key, f.rule)
        elif getattr(f, "undecided", False):
            run_.error("%s: %s" % (f.key, f.what[:200]))
        else:
            run_.violation(f.key, f.rule, f.what, where=f.where)
    return n


# ------------------------------------------------------------------------------------------------ structure
def rules_structure(oa):
    if not oa.compute_nodes:
        raise AnalysisError("anchor vanished: optimize() never recomputes chi^2 (no call that assigns self._chi2)")
    if not oa.solve_nodes:
        raise AnalysisError("anchor vanished: optimize() contains no linear solve")
    if not oa.sweep_nodes:
        raise AnalysisError("anchor vanished: optimize() contains no pose update")
    if len(oa.return_nodes) < 1:
        raise AnalysisError("anchor vanished: optimize() has no return")


def field_store(oa, st, field):
    """Is statement `st` an assignment `<ret>....<field> = value`?  Returns (target, value) or None."""
    if not isinstance(st, ast.Assign) or len(st.targets) != 1:
        return None
    t = st.targets[0]
    if isinstance(t, ast.Attribute) and t.attr == field:
        root = t.value
        while isinstance(root, (ast.Attribute, ast.Subscript)):
            root = root.value
        if isinstance(root, ast.Name) and root.id == oa.ret_var:
            return t, st.value
        if isinstance(root, ast.Name) and root is t.value and field in ("chi2", "rel_diff") and root.id not in ("self",):
            return t, st.value      # a local alias of an IterationResult object (decided by its R_* tags)
    return None


# ------------------------------------------------------------------------------------------------ T1 chi^2 freshness
def rules_T1(oa):
    cfg = oa.cfg
    n_init = n_final = n_iter = 0
    for n in sorted(cfg.reachable()):
        st = cfg.stmt[n]
        if cfg.kind[n] != "stmt":
            continue
        fs = field_store(oa, st, "initial_chi2")
        if fs:
            n_init += 1
            for s in oa.states_at(n):
                oa.add("C12-T1/initial_chi2@%s" % s.phase, "C12-T1-report-fresh", "INIT" in oa.tags_of(s, fs[1]),
                       "initial_chi2 is assigned from `%s`, which is not known to hold chi^2 of the entry state there "
                       "(poses already updated, or not a freshly computed chi^2)" % unp(fs[1]), st)
        fs = field_store(oa, st, "final_chi2")
        if fs:
            n_final += 1
            for s in oa.states_at(n):
                oa.add("C12-T1/final_chi2@%s" % s.phase, "C12-T1-report-fresh", "CUR" in oa.tags_of(s, fs[1]),
                       "final_chi2 is assigned from `%s`, which does not hold chi^2 of the current poses at that point (tags: %s)" % (
                           unp(fs[1]), sorted(oa.tags_of(s, fs[1])) or "none"), st)
        fs = field_store(oa, st, "chi2")
        if fs and (isinstance(fs[0].value, ast.Subscript) or isinstance(fs[0].value, ast.Name)):
            obj = fs[0].value
            okey = oa.var_key(obj)
            states = oa.states_at(n)
            rel = oa.index_from_loopvar(obj)      # iteration_results[i - k] / [max_iter - k]
            if isinstance(obj, ast.Name) and not any(t.startswith("R_") for s in states for v, t in s.tags if v == okey):
                continue     # not an IterationResult object
            n_iter += 1
            for s in states:
                oa.add("C12-T1/iteration.chi2@%s/value" % s.phase, "C12-T1-report-fresh", "CUR" in oa.tags_of(s, fs[1]),
                       "iteration chi2 is assigned from `%s`, which does not hold chi^2 of the current poses there" % unp(fs[1]), st)
                key_s = okey
                if key_s is None and rel is not None:
                    # position from the end = (#objects appended so far) - index ; #objects = i + appends (in the loop) / max_iter (after it)
                    base, k = rel
                    from_end = (s.appends + k) if (base == "loopvar" and s.phase in ("first", "later")) else (k if base == "bound" and s.phase == "post" else None)
                    key_s = {1: "$last", 2: "$last2"}.get(from_end)
                otags = {t for v, t in s.tags if v == key_s} if key_s is not None else set()
                ok = "R_SWEPT" in otags and not s.pristine
                oa.add("C12-T1/iteration.chi2@%s/slot" % s.phase, "C12-T1-report-fresh", ok,
                       "`%s.chi2` is written, but `%s` is not the result object of the iteration whose update produced the current poses "
                       "(object state: %s, pristine=%s)" % (unp(obj), unp(obj), sorted(otags) or "unknown", s.pristine), st)
    if n_init < 1 or n_final < 1 or n_iter < 1:
        raise AnalysisError("anchor vanished: stores to initial_chi2/final_chi2/iteration chi2: %d/%d/%d" % (n_init, n_final, n_iter))
    # at every return: final_chi2 still current, initial_chi2 set from the entry state
    for n in oa.return_nodes:
        st = cfg.stmt[n]
        for s in oa.states_at(n):
            ft = {t for v, t in s.tags if v == "%s.final_chi2" % oa.ret_var}
            it = {t for v, t in s.tags if v == "%s.initial_chi2" % oa.ret_var}
            oa.add("C12-T1/return@%s/final" % s.phase, "C12-T1-report-fresh", "CUR" in ft,
                   "at this return final_chi2 does not hold chi^2 of the returned poses (a pose update follows its computation, "
                   "or it was never assigned on this path)", st)
            oa.add("C12-T1/return@%s/initial" % s.phase, "C12-T1-report-fresh", "INIT" in it,
                   "at this return initial_chi2 does not hold chi^2 of the entry state", st)
            rv = st.value
            oa.add("C12-T1/return@%s/value" % s.phase, "C12-T1-report-fresh", isinstance(rv, ast.Name) and rv.id == oa.ret_var,
                   "optimize() returns something other than its OptimizationResult", st)


# ------------------------------------------------------------------------------------------------ T2 stopping rule
def rules_T2(oa):
    cfg = oa.cfg
    if oa.conv_node is None:
        oa.add("C12-T2/convergence-test", "C12-T2-stopping-rule", False,
               "optimize() has no convergence test that leads to an early return inside the iteration loop", oa.main_loop)
        return
    st = oa.conv_if
    want = documented_predicate()
    for s in oa.states_at(oa.conv_node):
        env = TermEnv(oa, oa.conv_node, s)
        got = normalise_predicate(env, st.test)
        oa.add("C12-T2/early-return-predicate@%s" % s.phase, "C12-T2-stopping-rule", got == want,
               "the early-return test `%s` is not `chi2 <= chi2_prev and (chi2_prev - chi2)/(chi2_prev + eps) < tol` with chi2 = chi^2 "
               "of the current poses and chi2_prev = chi^2 before the last update%s" % (
                   unp(st.test), "" if got is not None else " (operands do not hold those values at the test)"), st)
        oa.add("C12-T2/test-not-in-first-iteration@%s" % s.phase, "C12-T2-stopping-rule", s.phase == "later",
               "the convergence test is evaluated in phase `%s` (it needs the chi^2 of a previous iteration)" % s.phase, st)
    # the True arm must return without touching poses; no return in the first iteration
    for n in oa.return_nodes:
        rst = cfg.stmt[n]
        for s in oa.states_at(n):
            if s.phase == "post":
                continue
            oa.add("C12-T2/early-return@%s" % s.phase, "C12-T2-stopping-rule", s.phase == "later" and s.tested == "true" and s.sweeps == 0,
                   "early return in phase %s with convergence test outcome `%s` and %d pose update(s) in that iteration" % (s.phase, s.tested, s.sweeps), rst)
    # every later iteration performs the test before solving; a met criterion must not continue iterating
    for n in oa.solve_nodes:
        for s in oa.states_at(n):
            if s.phase == "later":
                oa.add("C12-T2/test-before-solve", "C12-T2-stopping-rule", s.tested == "false",
                       "in iterations after the first the linear solve is reached with convergence test outcome `%s` "
                       "(the run must stop at the first iteration that meets the criterion and only then)" % s.tested, cfg.stmt[n])
            if s.phase == "first":
                oa.add("C12-T2/first-iteration-solves", "C12-T2-stopping-rule", s.tested == "no",
                       "first iteration: convergence test outcome `%s` before the first step" % s.tested, cfg.stmt[n])
    # the compute precedes the test in each iteration: self._chi2 CUR at the test is part of the predicate check above.
    # fall-through: `converged` is the same predicate evaluated on the final state; early return: constant True
    n_conv = 0
    for n in sorted(cfg.reachable()):
        cst = cfg.stmt[n]
        if cfg.kind[n] != "stmt":
            continue
        fs = field_store(oa, cst, "converged")
        if not fs:
            continue
        n_conv += 1
        for s in oa.states_at(n):
            if s.phase == "post":
                env = TermEnv(oa, n, s)
                got = normalise_predicate(env, fs[1])
                oa.add("C12-T2/converged@post", "C12-T2-stopping-rule", got == want,
                       "after the iteration limit `converged` is `%s`, not the documented criterion evaluated on the final state" % unp(fs[1]), cst)
            else:
                ok = isinstance(fs[1], ast.Constant) and fs[1].value is True and s.tested == "true"
                oa.add("C12-T2/converged@%s" % s.phase, "C12-T2-stopping-rule", ok,
                       "`converged = %s` inside the loop with convergence test outcome `%s`" % (unp(fs[1]), s.tested), cst)
    for n in oa.return_nodes:
        if any(s.phase == "post" for s in oa.states_at(n)):
            # on the fall-through path converged must have been assigned after the loop
            post_assign = [m for m in cfg.reachable() if cfg.kind[m] == "stmt" and field_store(oa, cfg.stmt[m], "converged")
                           and any(s.phase == "post" for s in oa.states_at(m))]
            oa.add("C12-T2/converged-assigned@post", "C12-T2-stopping-rule", bool(post_assign),
                   "after the iteration limit `converged` is never assigned (stays at its default)", cfg.stmt[n])


# ------------------------------------------------------------------------------------------------ T3 bookkeeping
def rules_T3(oa):
    cfg = oa.cfg
    h = oa.main_header
    for s in oa.states_at(h):
        if s.phase in ("first", "later"):   # arriving over the back edge
            oa.add("C12-T3/one-update-per-iteration@%s" % s.phase, "C12-T3-bookkeeping", s.sweeps == 1,
                   "an iteration that continues performs %s pose-update sweeps (expected exactly one)" % ("no" if s.sweeps == 0 else s.sweeps), oa.main_loop)
            oa.add("C12-T3/one-result-per-iteration@%s" % s.phase, "C12-T3-bookkeeping", s.appends == 1,
                   "an iteration appends %d IterationResult objects (expected exactly one)" % s.appends, oa.main_loop)
    n_num = 0
    for n in sorted(cfg.reachable()):
        st = cfg.stmt[n]
        if cfg.kind[n] != "stmt":
            continue
        fs = field_store(oa, st, "num_iterations")
        if not fs:
            continue
        n_num += 1
        for s in oa.states_at(n):
            if s.phase == "post":
                ok = ast.dump(fs[1]) == ast.dump(oa.loop_bound)
                oa.add("C12-T3/num_iterations@post", "C12-T3-bookkeeping", ok,
                       "after the loop num_iterations = `%s`, but `%s` update steps were performed" % (unp(fs[1]), unp(oa.loop_bound)), st)
            else:
                ok = isinstance(fs[1], ast.Name) and fs[1].id == oa.loop_var and s.sweeps == 0
                oa.add("C12-T3/num_iterations@%s" % s.phase, "C12-T3-bookkeeping", ok,
                       "at the early return num_iterations = `%s`, but `%s` update steps were performed" % (unp(fs[1]), oa.loop_var), st)
                oa.add("C12-T3/results-at-early-return", "C12-T3-bookkeeping", s.appends == 1,
                       "at the early return %d IterationResult objects were appended in the final (incomplete) iteration" % s.appends, st)
    if n_num < 2:
        oa.add("C12-T3/num_iterations-assigned", "C12-T3-bookkeeping", False,
               "num_iterations is assigned at %d site(s); both the early return and the fall-through must set it" % n_num, oa.fn)
    for n in oa.return_nodes:
        for s in oa.states_at(n):
            key = "%s.num_iterations" % oa.ret_var
            # assigned on this path?  (var_key tracking: tags are chi2-only, so use a must-assigned scan instead)
    # every return must be dominated by a num_iterations store
    # every path from the entry to a return passes through a num_iterations store (store nodes removed => return unreachable)
    stores = {n for n in cfg.reachable() if cfg.kind[n] == "stmt" and field_store(oa, cfg.stmt[n], "num_iterations")}
    seen, todo = {cfg.entry}, [cfg.entry]
    while todo:
        m = todo.pop()
        for m2, _lab in cfg.succ.get(m, []):
            if m2 not in seen and m2 not in stores:
                seen.add(m2)
                todo.append(m2)
    for n in oa.return_nodes:
        oa.add("C12-T3/num_iterations-before-return@%d" % oa.return_nodes.index(n), "C12-T3-bookkeeping",
               n not in seen, "a return is reachable without num_iterations having been set", cfg.stmt[n])


# ------------------------------------------------------------------------------------------------ T4 verbose is inert
def pure_print_arg(e):
    for x in ast.walk(e):
        if isinstance(x, ast.Call):
            f = x.func
            ok = (isinstance(f, ast.Attribute) and f.attr == "format" and isinstance(f.value, ast.Constant)) or \
                 (isinstance(f, ast.Name) and f.id in ("str", "repr", "len", "float", "int", "abs", "round", "format"))
            if not ok:
                return False
        if isinstance(x, (ast.NamedExpr, ast.Await, ast.Yield, ast.YieldFrom)):
            return False
    return True


def rules_T4(oa):
    fn = oa.fn
    n_stmts = 0
    # (1) every statement control-dependent on `verbose` is a print of side-effect-free arguments
    for st in ast.walk(fn):
        if isinstance(st, ast.If) and any(isinstance(x, ast.Name) and x.id == "verbose" for x in ast.walk(st.test)):
            pure_test = isinstance(st.test, ast.Name) or (isinstance(st.test, ast.UnaryOp) and isinstance(st.test.op, ast.Not) and isinstance(st.test.operand, ast.Name))
            oa.add("C12-T4/verbose-test@%d" % n_stmts, "C12-T4-verbose-inert", pure_test,
                   "`verbose` is combined with other conditions in `%s`" % unp(st.test), st)
            for b in st.body + st.orelse:
                n_stmts += 1
                ok = isinstance(b, ast.Expr) and isinstance(b.value, ast.Call) and isinstance(b.value.func, ast.Name) and \
                    b.value.func.id == "print" and all(pure_print_arg(a) for a in b.value.args) and \
                    all(pure_print_arg(k.value) for k in b.value.keywords)
                if isinstance(b, ast.Pass):
                    ok = True
                if not ok and isinstance(b, ast.Assign) and all(isinstance(t, ast.Name) for t in b.targets) and pure_print_arg(b.value):
                    # a temporary that lives only inside this verbose block
                    names = {t.id for t in b.targets}
                    inside = {id(x) for y in st.body + st.orelse for x in ast.walk(y)}
                    used_outside = any(isinstance(x, ast.Name) and x.id in names and id(x) not in inside for x in ast.walk(fn))
                    ok = not used_outside
                if not ok and isinstance(b, ast.Expr) and isinstance(b.value, ast.Call):
                    # a helper that has no effect on any state (it only formats / prints)
                    facts = oa.an.get(fn)
                    callees = oa.an.resolve(b.value, facts)
                    if callees and all(not oa.an.effects(c) for c, _ in callees) and all(pure_print_arg(a) for a in b.value.args):
                        ok = True
                oa.add("C12-T4/verbose-controlled@%d" % n_stmts, "C12-T4-verbose-inert", ok,
                       "statement `%s` is executed only when verbose is set and is not a side-effect-free print" % unp(b)[:80], b)
    # (2) `verbose` flows nowhere else
    tests = {id(x) for st in ast.walk(fn) if isinstance(st, ast.If) for x in ast.walk(st.test)}
    for x in ast.walk(fn):
        if isinstance(x, ast.Name) and x.id == "verbose" and isinstance(x.ctx, ast.Load) and id(x) not in tests:
            oa.add("C12-T4/verbose-use@%d" % x.lineno, "C12-T4-verbose-inert", False,
                   "`verbose` is used outside an `if verbose:` test (it flows into a computation or a call)", x)
        if isinstance(x, ast.Name) and x.id == "verbose" and isinstance(x.ctx, ast.Store):
            oa.add("C12-T4/verbose-rebound@%d" % x.lineno, "C12-T4-verbose-inert", False, "`verbose` is re-assigned", x)
    oa.add("C12-T4/verbose-statements", "C12-T4-verbose-inert", n_stmts >= 1, "no verbose-controlled statement found", fn)
    oa.n_verbose = n_stmts


# ------------------------------------------------------------------------------------------------ T5 no hidden state
def rules_T5(oa):
    written, exposed = self_reads_writes(oa.pkg, oa.fn)
    bad = sorted(set(exposed) - ALLOWED_EXPOSED_READS)
    oa.add("C12-T5/exposed-reads", "C12-T5-no-hidden-state", not bad,
           "optimize() (or a method it calls on self) reads self.%s before assigning it in the same call: state carried over from a "
           "previous call or from construction influences the run" % ", self.".join(bad), oa.fn)
    oa.exposed_reads = sorted(exposed)
    # module-level / function-attribute state
    for node in ast.walk(oa.fn):
        if isinstance(node, (ast.Global, ast.Nonlocal)):
            oa.add("C12-T5/global@%d" % node.lineno, "C12-T5-no-hidden-state", False, "optimize() declares global/nonlocal state", node)
    for ev in oa.an.effects(oa.fn):
        if ev.path[0].startswith("<global:") and ev.kind in ("AttrStore", "ElemStore", "MutCall", "AugName"):
            if ev.path[0] in ("<global:plt>", "<global:warnings>", "<global:_LOGGER>"):
                continue
            oa.add("C12-T5/global-write/%s" % path_str(ev.path), "C12-T5-no-hidden-state", False,
                   "optimize() modifies module-level state %s" % path_str(ev.path), ev.node)


# ------------------------------------------------------------------------------------------------ fixed vertices
FIXED_GUARD_FORMS = ("not {v}.fixed", "{v}.gradient_index not in self._fixed_gradient_indices")


def guard_implies_not_fixed(guards, var):
    """Does the conjunction of enclosing guards imply that loop element `var` is not fixed?"""
    for test, pol in guards:
        t = test
        p = pol
        while isinstance(t, ast.UnaryOp) and isinstance(t.op, ast.Not):
            t, p = t.operand, not p
        # <var>.fixed  must be False
        if isinstance(t, ast.Attribute) and t.attr == "fixed" and isinstance(t.value, ast.Name) and t.value.id == var and p is False:
            return True
        if isinstance(t, ast.Compare) and len(t.ops) == 1:
            l, r, op = t.left, t.comparators[0], t.ops[0]
            is_gi = isinstance(l, ast.Attribute) and l.attr == "gradient_index" and isinstance(l.value, ast.Name) and l.value.id == var
            is_set = isinstance(r, ast.Attribute) and r.attr == "_fixed_gradient_indices"
            if is_gi and is_set and ((isinstance(op, ast.NotIn) and p is True) or (isinstance(op, ast.In) and p is False)):
                return True
            # <var>.fixed == False / is False / != True
            if isinstance(l, ast.Attribute) and l.attr == "fixed" and isinstance(l.value, ast.Name) and l.value.id == var and \
                    isinstance(r, ast.Constant):
                if isinstance(op, (ast.Eq, ast.Is)) and ((r.value is False and p is True) or (r.value is True and p is False)):
                    return True
                if isinstance(op, (ast.NotEq, ast.IsNot)) and ((r.value is True and p is True) or (r.value is False and p is False)):
                    return True
    return False


def rules_fixed(oa):
    pkg, fn, cfg = oa.pkg, oa.fn, oa.cfg
    # C06-a who may write `.fixed`
    n_fixed = 0
    for q, f in list(oa.an.fns.items()):
        if f is oa.fn_orig or f in oa.inlined:
            continue   # analysed as part of the inlined body of optimize()
        facts = oa.an.get(f)
        for ev in facts.events:
            if ev.kind == "AttrStore" and last_attr(ev.path) == "fixed":
                n_fixed += 1
                if f is fn:
                    t = ev.node.targets[0] if isinstance(ev.node, ast.Assign) else None
                    first = t is not None and isinstance(t.value, ast.Subscript) and isinstance(t.value.slice, ast.Constant) and \
                        t.value.slice.value == 0 and unp(t.value.value) == "self._vertices"
                    val_true = isinstance(ev.node, ast.Assign) and isinstance(ev.node.value, ast.Constant) and ev.node.value.value is True
                    g = oa.guards.get(ev.node, [])
                    guarded = any(isinstance(tst, ast.Name) and tst.id == "fix_first_pose" and pol is True for tst, pol in g)
                    only = len(g) == 1
                    oa.add("C06-a/optimize/fixed-store", "C06-a-who-may-fix", first and val_true and guarded and only,
                           "optimize() assigns `%s` (must be: first vertex := True, exactly under `if fix_first_pose`)" % unp(ev.node), ev.node)
                else:
                    ok = f.name == "__init__" and getattr(f, "_gs_class", None) == "Vertex"
                    oa.add("C06-a/%s/fixed-store" % fn_label(f), "C06-a-who-may-fix", ok,
                           "%s changes a vertex's fixed flag" % fn_label(f), ev.node)
    oa.n_fixed_stores = n_fixed
    # C06-b freshness of the fixed set: assigned (from the vertices' flags) after the fixed store and before the first compute
    set_nodes = [n for n in cfg.reachable() if cfg.kind[n] == "stmt" and isinstance(cfg.stmt[n], ast.Assign) and
                 any(isinstance(t, ast.Attribute) and t.attr == "_fixed_gradient_indices" for t in cfg.stmt[n].targets)]
    dom = cfg.dominators()
    oa.add("C06-b/fixed-set-assigned", "C06-b-fixed-set-fresh", len(set_nodes) >= 1,
           "optimize() never recomputes self._fixed_gradient_indices", fn)
    fixed_store_nodes = [n for n in cfg.reachable() if cfg.kind[n] == "stmt" and isinstance(cfg.stmt[n], ast.Assign) and
                         any(isinstance(t, ast.Attribute) and t.attr == "fixed" for t in cfg.stmt[n].targets)]
    for sn in set_nodes:
        st = cfg.stmt[sn]
        v = st.value
        ok_shape = False
        if isinstance(v, (ast.SetComp, ast.GeneratorExp, ast.ListComp)) or (isinstance(v, ast.Call) and isinstance(v.func, ast.Name) and v.func.id in ("set", "frozenset") and v.args):
            comp = v if isinstance(v, (ast.SetComp, ast.GeneratorExp, ast.ListComp)) else v.args[0]
            if isinstance(comp, (ast.SetComp, ast.GeneratorExp, ast.ListComp)) and len(comp.generators) == 1:
                g = comp.generators[0]
                over_all = unp(g.iter) == "self._vertices" and isinstance(g.target, ast.Name)
                var = g.target.id if isinstance(g.target, ast.Name) else None
                elt_ok = isinstance(comp.elt, ast.Attribute) and comp.elt.attr == "gradient_index" and isinstance(comp.elt.value, ast.Name) and comp.elt.value.id == var
                cond_ok = len(g.ifs) == 1 and unp(g.ifs[0]) in ("%s.fixed" % var, "%s.fixed is True" % var, "%s.fixed == True" % var)
                ok_shape = over_all and elt_ok and cond_ok
        if not ok_shape and not isinstance(v, (ast.Constant, ast.Attribute)):
            # an unrecognised way of building the set: its value is decided by the assembly scenarios (which interpret it)
            ok_shape = True
        oa.add("C06-b/fixed-set-value", "C06-b-fixed-set-fresh", ok_shape,
               "self._fixed_gradient_indices is assigned `%s`, not the gradient indices of exactly the vertices whose fixed flag is set" % unp(v)[:100], st)
        for cn in oa.compute_nodes:
            oa.add("C06-b/fixed-set-before-compute@%d" % cn, "C06-b-fixed-set-fresh", sn in dom[cn],
                   "the linear system is assembled on a path on which self._fixed_gradient_indices was not recomputed in this call", cfg.stmt[cn])
        for fsn in fixed_store_nodes:
            late = cfg.paths_exist_avoiding(sn, fsn, set()) and not cfg.paths_exist_avoiding(fsn, sn, set())
            oa.add("C06-b/fixed-store-before-set", "C06-b-fixed-set-fresh", not late,
                   "the fixed flag of the first vertex is set after the fixed set was computed", cfg.stmt[fsn])
    # C06-d: every pose store in optimize is guarded by "not fixed"
    n_stores = 0
    for loop in oa.sweep_loops:
        var = loop.target.id if isinstance(loop.target, ast.Name) else None
        filtered = False
        if isinstance(loop.iter, (ast.GeneratorExp, ast.ListComp)) and len(loop.iter.generators) == 1:
            g = loop.iter.generators[0]
            if isinstance(g.target, ast.Name):
                filtered = guard_implies_not_fixed([(c, True) for c in g.ifs], g.target.id)
        for x in ast.walk(loop):
            if isinstance(x, (ast.Assign, ast.AugAssign)):
                targets = x.targets if isinstance(x, ast.Assign) else [x.target]
                for t in targets:
                    if isinstance(t, ast.Attribute) and t.attr == "pose":
                        n_stores += 1
                        base_is_var = isinstance(t.value, ast.Name) and t.value.id == var
                        g = [gd for gd in oa.guards.get(x, []) if gd not in oa.guards.get(loop, [])]
                        ok = base_is_var and (filtered or guard_implies_not_fixed(g, var))
                        oa.add("C06-d/optimize/update-loop@%s" % unp(t), "C06-d-fixed-pose-never-written", ok,
                               "`%s` is executed for every vertex of the loop, including fixed ones: a fixed pose is rewritten with "
                               "whatever the linear solve returned for its (nominally zero) block -- NaN when the system is singular" % unp(x)[:90], x)
    for n in oa.sweep_nodes:
        st = cfg.stmt[n]
        if st not in oa.sweep_loops:
            n_stores += 1
            oa.add("C06-d/optimize/pose-write@%d" % getattr(st, "lineno", 0), "C06-d-fixed-pose-never-written", False,
                   "`%s` writes poses outside a per-vertex loop guarded by the fixed flag" % unp(st)[:90], st)
    oa.n_pose_stores = n_stores


# ------------------------------------------------------------------------------------------------ solve and update (C03-d)
def strip_sparse(e):
    while isinstance(e, ast.Call) and isinstance(e.func, ast.Attribute) and e.func.attr in ("tocsr", "tocsc", "tolil", "toarray", "todense") and not e.args:
        e = e.func.value
    if isinstance(e, ast.Call) and isinstance(e.func, ast.Name) and e.func.id in ("csr_matrix", "csc_matrix") and len(e.args) == 1:
        e = e.args[0]
    return e


def neg_of(e):
    """If e is `-x` (or np.negative(x)) return x else None."""
    if isinstance(e, ast.UnaryOp) and isinstance(e.op, ast.USub):
        return e.operand
    if isinstance(e, ast.Call) and unp(e.func) in ("np.negative", "numpy.negative") and len(e.args) == 1:
        return e.args[0]
    if isinstance(e, ast.BinOp) and isinstance(e.op, ast.Mult):
        for a, b in ((e.left, e.right), (e.right, e.left)):
            if isinstance(a, ast.UnaryOp) and isinstance(a.op, ast.USub) and isinstance(a.operand, ast.Constant) and a.operand.value in (1, 1.0):
                return b
            if isinstance(a, ast.Constant) and a.value in (-1, -1.0):
                return b
    return None


def rules_solve_update(oa):
    cfg = oa.cfg
    dx_vars = set()
    for n in oa.solve_nodes:
        st = cfg.stmt[n]
        c = oa.role[n][2]
        ok_form = isinstance(st, ast.Assign) and len(st.targets) == 1 and isinstance(st.targets[0], ast.Name)
        sign = 1
        val = st.value if isinstance(st, ast.Assign) else None
        if val is not None and neg_of(val) is not None:
            val, sign = neg_of(val), -1
        ok_call = val is c and len(c.args) == 2 and not c.keywords
        if ok_form and ok_call:
            H, b = strip_sparse(oa.resolve(c.args[0], st)), oa.resolve(c.args[1], st)
            H = strip_sparse(H)
            if neg_of(b) is not None:
                b, sign = neg_of(b), -sign
            ok = unp(H) == "self._hessian" and unp(b) == "self._gradient" and sign == -1
            oa.add("C03-d/solve", "C03-d-solve-and-update", ok,
                   "the step is computed as `%s`, not as the solution of H dx = -b with H = self._hessian, b = self._gradient" % unp(st.value)[:100], st)
            dx_vars.add(st.targets[0].id)
        else:
            oa.add("C03-d/solve", "C03-d-solve-and-update", False,
                   "unrecognised form of the linear solve `%s`" % unp(st)[:100], st, undecided=True)
        # the system solved is the one assembled from the current poses
        for s in oa.states_at(n):
            oa.add("C03-d/system-current@%s" % s.phase, "C03-d-solve-and-update", ("self._chi2", "CUR") in s.tags and s.sweeps == 0,
                   "the linear system is solved although the poses changed since it was assembled", st)
    # the step that is applied is the solver's: no statement of optimize() rescales / shifts / clips the step variable
    for node in ast.walk(oa.fn):
        tgt = None
        if isinstance(node, ast.AugAssign):
            tgt = node.target
        elif isinstance(node, ast.Assign) and len(node.targets) == 1 and isinstance(node.value, (ast.BinOp, ast.UnaryOp)):
            tgt = node.targets[0]
            if neg_of(node.value) is not None and any(n_ for n_ in oa.solve_nodes if oa.role[n_][2] in list(ast.walk(node.value))):
                tgt = None       # dx = -spsolve(H, b): the sign convention of the solve itself (checked above)
        base = tgt
        while isinstance(base, ast.Subscript):
            base = base.value
        if isinstance(base, ast.Name) and base.id in dx_vars and not any(cfg.stmt.get(n_) is node for n_ in oa.solve_nodes):
            if isinstance(node, ast.Assign) and not any(isinstance(x, ast.Name) and x.id in dx_vars for x in ast.walk(node.value)):
                continue
            oa.add("C03-d/step-modified@%d" % node.lineno, "C03-d-solve-and-update", False,
                   "the step returned by the linear solve is modified before it is applied: `%s`" % unp(node)[:90], node)
    n_upd = 0
    for loop in oa.sweep_loops:
        var = loop.target.id if isinstance(loop.target, ast.Name) else None
        it = loop.iter
        if isinstance(it, (ast.GeneratorExp, ast.ListComp)) and len(it.generators) == 1:
            it = it.generators[0].iter
        oa.add("C03-d/update-covers-all-vertices", "C03-d-solve-and-update", unp(it) == "self._vertices",
               "the update loop iterates over `%s`, not over all vertices of the graph" % unp(loop.iter)[:80], loop)
        for x in ast.walk(loop):
            if isinstance(x, (ast.Assign, ast.AugAssign)):
                targets = x.targets if isinstance(x, ast.Assign) else [x.target]
                for t in targets:
                    if not (isinstance(t, ast.Attribute) and t.attr == "pose"):
                        continue
                    n_upd += 1
                    inc = None
                    if isinstance(x, ast.AugAssign) and isinstance(x.op, ast.Add):
                        inc = x.value
                    elif isinstance(x, ast.Assign) and isinstance(x.value, ast.BinOp) and isinstance(x.value.op, ast.Add) and \
                            ast.dump(x.value.left) == ast.dump(ast.Attribute(value=t.value, attr="pose", ctx=ast.Load())):
                        inc = x.value.right
                    ok = False
                    why = "the pose is not updated by boxplus (`pose += increment`)"
                    if inc is not None:
                        inc = oa.resolve(inc, x)
                        why = "the increment `%s` is not dx[g : g + c] with g the vertex's gradient index and c its compact dimensionality" % unp(inc)[:90]
                        if isinstance(inc, ast.Subscript) and isinstance(inc.value, ast.Name) and inc.value.id in dx_vars and \
                                isinstance(inc.slice, ast.Slice) and inc.slice.step is None and inc.slice.lower is not None and inc.slice.upper is not None:
                            lo, hi = inc.slice.lower, inc.slice.upper
                            g = "%s.gradient_index" % var
                            cdim = {"%s.pose.COMPACT_DIMENSIONALITY" % var, "type(%s.pose).COMPACT_DIMENSIONALITY" % var,
                                    "len(%s.pose.to_compact())" % var}
                            lo_ok = unp(lo) == g
                            hi_ok = isinstance(hi, ast.BinOp) and isinstance(hi.op, ast.Add) and (
                                (unp(hi.left) == g and unp(hi.right) in cdim) or (unp(hi.right) == g and unp(hi.left) in cdim))
                            ok = lo_ok and hi_ok and isinstance(t.value, ast.Name) and t.value.id == var
                    oa.add("C03-d/update-step@%s" % unp(t), "C03-d-solve-and-update", ok, why, x)
    oa.add("C03-d/update-present", "C03-d-solve-and-update", n_upd >= 1, "no per-vertex pose update found", oa.fn)
    # poses change only through that update: no other statement of optimize() (or helper it calls) writes a pose
    for n in oa.sweep_nodes:
        st = cfg.stmt[n]
        if st not in oa.sweep_loops:
            oa.add("C03-d/no-other-pose-write@%d" % getattr(st, "lineno", 0), "C03-d-solve-and-update", False,
                   "`%s` modifies vertex poses outside the boxplus update of the Gauss-Newton step" % unp(st)[:90], st)
    for loop in oa.sweep_loops:
        def local_only(x):
            return isinstance(x, (ast.Assign, ast.AnnAssign)) and all(isinstance(t, (ast.Name, ast.Tuple)) for t in
                                                                      (x.targets if isinstance(x, ast.Assign) else [x.target]))
        extra = [x for x in loop.body if not (isinstance(x, (ast.Assign, ast.AugAssign)) and oa._stores_pose(x)) and
                 not isinstance(x, (ast.If, ast.Expr, ast.Pass, ast.Continue)) and not local_only(x)]
        for x in extra:
            oa.add("C03-d/update-loop-extra@%d" % x.lineno, "C03-d-solve-and-update", False,
                   "the update loop does more than update the pose: `%s`" % unp(x)[:80], x)
        # in-place methods applied to a pose inside the update loop (normalize(), fill(), ...), at any nesting depth
        from .effects import MUTATOR_METHODS
        for x in ast.walk(loop):
            if isinstance(x, ast.Expr) and isinstance(x.value, ast.Call) and isinstance(x.value.func, ast.Attribute) and \
                    x.value.func.attr in MUTATOR_METHODS and \
                    any(isinstance(y, ast.Attribute) and y.attr == "pose" for y in ast.walk(x.value.func.value)):
                oa.add("C03-d/update-loop-extra@%d" % x.lineno, "C03-d-solve-and-update", False,
                       "the update loop modifies a pose in place besides the boxplus update: `%s`" % unp(x)[:80], x)
    # the update uses the dx of *this* iteration: the solve dominates the sweep and no sweep separates them
    dom = cfg.dominators()
    for sw in oa.sweep_nodes:
        oa.add("C03-d/solve-before-update@%d" % sw, "C03-d-solve-and-update", any(n in dom[sw] for n in oa.solve_nodes),
               "a pose update is reachable without a preceding linear solve", cfg.stmt[sw])
