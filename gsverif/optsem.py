"""Bounded, all-paths translation of Graph.optimize itself (Engine A applied to the optimizer loop).

`Graph.optimize(tol, max_iter, fix_first_pose, verbose)` is translated, for max_iter in {1, 2, 3}, on a small mixed graph whose
edges are *uninterpreted functions of the current poses* (chi^2 contribution, gradient blocks, Hessian blocks are fresh atoms per
distinct pose configuration) and whose linear solve is uninterpreted (`spsolve` returns a fresh symbolic step dx_k).  Every
comparison of symbolic chi^2 values forks, so all outcomes (converged at iteration 1, at iteration 2, iteration limit with and
without the criterion met) are explored.  On every path the *observable result* is compared with the reference semantics stated by
the properties:

  states        S_0 = entry poses, S_{k+1} = S_k [+] dx_k on the free vertices (the pose class's own boxplus), fixed vertices never
                written (same object, same value)                                                              (C03-d, C06, C11-Q2)
  solve         dx_k = spsolve(H, -b) with H, b assembled from S_k (the assembly ran *after* the last update)           (C03-d)
  stopping      stop at the first k >= 1 with chi_k <= chi_{k-1} and (chi_{k-1} - chi_k)/(chi_{k-1} + eps) < tol, else at max_iter   (C12-T2)
  report        initial_chi2 = chi(S_0); final_chi2 = chi(S_final) = calc_chi2() of the returned graph; iteration j's chi2 = chi(S_j);
                converged / num_iterations / len(iteration_results) as implied by the stopping rule                (C12-T1, T3, C04-iii)
  verbose       the same result with verbose=True and verbose=False; printing happens only when verbose                 (C12-T4)
  no hidden state   a second optimize() call starts from the returned state and obeys the same rules                     (C12-T5)

This is robust against any restructuring of the loop (helpers, result-object methods, for/else, context managers) because it
looks at what optimize() *does*, not at how it is written; it is bounded in the number of iterations (3), which the CFG typestate
of optim.py is not -- the two are complementary (see DESIGN.md).
"""
import ast

from . import poly
from .poly import Poly
from .interp import param_const, Arr, Pose, Obj, ClassRef, Opaque, PathRaise, Unsupported, sym_pose, ga, sa, _Lit
from .algebra import run_obligation, ObFail, custom_edge, CDIM


class World:
    """A graph with uninterpreted edges, plus the observation hooks."""

    def __init__(self, it, vtypes, edges, fixed, m=2, shared=None, int_flags=False, unit=True):
        self.it, self.vtypes, self.edge_spec, self.m = it, list(vtypes), list(edges), m
        self.dims = [CDIM[t] for t in vtypes]
        self.offs = [sum(self.dims[:k]) for k in range(len(self.dims))]
        # unit=False: SE(3) vertices whose quaternions are only approximately of unit length (as read from a file)
        self.poses0 = [sym_pose(t, "x%d" % k, unit=unit) for k, t in enumerate(vtypes)]
        if shared is not None:
            # two point vertices whose poses were built from one and the same ndarray (PoseR2(arr) is a view of arr)
            from .interp import sym_vec
            i, j = shared
            base = sym_vec("shared", self.dims[i])
            self.poses0[i] = it.construct(vtypes[i], [base])
            self.poses0[j] = it.construct(vtypes[j], [base])
        def flag(k):
            return (Poly.const(1 if k in fixed else 0)) if int_flags else (k in fixed)
        self.verts = [it.construct("Vertex", [Poly.const(100 + 7 * k), self.poses0[k]], dict(fixed=flag(k))) for k in range(len(vtypes))]
        self.edges = []
        self.state_ids = it.__dict__.setdefault("_world_state_ids", {})   # (edge index, pose key) -> small integer; shared by the worlds of one path
        self.solves = []             # (H snapshot, rhs snapshot, state key at the time, state key of the last assembly)
        self.last_assembly_state = None
        self.prints = 0
        self.clock = 0
        self.edge_spec = [vs[1] if isinstance(vs[0], str) else vs for vs in edges]
        for ei, spec in enumerate(edges):
            kind, vs = (spec[0], spec[1]) if isinstance(spec[0], str) else ("B", spec)
            ids = [Poly.const(100 + 7 * v) for v in vs]
            if kind == "L":
                # a (stubbed) landmark edge: pose vertex first, landmark second -- built by EdgeLandmark's own constructor
                e = it.construct("EdgeLandmark", [ids, None, None, None])
            elif kind == "O":
                e = it.construct("EdgeOdometry", [ids, None, None])
            else:
                e = custom_edge(it, ids, None, None, None)
            e.stubs["is_valid"] = lambda: True
            e.stubs["calc_chi2"] = (lambda ei=ei, e=e: self.edge_chi2(ei, self.edge_key(e)))
            e.stubs["calc_chi2_gradient_hessian"] = (lambda ei=ei, e=e: self.edge_contrib(ei, e))
            e.stubs["calc_error"] = (lambda ei=ei: (_ for _ in ()).throw(Unsupported("calc_error of an uninterpreted edge")))
            self.edges.append(e)
        self.graph = it.construct("Graph", [self.edges, self.verts])
        it.nonneg_prefixes.add("chi2[")       # an edge's chi^2 is a non-negative number (zero for a perfectly consistent edge)
        it.maybe_nonfinite.add("dx")          # a singular system makes the solver return nan / inf
        it.overrides["spsolve"] = self.spsolve
        it.overrides["time"] = self.time
        it.overrides["perf_counter"] = self.time
        it.overrides["monotonic"] = self.time
        it.overrides["print"] = self.print_
        it.lossy_ok = True

    # ---- observation
    @staticmethod
    def pose_key(p):
        return (p.cls, tuple(x.key() for x in p.data))

    def edge_key(self, e):
        return tuple(self.pose_key(ga(v, "pose")) for v in ga(e, "vertices"))

    def state_key(self):
        return tuple(self.pose_key(ga(v, "pose")) for v in self.verts)

    def sid(self, ei, key):
        return self.state_ids.setdefault((ei, key), len([1 for (e2, _k) in self.state_ids if e2 == ei]))

    def edge_chi2(self, ei, key):
        return Poly.var("chi2[e%d@s%d]" % (ei, self.sid(ei, key)))

    def edge_contrib(self, ei, e):
        key = self.edge_key(e)
        s = self.sid(ei, key)
        self.last_assembly_state = self.state_key()
        vs = ga(e, "vertices")
        gi = [ga(v, "gradient_index") for v in vs]
        dims = [self.dims[k] for k in self.edge_spec[ei]]
        grad = [(gi[k], Arr([Poly.var("g[e%d@s%d,%d,%d]" % (ei, s, k, a)) for a in range(dims[k])], 1)) for k in range(len(vs))]
        hess = []
        for i in range(len(vs)):
            for j in range(i, len(vs)):
                hess.append(((gi[i], gi[j]), Arr([[Poly.var("H[e%d@s%d,%d,%d,%d,%d]" % (ei, s, i, j, a, b)) for b in range(dims[j])]
                                                for a in range(dims[i])], 2)))
        return (self.edge_chi2(ei, key), grad, hess)

    def chi2_at(self, poses):
        """Reference chi^2 of a configuration (list of poses in vertex order)."""
        tot = Poly()
        for ei, vs in enumerate(self.edge_spec):
            tot = tot + self.edge_chi2(ei, tuple(self.pose_key(poses[v]) for v in vs))
        return tot

    def spsolve(self, H, rhs, *a, **k):
        n = len(rhs.flat()) if isinstance(rhs, Arr) else None
        if n is None:
            raise ObFail("spsolve is called with a right-hand side that is not an array")
        kdx = len(self.solves)
        if getattr(self, "fault_at", None) is not None and kdx == self.fault_at:
            self.fault_at = None
            self.faulted = self.state_key()
            raise PathRaise("LinAlgError(the linear solve fails)", "the solver")
        # a structurally singular system (no vertex is held fixed, or a free vertex that no edge refers to): scipy's spsolve issues a
        # MatrixRankWarning (and returns nan); code that turned that warning into an error gets the exception
        from .assembly import truthy
        free = [k for k, v in enumerate(self.verts) if not truthy(ga(v, "fixed"))]
        used = {v for vs in self.edge_spec for v in vs}
        if len(free) == len(self.verts) or any(k not in used for k in free):
            self.it.emit_warning("MatrixRankWarning")
        from .interp import sym_vec
        # the solver is a *function* of its arguments: the same system gives the same step, another system another one
        table = self.it.__dict__.setdefault("_world_solve_table", {})
        skey = (tuple(x.key() for x in H.flat()) if isinstance(H, Arr) else id(H), tuple(x.key() for x in rhs.flat()))
        if skey not in table:
            angles = [self.offs[v] + 2 for v, t in enumerate(self.vtypes) if t == "PoseSE2"]
            table[skey] = sym_vec("dx%d" % len(table), n, angle_idx=[a for a in angles if a < n])
        dx = table[skey]
        self.solves.append((H.copy() if isinstance(H, Arr) else H, rhs.copy(), self.state_key(), self.last_assembly_state,
                            ga(self.graph, "_hessian", None), ga(self.graph, "_gradient", None), dx))
        return Arr(list(dx.data), 1)

    def time(self, *a, **k):
        self.clock += 1
        return Poly.var("t#%d" % self.clock)

    def print_(self, *a, **k):
        self.prints += 1
        return None


def same_val(a, b):
    """Identity of two scalar values (polynomials or quotients of polynomials) without taking any decision."""
    from .interp import Quot
    if not isinstance(a, (Poly, Quot)) or not isinstance(b, (Poly, Quot)):
        return False
    na, da = (a.num, a.den) if isinstance(a, Quot) else (a, Poly.const(1))
    nb, db = (b.num, b.den) if isinstance(b, Quot) else (b, Poly.const(1))
    if not all(isinstance(x, Poly) for x in (na, da, nb, db)):
        return False
    return na * db == nb * da


def reference_predicate(it, prev, cur, tol):
    """chi_k <= chi_{k-1} and (chi_{k-1} - chi_k) / (chi_{k-1} + eps) < tol, decided with the facts of the current path."""
    le = it.compare_values(ast.LtE(), cur, prev)
    if not le:
        return False
    rel = it.arith(ast.Div, prev - cur, prev + poly.opaque("eps"), None)
    return bool(it.compare_values(ast.Lt(), rel, tol))


class Fails(list):
    def add(self, kind, msg):
        self.append((kind, msg))


def check_result(it, w, ret, entry_poses, tol, max_iter, label, fixed_now, fails):
    """Compare one optimize() call with the reference semantics; failures are collected as (kind, message) with kind in
    solve / pose / fixed / stopping / report.  Returns the reference final poses."""
    n_solves_before = check_result.solves_seen
    solves = w.solves[n_solves_before:]
    check_result.solves_seen = len(w.solves)
    # ---- reference trajectory along the decisions of this path
    states = [list(entry_poses)]
    chis = [w.chi2_at(states[0])]
    stop_at, converged = None, None
    k = 0
    while True:
        if k >= 1 and reference_predicate(it, chis[k - 1], chis[k], tol):
            stop_at, converged = k, True
            break
        if k == max_iter:
            stop_at = k
            converged = reference_predicate(it, chis[k - 1], chis[k], tol) if k >= 1 else None
            break
        if k >= len(solves):
            fails.add("stopping", "%sthe run stops after %d update step(s) although the stopping criterion is not met at that point and "
                                  "the iteration limit (%d) is not reached" % (label, len(solves), max_iter))
            stop_at, converged = k, None
            break
        # the solve of step k must be for the system assembled from S_k
        Harg, rhs, st_key, asm_key, Hcur, bcur, dxk = solves[k]
        want_key = tuple(w.pose_key(p) for p in states[k])
        if st_key != want_key:
            fails.add("pose", "%sstep %d is solved while the poses are not S_%d of the reference trajectory" % (label, k, k))
        elif asm_key != want_key:
            fails.add("solve", "%sstep %d solves a linear system that was assembled from other poses than the current ones (stale gradient / Hessian)" % (label, k))
        # (when the graph keeps its assembled system under the documented private names, the solve must be handed exactly that)
        if bcur is not None and not (isinstance(bcur, Arr) and isinstance(rhs, Arr) and rhs.shape == bcur.shape and all(a == -b for a, b in zip(rhs.flat(), bcur.flat()))):
            fails.add("solve", "%sstep %d: the right-hand side of the solve is not -gradient" % (label, k))
        if Hcur is not None and not (isinstance(Hcur, Arr) and isinstance(Harg, Arr) and Harg.same(Hcur)):
            fails.add("solve", "%sstep %d: the matrix of the solve is not the assembled Hessian" % (label, k))
        dx = list(dxk.data)
        nxt = []
        # the block of a vertex in the unknown vector is wherever its gradient_index says (another graph over the same vertex objects
        # may have renumbered them since this graph was built)
        offs_now = []
        for v, vert in enumerate(w.verts):
            gi = ga(vert, "gradient_index", None)
            c_ = gi.const_value() if isinstance(gi, Poly) else None
            offs_now.append(int(c_) if c_ is not None else w.offs[v])
        for v, p in enumerate(states[k]):
            if v in fixed_now:
                nxt.append(p)
            else:
                step = Arr(dx[offs_now[v]:offs_now[v] + w.dims[v]], 1)
                moved = it.call_method(Pose(p.cls, list(p.data)), "__iadd__", [step])
                nxt.append(moved)
        states.append(nxt)
        chis.append(w.chi2_at(nxt))
        k += 1
    # ---- what the code did
    if len(solves) != stop_at:
        fails.add("stopping", "%s%d update step(s) were performed, the stopping rule calls for %d%s" % (
            label, len(solves), stop_at, " (the criterion was met at iteration %d)" % stop_at if converged and stop_at < max_iter else ""))
    final = states[stop_at]
    if len(solves) == stop_at:
        for v, vert in enumerate(w.verts):
            now = ga(vert, "pose")
            if not isinstance(now, Pose) or now.cls != final[v].cls or any(a != b for a, b in zip(now.data, final[v].data)):
                fails.add("fixed" if v in fixed_now else "pose", "%safter optimize() vertex %d (%s) does not hold %s" % (
                    label, v, "fixed" if v in fixed_now else "free",
                    "its original pose" if v in fixed_now else "S_%d = its pose moved by boxplus with the %d solved step(s)" % (stop_at, stop_at)))
    else:
        for v in fixed_now:
            now = ga(w.verts[v], "pose")
            if not isinstance(now, Pose) or any(a != b for a, b in zip(now.data, entry_poses[v].data)):
                fails.add("fixed", "%safter optimize() the fixed vertex %d does not hold its original pose" % (label, v))
    if not isinstance(ret, Obj):
        fails.add("report", "%soptimize() returns %r" % (label, ret))
        return final, dict(steps=stop_at)

    def field(name):
        return ga(ret, name, None)

    def same(a, b):
        return isinstance(a, Poly) and a == b
    if not same(field("initial_chi2"), chis[0]):
        fails.add("report", "%sinitial_chi2 is not the chi^2 of the entry state" % label)
    n_done = min(len(solves), len(chis) - 1)
    if len(solves) == stop_at:
        if not same(field("final_chi2"), chis[stop_at]):
            fails.add("report", "%sfinal_chi2 is not the chi^2 of the returned poses" % label)
        cached = it.call_method(w.graph, "calc_chi2", [])
        if not same(cached, chis[stop_at]):
            fails.add("report", "%scalc_chi2() of the returned graph differs from the reference chi^2 of the final state" % label)
        ni = field("num_iterations")
        if not (isinstance(ni, Poly) and ni.const_value() == stop_at):
            fails.add("report", "%snum_iterations = %s, but %d update step(s) were performed" % (label, ni.short(20) if isinstance(ni, Poly) else ni, stop_at))
        cv = field("converged")
        cvb = cv if isinstance(cv, bool) else None
        if cvb is None or (converged is not None and cvb != bool(converged)):
            fails.add("stopping", "%sconverged = %r, the stopping rule gives %r" % (label, cv, converged))
        its = field("iteration_results")
        its = list(it.iterate(its, None)) if its is not None else None
        if its is None or not (len(its) == stop_at or (len(its) == stop_at + 1 and stop_at < max_iter)):
            fails.add("report", "%siteration_results has %s entries for %d performed iteration(s)" % (label, None if its is None else len(its), stop_at))
        else:
            for j in range(stop_at):
                c = ga(its[j], "chi2", None)
                if not same(c, chis[j + 1]):
                    fails.add("report", "%sthe chi2 recorded for iteration %d is not the chi^2 of the poses after that iteration's update" % (label, j + 1))
                r = ga(its[j], "rel_diff", None)
                want = it.neg(it.arith(ast.Div, chis[j] - chis[j + 1], chis[j] + poly.opaque("eps"), None), None)
                if not same_val(r, want):
                    fails.add("report", "%sthe rel_diff recorded for iteration %d is not -(chi_prev - chi)/(chi_prev + eps)" % (label, j + 1))
    return final, dict(steps=stop_at, converged=bool(converged))


check_result.solves_seen = 0


def fault_obligation(vtypes, edges, fixed, ffp, max_iter, fault_at):
    """A failing linear solve (the solver raises in iteration fault_at+1): whatever optimize() does with the exception, the fixed
    vertices hold their original poses afterwards, the flags are the documented ones, and a following optimize() call on the same
    graph obeys the reference semantics from the state the failed call left behind (no half-finished bookkeeping survives)."""
    def fn(it):
        check_result.solves_seen = 0
        fails = Fails()
        w = World(it, vtypes, edges, set(fixed))
        w.fault_at = fault_at
        tol = Poly.var("tol")
        entry = [Pose(p.cls, list(p.data)) for p in w.poses0]
        fixed_now = set(fixed) | ({0} if ffp else set())
        objs = [ga(v, "pose") for v in w.verts]
        raised = False
        try:
            it.call_method(w.graph, "optimize", [], dict(tol=tol, max_iter=param_const(it, max_iter), fix_first_pose=ffp, verbose=False))
        except PathRaise:
            raised = True
        if getattr(w, "faulted", None) is None:
            return dict(scenario="the run stopped before the failing solve")
        for v in fixed_now:
            now = ga(w.verts[v], "pose")
            if not isinstance(now, Pose) or len(now.data) != len(entry[v].data) or any(a != b for a, b in zip(now.data, entry[v].data)):
                fails.add("fixed", "after an optimize() call whose linear solve failed, the fixed vertex %d does not hold its original pose" % v)
        if raised:
            # the graph is still the caller's: a new call starts from the poses as they are now
            check_result.solves_seen = len(w.solves)
            cur = [ga(v, "pose") for v in w.verts]
            entry2 = [Pose(p.cls, list(p.data)) for p in cur]
            ret2 = it.call_method(w.graph, "optimize", [], dict(tol=tol, max_iter=param_const(it, 1), fix_first_pose=ffp, verbose=False))
            f2 = Fails()
            check_result(it, w, ret2, entry2, tol, 1, "optimize() after a call whose solve failed: ", fixed_now, f2)
            for kind, msg in f2:
                fails.add("state" if kind in ("report", "stopping") else kind, msg)
        if fails:
            raise ObFail(" || ".join("[%s] %s" % km for km in fails))
        return dict(scenario="solve fails in iteration %d; propagated=%r" % (fault_at + 1, raised))
    return lambda pkg: run_obligation(pkg, fn, max_paths=512)


def split_obligation(vtypes, edges, fixed, ffp, n, k1):
    """Splitting a run into consecutive optimize() calls reproduces the trajectory of a single call: run A is one call with
    max_iter=n; run B, on an identical second graph, is max_iter=k1 followed by max_iter=n-k1.  The solver is a function of the
    system it is given (the same (H, rhs) gives the same step symbol, another system another symbol), so on every path on which
    A performs all n steps B must solve the same n systems and end in the same poses -- whatever the step rule is, as long as it
    does not depend on state kept from one iteration / call to the next."""
    def fn(it):
        tol = Poly.var("tol")
        wa = World(it, vtypes, edges, set(fixed))
        it.call_method(wa.graph, "optimize", [], dict(tol=tol, max_iter=param_const(it, n), fix_first_pose=ffp, verbose=False))
        if len(wa.solves) < n:
            return dict(scenario="single call stopped early: nothing to compare on this path")
        final_a = [wa.pose_key(ga(v, "pose")) for v in wa.verts]
        steps_a = [tuple(x.key() for x in s_[6].data) for s_ in wa.solves]
        wb = World(it, vtypes, edges, set(fixed))
        it.call_method(wb.graph, "optimize", [], dict(tol=tol, max_iter=param_const(it, k1), fix_first_pose=ffp, verbose=False))
        it.call_method(wb.graph, "optimize", [], dict(tol=tol, max_iter=param_const(it, n - k1), fix_first_pose=ffp, verbose=False))
        steps_b = [tuple(x.key() for x in s_[6].data) for s_ in wb.solves]
        final_b = [wb.pose_key(ga(v, "pose")) for v in wb.verts]
        if len(steps_b) != n:
            raise ObFail("[state] a %d-iteration run performs %d update steps, the same run split into %d + %d iterations performs %d" % (
                n, n, k1, n - k1, len(steps_b)))
        for k in range(n):
            if steps_a[k] != steps_b[k]:
                raise ObFail("[state] step %d of a single %d-iteration run solves another linear system than the same step of the run split "
                             "into %d + %d iterations: the step depends on state carried from earlier iterations, which a new call "
                             "does not have" % (k + 1, n, k1, n - k1))
        if final_a != final_b:
            raise ObFail("[state] a single %d-iteration run and the same run split into %d + %d iterations end in different poses" % (n, k1, n - k1))
        return dict(scenario="single %d vs split %d+%d" % (n, k1, n - k1))
    return lambda pkg: run_obligation(pkg, fn, max_paths=512)


def optimize_obligation(vtypes, edges, fixed, ffp, max_iter, verbose, second_call=False, refix=None, shared=None, twin=None,
                        allow_size_thresholds=False, int_flags=False, max_paths=512, unit=True):
    def fn(it):
        check_result.solves_seen = 0
        fails = Fails()
        w = World(it, vtypes, edges, set(fixed), shared=shared, int_flags=int_flags, unit=unit)
        if twin is not None:
            # a second graph over the same vertex and edge objects, listed in another order (it renumbers the vertices' gradient
            # indices); the first graph is then optimized: a vertex' block is where its gradient_index says *now*
            it.construct("Graph", [list(reversed(w.edges)), [w.verts[i] for i in twin]])
        tol = Poly.var("tol")
        entry = [Pose(p.cls, list(p.data)) for p in w.poses0]
        fixed_now = set(fixed) | ({0} if ffp else set())
        objs = [ga(v, "pose") for v in w.verts]
        ret = it.call_method(w.graph, "optimize", [], dict(tol=tol, max_iter=param_const(it, max_iter), fix_first_pose=ffp, verbose=verbose))
        final, st = check_result(it, w, ret, entry, tol, max_iter, "", fixed_now, fails)
        if (w.prints > 0) != bool(verbose):
            fails.add("verbose", "verbose=%r but print was called %d time(s)" % (verbose, w.prints))
        from .assembly import truthy
        flags = [truthy(ga(v, "fixed")) for v in w.verts]
        if flags != [k in fixed_now for k in range(len(w.verts))]:
            fails.add("fixed", "after optimize(fix_first_pose=%r) the fixed flags are %r, expected exactly %r" % (ffp, flags, sorted(fixed_now)))
        st["scenario"] = "max_iter=%d verbose=%r ffp=%r fixed=%s" % (max_iter, verbose, ffp, sorted(fixed))
        if second_call and not fails:
            if refix is not None:
                for k, v in enumerate(w.verts):
                    sa(v, "fixed", k in refix)           # the user changes the fixed flags between two calls
                fixed_now = set(refix) | ({0} if ffp else set())
            entry2 = [Pose(p.cls, list(p.data)) for p in final]
            ret2 = it.call_method(w.graph, "optimize", [], dict(tol=tol, max_iter=param_const(it, 1), fix_first_pose=ffp, verbose=verbose))
            f2 = Fails()
            check_result(it, w, ret2, entry2, tol, 1, "second optimize() call on the same graph: ", fixed_now, f2)
            for kind, msg in f2:
                fails.add("state" if kind in ("report", "stopping") else kind, msg)
        if fails:
            raise ObFail(" || ".join("[%s] %s" % km for km in fails))
        return st
    return lambda pkg: run_obligation(pkg, fn, max_paths=max_paths, allow_size_thresholds=allow_size_thresholds)


def directed_tasks(prefix, rule, where, size_consts, counter_consts):
    """The code of optimize() (or of what it calls) tests a size or the iteration counter against a constant: the standard scenarios
    are re-run with the test allowed (they are on the small side of it) and joined by scenarios aimed at the other side -- chains of
    c-1, c and c+1 vertices, runs of c+1 iterations."""
    out = []
    for sc_ in SCENARIOS:
        name, vt, ed, fx, ffp, mi, vb, sc = sc_[:8]
        refix = sc_[8] if len(sc_) > 8 else None
        shared = sc_[9] if len(sc_) > 9 else None
        twin = sc_[10] if len(sc_) > 10 else None
        out.append(("%s/optimize-semantics/%s" % (prefix, name), rule,
                    optimize_obligation(vt, ed, fx, ffp, mi, vb, sc, refix, shared, twin, allow_size_thresholds=True), where))
    for c in size_consts:
        for n_ in sorted({max(c - 1, 2), c, c + 1}):
            vt = ["PoseSE2"] + ["PoseR2"] * (n_ - 1)
            ed = [(0, k) for k in range(1, n_)] + [(k, k + 1) for k in range(1, n_ - 1)]
            for mi in (1, 2):
                out.append(("%s/optimize-semantics/directed/%d-vertices(size constant %d)/iter%d" % (prefix, n_, c, mi), rule,
                            optimize_obligation(vt, ed, (), True, mi, False, allow_size_thresholds=True), where))
    for c in counter_consts:
        # long runs: the exploration is depth-first (the k-th path reaches iteration k), so a bounded number of paths reaches the
        # iterations beyond the constant; a deviation found on any explored path counts, no deviation within the budget = undecided
        out.append(("%s/optimize-semantics/directed/iter%d(iteration constant %d)" % (prefix, c + 2, c), rule,
                    optimize_obligation(V3, E3, (), True, c + 2, False, allow_size_thresholds=True, max_paths=511 if c <= 3 else 40), where))
    return out


V3 = ["PoseSE2", "PoseR2", "PoseSE2"]
E3 = [(0, 1), (1, 2), (2, 0), (1,)]

# (name, vertex types, edges, fixed, fix_first_pose, max_iter, verbose, second call)
SCENARIOS = [
    ("iter1/quiet", V3, E3, (), True, 1, False, False),
    ("iter2/quiet", V3, E3, (), True, 2, False, False),
    ("iter3/quiet", V3, E3, (), True, 3, False, False),
    ("iter2/verbose", V3, E3, (), True, 2, True, False),
    ("iter3/verbose", V3, E3, (), True, 3, True, False),
    ("iter2/fixed-middle-no-ffp", V3, E3, (1,), False, 2, False, False),
    ("iter2/fixed-last-plus-first", V3, E3, (2,), True, 2, False, False),
    ("iter1/then-second-call", V3, E3, (), True, 1, False, True),
    ("iter2/then-second-call", V3, E3, (1,), False, 2, True, True),
    ("iter1/then-refixed-second-call", V3, E3, (1,), False, 1, False, True, (2,)),
    # the vertex list starts with a landmark; fix_first_pose fixes the first *listed* vertex whatever its kind
    ("iter2/landmark-listed-first", ["PoseR2", "PoseSE2", "PoseSE2"], [("L", (1, 0)), ("O", (1, 2)), ("L", (2, 0))], (), True, 2, False, False),
    # a fixed vertex that no edge refers to, and a graph whose vertices are all fixed
    ("iter2/isolated-fixed-vertex", V3 + ["PoseR2"], E3, (3,), True, 2, False, False),
    ("iter1/all-fixed", V3, E3, (0, 1, 2), False, 1, False, False),
    ("iter2/twin-graph-lists-the-vertices-in-another-order", V3, E3, (), True, 2, False, False, None, None, (2, 0, 1)),
    # a *free* vertex that no edge refers to (the system is singular -- the caller's problem -- but optimize() still changes nothing
    # but poses: in particular it does not mark that vertex fixed behind the caller's back)
    ("iter2/isolated-free-vertex", V3 + ["PoseR2"], E3, (), True, 2, False, False),
    # fix_first_pose=False and no vertex marked: optimize() fixes nothing on its own
    ("iter1/nothing-fixed", V3, E3, (), False, 1, False, False),
    ("iter3/nothing-fixed", V3, E3, (), False, 3, False, False),
    # 3-D: the ambient length of an SE(3) pose (7) differs from its number of unknowns (6)
    ("iter1/se3-mixed", ["PoseR3", "PoseSE3", "PoseR2", "PoseSE3"], [(1, 0), (3, 1), (2,), (0, 3)], (), True, 1, False, False),
    # a fixed and a free landmark whose initial poses were created from the same ndarray
    ("iter1/shared-initial-array", ["PoseR2", "PoseSE2", "PoseR2"], [(1, 0), (1, 2), (1,)], (), True, 1, False, False, None, (0, 2)),
]


TIER = "quick"

# thorough tier: longer runs (31 and 63 paths), SE(3) over two iterations, a verbose second call
THOROUGH_SCENARIOS = [
    ("iter4/quiet", V3, E3, (), True, 4, False, False),
    ("iter5/quiet", V3, E3, (1,), False, 5, False, False),
    ("iter4/verbose", V3, E3, (), True, 4, True, False),
    ("iter2/se3-mixed", ["PoseR3", "PoseSE3", "PoseR2", "PoseSE3"], [(1, 0), (3, 1), (2,), (0, 3)], (), True, 2, False, False),
    ("iter3/then-second-call", V3, E3, (), True, 3, True, True),
    ("iter2/landmark-listed-first-then-second-call", ["PoseR2", "PoseSE2", "PoseSE2"], [("L", (1, 0)), ("O", (1, 2)), ("L", (2, 0))], (), True, 2, False, True),
    ("iter2/twin-graph-then-second-call", V3, E3, (1,), False, 2, False, True, None, None, (1, 2, 0)),
    ("iter3/isolated-free-vertex", V3 + ["PoseR2"], E3, (), True, 3, False, False),
]


def tasks(prefix, rule, where):
    out = []
    for sc_ in SCENARIOS + (THOROUGH_SCENARIOS if TIER == "thorough" else []):
        name, vt, ed, fx, ffp, mi, vb, sc = sc_[:8]
        refix = sc_[8] if len(sc_) > 8 else None
        shared = sc_[9] if len(sc_) > 9 else None
        twin = sc_[10] if len(sc_) > 10 else None
        out.append(("%s/optimize-semantics/%s" % (prefix, name), rule, optimize_obligation(vt, ed, fx, ffp, mi, vb, sc, refix, shared, twin), where))
    # fixed flags given as 1 / 0 (truthy values other than the literal True), as the package's own tests do
    out.append(("%s/optimize-semantics/iter2/fixed-middle-flag-given-as-1" % prefix, rule,
                optimize_obligation(V3, E3, (1,), False, 2, False, int_flags=True), where))
    # SE(3) vertices whose quaternions are not exactly of unit length (a file gives them to 6-7 digits): the same rules
    out.append(("%s/optimize-semantics/iter1/se3-quaternions-as-read-from-a-file" % prefix, rule,
                optimize_obligation(["PoseR3", "PoseSE3", "PoseSE3"], [(1, 0), (2, 1)], (), True, 1, False, True, unit=False), where))
    splits = ((2, 1), (3, 1), (3, 2)) + (((4, 2), (4, 1), (4, 3)) if TIER == "thorough" else ())
    for n_, k1 in splits:
        out.append(("%s/optimize-semantics/split/%d=%d+%d" % (prefix, n_, k1, n_ - k1), rule, split_obligation(V3, E3, (), True, n_, k1), where))
    faults = (("fault/solve-fails-in-iteration-1", (), True, 2, 0), ("fault/solve-fails-in-iteration-2", (1,), False, 3, 1))
    if TIER == "thorough":
        faults += (("fault/solve-fails-in-iteration-3", (), True, 4, 2), ("fault/solve-fails-in-iteration-1/nothing-fixed", (), False, 2, 0))
    for name, fx, ffp, mi, at in faults:
        out.append(("%s/optimize-semantics/%s" % (prefix, name), rule, fault_obligation(V3, E3, fx, ffp, mi, at), where))
    return out
