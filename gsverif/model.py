"""Package model: parse every module of /repo/graphslam on every run and build class / function tables.

Nothing is imported or executed; everything is derived from `ast.parse` of the current working tree.
"""
import ast
import hashlib
import os


class AnalysisError(Exception):
    """The analysis cannot decide (construct outside the modelled fragment, vanished anchor, ...)."""


class ClassInfo:
    def __init__(self, name, node, bases, module):
        self.name, self.node, self.bases, self.module = name, node, bases, module
        self.methods = {}      # name -> (FunctionDef, is_classmethod, is_staticmethod)
        self.props = {}        # name -> FunctionDef
        self.consts = {}       # name -> ast expr (class-level assignments)
        self.inner = {}        # nested classes
        self.annotations = []  # annotated fields in order (NamedTuple / dataclass style)
        self.setters = {}      # property name -> FunctionDef of its @<name>.setter
        self.decorators = list(node.decorator_list)
        self.enum_kind = None
        for b in bases:
            leaf = b.split(".")[-1]
            if leaf in ("IntEnum", "IntFlag"):
                self.enum_kind = "int"
            elif leaf in ("Enum", "StrEnum", "Flag") and self.enum_kind is None:
                self.enum_kind = "plain"
        self.dispatch_regs = {}  # dispatcher method name -> [FunctionDef registered with @<name>.register...]
        for st in node.body:
            if isinstance(st, ast.FunctionDef):
                decos = [_deco_name(d) for d in st.decorator_list]
                st._gs_module = module
                st._gs_class = name
                rt = _register_target(st)
                if rt is not None:
                    self.dispatch_regs.setdefault(rt, []).append(st)
                    if st.name != "_":
                        self.methods[st.name] = (st, False, False)      # also reachable under its own name
                    continue
                if "property" in decos or "cached_property" in decos:
                    self.props[st.name] = st
                elif "setter" in decos:
                    self.setters[st.name] = st
                elif "deleter" in decos or "getter" in decos:
                    pass
                else:
                    self.methods[st.name] = (st, "classmethod" in decos, "staticmethod" in decos)
            elif isinstance(st, ast.Assign) and len(st.targets) == 1 and isinstance(st.targets[0], ast.Name):
                self.consts[st.targets[0].id] = st.value
            elif isinstance(st, ast.AnnAssign) and isinstance(st.target, ast.Name):
                if "ClassVar" not in ast.unparse(st.annotation):
                    self.annotations.append(st.target.id)
                if st.value is not None:
                    self.consts[st.target.id] = st.value


def _deco_name(d):
    if isinstance(d, ast.Name):
        return d.id
    if isinstance(d, ast.Attribute):
        return d.attr
    if isinstance(d, ast.Call):
        return _deco_name(d.func)
    return None


def _register_target(fn):
    """`f` if fn is decorated with @f.register or @f.register(T) (functools.singledispatch registration), else None."""
    for d in fn.decorator_list:
        x = d.func if isinstance(d, ast.Call) else d
        if isinstance(x, ast.Attribute) and x.attr == "register":
            return ast.unparse(x.value)
    return None


def _base_name(b):
    if isinstance(b, ast.Subscript):
        return _base_name(b.value)          # Generic[K], Mapping[int, X], _Accumulator[int]: the class is the subscripted name
    if isinstance(b, ast.Name):
        return b.id
    if isinstance(b, ast.Attribute):
        return ast.unparse(b)
    return ast.unparse(b)


class Package:
    """All modules under <repo>/graphslam, parsed."""

    @classmethod
    def from_source(cls, rel, src):
        """A one-module package from source text (fixtures of the checkers' own self-tests)."""
        self = object.__new__(cls)
        self.repo = self.root = "<fixture>"
        self._tables()
        self._index(rel, ast.parse(src))
        return self

    def extended(self, rel, src):
        """A copy of this package with one more module (user-level code written against the package, e.g. a custom edge class)."""
        import copy as _copy
        other = _copy.copy(self)
        for k, v in list(vars(self).items()):
            if isinstance(v, dict):
                setattr(other, k, dict(v))
        other._index(rel, ast.parse(src))
        return other

    def func_key(self, name, rel=None):
        """Key in self.funcs of the module-level function `name` as seen from module `rel` (its own definition first)."""
        if rel is not None:
            k = self.module_funcs.get(rel, {}).get(name)
            if k is not None:
                return k
        return name if name in self.funcs else None

    def _tables(self):
        self.units = {}       # relpath -> dict(sha256, lines, tree, source)
        self.classes = {}     # class name -> ClassInfo  (nested classes as Outer.Inner)
        self.funcs = {}       # function name -> FunctionDef (module level)
        self.func_module = {}
        self.module_funcs = {}    # module rel -> {local function name: key in self.funcs}
        self.module_consts = {}   # module rel -> {name: ast expr}
        self.module_imports = {}  # module rel -> {local name: dotted origin}
        self.module_classes = {}  # module rel -> {local class name: unique class name}  (private helper classes may share a name)
        self.module_effects = {}  # module rel -> [module-level statements with side effects: X.attr = v, f(...), for/if blocks]
        self.dispatch_regs = {}   # (module rel, dispatcher name) -> [FunctionDef registered with @<name>.register...]

    def __init__(self, repo):
        self.repo = os.path.abspath(repo)
        self.root = os.path.join(self.repo, "graphslam")
        if not os.path.isdir(self.root):
            raise AnalysisError("no graphslam package under %s" % self.repo)
        self._tables()
        for dirpath, dirnames, filenames in sorted(os.walk(self.root)):
            dirnames[:] = sorted(d for d in dirnames if d != "__pycache__")
            for fn in sorted(filenames):
                if not fn.endswith(".py"):
                    continue
                path = os.path.join(dirpath, fn)
                rel = os.path.relpath(path, self.repo)
                src = open(path, encoding="utf-8").read()
                try:
                    tree = ast.parse(src, filename=rel)
                except SyntaxError as e:
                    raise AnalysisError("syntax error in %s: %s" % (rel, e))
                self.units[rel] = dict(sha256=hashlib.sha256(src.encode()).hexdigest(), lines=src.count("\n") + 1,
                                       tree=tree, source=src)
                self._index(rel, tree)

    def _index(self, rel, tree):
        consts, imports = {}, {}
        self.module_consts[rel] = consts
        self.module_imports[rel] = imports
        for st in tree.body:
            self._index_stmt(rel, st, consts, imports)

    def _index_stmt(self, rel, st, consts, imports):
        if isinstance(st, ast.ClassDef):
            self._add_class(rel, st, prefix="")
        elif isinstance(st, ast.FunctionDef) and _register_target(st) is not None:
            st._gs_module = rel
            st._gs_class = None
            self.dispatch_regs.setdefault((rel, _register_target(st)), []).append(st)
        elif isinstance(st, ast.FunctionDef):
            st._gs_module = rel
            st._gs_class = None
            key = st.name
            if key in self.funcs:
                key = "%s@%s" % (st.name, rel)       # helpers of different modules may share a name: each module sees its own
            self.funcs[key] = st
            self.func_module[key] = rel
            self.module_funcs.setdefault(rel, {})[st.name] = key
        elif isinstance(st, ast.Assign) and len(st.targets) == 1 and isinstance(st.targets[0], ast.Name):
            consts[st.targets[0].id] = st.value
        elif isinstance(st, ast.Assign) and len(st.targets) == 1 and isinstance(st.targets[0], ast.Tuple) and \
                isinstance(st.value, ast.Tuple) and len(st.value.elts) == len(st.targets[0].elts) and \
                all(isinstance(t, ast.Name) for t in st.targets[0].elts):
            for t, v in zip(st.targets[0].elts, st.value.elts):
                consts[t.id] = v
        elif isinstance(st, ast.Assign) and len(st.targets) == 1 and isinstance(st.targets[0], ast.Tuple) and \
                all(isinstance(t, ast.Name) for t in st.targets[0].elts):
            # a, b, c = <expression>: each name is the corresponding element of the value
            for k, t in enumerate(st.targets[0].elts):
                consts[t.id] = ast.Subscript(value=ast.Call(func=ast.Name(id="list", ctx=ast.Load()), args=[st.value], keywords=[]),
                                             slice=ast.Constant(value=k), ctx=ast.Load())
                ast.copy_location(consts[t.id], st)
                ast.fix_missing_locations(consts[t.id])
        elif isinstance(st, ast.AnnAssign) and isinstance(st.target, ast.Name) and st.value is not None:
            consts[st.target.id] = st.value
        elif isinstance(st, ast.If) and isinstance(st.test, ast.Name) and st.test.id == "TYPE_CHECKING":
            pass
        elif isinstance(st, ast.Import):
            for a in st.names:
                imports[a.asname or a.name.split(".")[0]] = a.name
        elif isinstance(st, ast.ImportFrom):
            for a in st.names:
                imports[a.asname or a.name] = "%s%s.%s" % ("." * st.level, st.module or "", a.name)
        elif isinstance(st, ast.Try):
            for s in st.body:
                self._index_stmt(rel, s, consts, imports)
        elif isinstance(st, ast.Expr) and isinstance(st.value, ast.Call):
            f = ast.unparse(st.value.func)
            if not f.startswith(("warnings.", "logging.", "_LOGGER.", "np.seterr", "matplotlib.")):
                self.module_effects.setdefault(rel, []).append(st)
        elif isinstance(st, (ast.Assign, ast.AugAssign)) or (isinstance(st, (ast.For, ast.While, ast.With)) ):
            self.module_effects.setdefault(rel, []).append(st)

    def _add_class(self, rel, node, prefix):
        name = prefix + node.name
        if name in self.classes:
            if not node.name.startswith("_"):
                raise AnalysisError("duplicate class name %s (%s, %s)" % (name, rel, self.classes[name].module))
            # private helper classes of different modules may share a name: keep them apart by module
            name = "%s@%s" % (name, os.path.splitext(os.path.basename(rel))[0])
            if name in self.classes:
                raise AnalysisError("duplicate class name %s (%s, %s)" % (name, rel, self.classes[name].module))
        if not prefix:
            self.module_classes.setdefault(rel, {})[node.name] = name
        ci = ClassInfo(name, node, [_base_name(b) for b in node.bases], rel)
        self.classes[name] = ci
        for st in node.body:
            if isinstance(st, ast.ClassDef):
                self._add_class(rel, st, prefix=name + ".")
                ci.inner[st.name] = name + "." + st.name

    # ------------------------------------------------------------------ queries
    def mro(self, name):
        out, todo = [], [name]
        while todo:
            n = todo.pop(0)
            if n in self.classes and n not in out:
                out.append(n)
                local = self.module_classes.get(self.classes[n].module, {})
                todo.extend(local.get(b, b) for b in self.classes[n].bases)
        return out

    BENIGN_BASES = {"object", "ABC", "abc.ABC", "Generic", "typing.Generic", "Protocol", "typing.Protocol", "NamedTuple", "typing.NamedTuple",
                    "Enum", "IntEnum", "enum.Enum", "enum.IntEnum", "StrEnum", "enum.StrEnum", "Flag", "IntFlag", "np.ndarray", "numpy.ndarray",
                    "ndarray", "Exception", "NotImplementedError", "ValueError", "KeyError", "AssertionError", "TypeError", "RuntimeError", "str", "int"}

    def unknown_bases(self, name):
        """Base classes along the MRO that the model knows nothing about (their methods would be invisible)."""
        out = []
        for c in self.mro(name):
            ci = self.classes[c]
            local = self.module_classes.get(ci.module, {})
            for b in ci.bases:
                if local.get(b, b) not in self.classes and b not in self.BENIGN_BASES:
                    out.append(b)
        return out

    def is_subclass(self, name, base):
        return base in self.mro(name)

    def subclasses(self, base, strict=True):
        return sorted(n for n in self.classes if base in self.mro(n) and (n != base or not strict))

    def lookup(self, clsname, attr):
        """('method', (fn, is_cm, is_sm), owner) | ('prop', fn, owner) | ('const', expr, owner) | None"""
        for c in self.mro(clsname):
            ci = self.classes[c]
            if attr in ci.methods:
                return ("method", ci.methods[attr], c)
            if attr in ci.props:
                return ("prop", ci.props[attr], c)
            if attr in ci.consts:
                e = ci.consts[attr]
                if isinstance(e, ast.Name) and e.id in ci.methods:
                    return ("method", ci.methods[e.id], c)        # `alias = method` in the class body: the same function object
                if isinstance(e, ast.Name) and e.id in ci.props:
                    return ("prop", ci.props[e.id], c)
                return ("const", e, c)
        return None

    def setter(self, clsname, attr):
        """The @<attr>.setter function of a property, looked up along the MRO (None if the attribute is not a settable property)."""
        for c in self.mro(clsname):
            ci = self.classes[c]
            if attr in ci.setters:
                return ci.setters[attr]
            if attr in ci.props or attr in ci.methods or attr in ci.consts:
                return None
        return None

    def method(self, clsname, attr):
        k = self.lookup(clsname, attr)
        if k is None or k[0] not in ("method", "prop"):
            raise AnalysisError("anchor vanished: %s.%s" % (clsname, attr))
        return k[1][0] if k[0] == "method" else k[1]

    def own_method(self, clsname, attr):
        ci = self.classes.get(clsname)
        if ci is None:
            raise AnalysisError("anchor vanished: class %s" % clsname)
        if attr in ci.methods:
            return ci.methods[attr][0]
        if attr in ci.props:
            return ci.props[attr]
        return None

    def class_alias(self, name):
        """A class known under `name`, directly or through `from .m import X as name` somewhere in the package."""
        if name in self.classes:
            return name
        for rel, imps in sorted(self.module_imports.items()):
            if name in imps:
                leaf = imps[name].rsplit(".", 1)[-1]
                if leaf in self.classes:
                    return leaf
        return None

    def require_class(self, name):
        if self.class_alias(name) is None:
            raise AnalysisError("anchor vanished: class %s" % name)
        return self.classes[self.class_alias(name)]

    def own_method_alias(self, clsname, attr):
        c = self.class_alias(clsname)
        if c is None:
            raise AnalysisError("anchor vanished: class %s" % clsname)
        return self.own_method(c, attr)

    def all_functions(self):
        """Yield (qualified name, FunctionDef) for every function / method / property in the package."""
        for name, fn in sorted(self.funcs.items()):
            yield name, fn
        for cname, ci in sorted(self.classes.items()):
            for mname, (fn, _, _) in sorted(ci.methods.items()):
                yield "%s.%s" % (cname, mname), fn
            for pname, fn in sorted(ci.props.items()):
                yield "%s.%s" % (cname, pname), fn
            for pname, fn in sorted(ci.setters.items()):
                yield "%s.%s.setter" % (cname, pname), fn

    def units_summary(self):
        return [dict(file=rel, sha256=u["sha256"][:16], lines=u["lines"]) for rel, u in sorted(self.units.items())]

    def where(self, node, fn=None):
        mod = getattr(fn, "_gs_module", None) if fn is not None else None
        return "%s:%s" % (mod or "?", getattr(node, "lineno", "?"))


def fn_label(fn):
    c = getattr(fn, "_gs_class", None)
    return "%s.%s" % (c, fn.name) if c else fn.name


def strip_docstring(body):
    if body and isinstance(body[0], ast.Expr) and isinstance(body[0].value, ast.Constant) and isinstance(body[0].value.value, str):
        return body[1:]
    return body
