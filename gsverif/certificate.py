"""Equality on a path that assumes non-linear exact equalities:  bounded-degree Nullstellensatz certificates.

`vanishes_modulo(d, eqs)` looks for polynomials c_i with   d == sum_i c_i * e_i   as normal forms modulo the ring's rewriting rules
(unit quaternions, cos^2 + sin^2).  When it finds them, d vanishes wherever all e_i vanish -- a proof, whatever the search order.  When
it does not, nothing is concluded.  Variables that occur in no e_i are parameters: d is split by its monomials in them and each
coefficient polynomial (a polynomial in the variables of the e_i) gets its own certificate, so the linear systems stay small
(multipliers of degree <= deg(part) - deg(e_i) in at most a dozen variables), solved exactly over Q.
"""
from fractions import Fraction
import itertools

from . import poly
from .poly import Poly


def _monomials(var_idx, max_deg):
    """All monomials (as sorted tuples of (var, exp)) of total degree <= max_deg in the given variable indices."""
    out = [()]
    for deg in range(1, max_deg + 1):
        for combo in itertools.combinations_with_replacement(sorted(var_idx), deg):
            m = {}
            for v in combo:
                m[v] = m.get(v, 0) + 1
            out.append(tuple(sorted(m.items())))
    return out


def _split_by_parameters(d, evars):
    """d = sum_mu mu * part_mu  with mu monomials in the variables outside evars and part_mu polynomials in evars."""
    parts = {}
    for m, c in d.t.items():
        mu = tuple((v, e) for v, e in m if v not in evars)
        rest = tuple((v, e) for v, e in m if v in evars)
        parts.setdefault(mu, {})[rest] = c
    return {mu: Poly(t) for mu, t in parts.items()}


def _solve(columns, target):
    """Is target (dict monomial -> coef) in the Q-span of the columns (list of dicts)?  Exact Gaussian elimination, column by column
    against a reduced set of pivot rows kept as {pivot monomial: (vector)}."""
    pivots = {}          # pivot monomial -> vector (dict) with coefficient 1 at the pivot, reduced against earlier pivots

    def reduce(vec):
        vec = dict(vec)
        changed = True
        while changed:
            changed = False
            for m in list(vec):
                if m in pivots and vec.get(m):
                    f = vec[m]
                    for k, x in pivots[m].items():
                        nv = vec.get(k, 0) - f * x
                        if nv == 0:
                            vec.pop(k, None)
                        else:
                            vec[k] = nv
                    changed = True
        return vec
    for col in columns:
        v = reduce({k: Fraction(x) for k, x in col.items()})
        if not v:
            continue
        pm = min(v)                 # any fixed choice of pivot
        f = v[pm]
        v = {k: x / f for k, x in v.items()}
        # keep earlier pivot vectors reduced against the new one
        for m0, pv in pivots.items():
            if pm in pv:
                g = pv[pm]
                for k, x in v.items():
                    nv = pv.get(k, 0) - g * x
                    if nv == 0:
                        pv.pop(k, None)
                    else:
                        pv[k] = nv
        pivots[pm] = v
    return not reduce({k: Fraction(x) for k, x in target.items()})


def vanishes_modulo(d, eqs, max_unknowns=2500, max_evars=14):
    """True only if d is proven to vanish wherever every polynomial in eqs vanishes (on the ring's domain)."""
    eqs = [e for e in eqs if e.t]
    if not d.t:
        return True
    if not eqs:
        return False
    evars = set()
    for e in eqs:
        for m in e.t:
            evars.update(v for v, _ in m)
    # the rewriting rules couple a variable with the others of its group (w^2 -> 1 - x^2 - y^2 - z^2): take the groups in
    for v in list(evars):
        r = poly.R.sq_rules.get(v)
        if r is not None:
            for m in r.t:
                evars.update(x for x, _ in m)
    for v, r in poly.R.sq_rules.items():
        if any(x in evars for m in r.t for x, _ in m):
            evars.add(v)
    if len(evars) > max_evars:
        return False
    for mu, part in _split_by_parameters(d, evars).items():
        if not part.t:
            continue
        ok = False
        pdeg = part.total_degree()
        for extra in (0, 1, 2):
            cols = []
            for e in eqs:
                dm = pdeg - e.total_degree() + extra
                if dm < 0:
                    continue
                for m in _monomials(evars, dm):
                    prod = Poly({m: 1}) * e
                    if prod.t:
                        cols.append(prod.t)
                if len(cols) > max_unknowns:
                    break
            if not cols or len(cols) > max_unknowns:
                break
            if _solve(cols, part.t):
                ok = True
                break
        if not ok:
            return False
    return True
