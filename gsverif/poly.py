"""Sparse multivariate polynomials over Q with a quotient by relations of the form var**2 -> poly.

This is the value domain of the algebraic abstract interpreter (Engine A).  Coefficients are python ints or
Fractions (float literals of the analysed source are converted *exactly*).  The rewrite rules registered in
the current ring are:

* unit quaternion:   w**2  -> 1 - x**2 - y**2 - z**2
* trigonometry:      sin(t)**2 -> 1 - cos(t)**2
* square-root atoms: atom**2 -> argument          (np.sqrt / np.linalg.norm)

The leading terms (squares of distinct variables) are pairwise coprime, so the rules form a Groebner basis and
normal forms are unique: two expressions are equal on the variety iff their normal forms are identical.

All state lives in a Ring object; `reset()` installs a fresh one (each obligation starts from a fresh ring).
"""
from fractions import Fraction


class Ring:
    def __init__(self):
        self.vars = []       # index -> name
        self.vidx = {}       # name -> index
        self.sq_rules = {}   # var index -> Poly that var**2 rewrites to
        self.deriv = {}      # var index -> {wrt var index: Poly}  chain rules of trig atoms
        self.atoms = {}      # (kind, frozenset(arg terms)) -> atom var name
        self.atom_arg = {}   # atom var index -> (kind, arg Poly)
        self.angles = {}     # base angle var name -> (cos Poly, sin Poly)


R = Ring()


def reset():
    global R
    R = Ring()
    return R


def var_index(name):
    i = R.vidx.get(name)
    if i is None:
        i = len(R.vars)
        R.vidx[name] = i
        R.vars.append(name)
    return i


def _num(x):
    if isinstance(x, bool):
        raise TypeError("bool is not a number here")
    if isinstance(x, int):
        return x
    if isinstance(x, Fraction):
        return x.numerator if x.denominator == 1 else x
    if isinstance(x, float):
        if x != x or x in (float("inf"), float("-inf")):
            raise TypeError("non-finite constant")
        if x.is_integer():
            return int(x)
        return Fraction(x)
    raise TypeError("not a number: %r" % (x,))


EQ_HOOK = None      # set by the obligation runner: equality of two values *on the current path* (which may assume exact equalities)


class Poly:
    __slots__ = ("t",)

    def __init__(self, terms=None):
        self.t = terms if terms is not None else {}

    # ---------------------------------------------------------------- constructors
    @staticmethod
    def const(c):
        c = _num(c)
        return Poly({(): c} if c != 0 else {})

    @staticmethod
    def var(name):
        return Poly({((var_index(name), 1),): 1})

    # ---------------------------------------------------------------- predicates
    def is_zero(self):
        return not self.t

    def is_const(self):
        return not self.t or (len(self.t) == 1 and () in self.t)

    def const_value(self):
        """The constant value if the polynomial is constant, else None."""
        if not self.t:
            return 0
        if len(self.t) == 1 and () in self.t:
            return self.t[()]
        return None

    # ---------------------------------------------------------------- arithmetic
    def __add__(self, o):
        o = as_poly(o)
        if not o.t:
            return self
        if not self.t:
            return o
        r = dict(self.t)
        for m, c in o.t.items():
            v = r.get(m, 0) + c
            if v == 0:
                r.pop(m, None)
            else:
                r[m] = v
        return Poly(r)

    __radd__ = __add__

    def __neg__(self):
        return Poly({m: -c for m, c in self.t.items()})

    def __sub__(self, o):
        return self + (-as_poly(o))

    def __rsub__(self, o):
        return as_poly(o) - self

    def __mul__(self, o):
        o = as_poly(o)
        if not self.t or not o.t:
            return Poly()
        if len(self.t) < len(o.t):
            a, b = self.t, o.t
        else:
            a, b = o.t, self.t
        r = {}
        rules = R.sq_rules
        for m1, c1 in a.items():
            for m2, c2 in b.items():
                c = c1 * c2
                if not m1:
                    m, needs = m2, False
                elif not m2:
                    m, needs = m1, False
                else:
                    d = dict(m1)
                    for v, e in m2:
                        d[v] = d.get(v, 0) + e
                    needs = False
                    if rules:
                        for v, e in d.items():
                            if e >= 2 and v in rules:
                                needs = True
                                break
                    m = tuple(sorted(d.items()))
                if needs:
                    for mm, cc in reduce_mono(m).t.items():
                        v = r.get(mm, 0) + cc * c
                        if v == 0:
                            r.pop(mm, None)
                        else:
                            r[mm] = v
                else:
                    v = r.get(m, 0) + c
                    if v == 0:
                        r.pop(m, None)
                    else:
                        r[m] = v
        return Poly({m: _num(c) for m, c in r.items()})

    __rmul__ = __mul__

    def __pow__(self, n):
        if not isinstance(n, int) or n < 0:
            raise TypeError("power must be a non-negative int")
        r = Poly.const(1)
        for _ in range(n):
            r = r * self
        return r

    def scale(self, c):
        c = _num(c)
        if c == 0:
            return Poly()
        return Poly({m: _num(v * c) for m, v in self.t.items()})

    def __eq__(self, o):
        if not isinstance(o, Poly):
            try:
                o = as_poly(o)
            except TypeError:
                return NotImplemented
        if self.t == o.t:
            return True
        if EQ_HOOK is not None:
            return EQ_HOOK(self, o)
        return False

    def __ne__(self, o):
        r = self.__eq__(o)
        return r if r is NotImplemented else not r

    def __hash__(self):
        return hash(frozenset(self.t.items()))

    def key(self):
        return frozenset(self.t.items())

    # ---------------------------------------------------------------- normal form
    def renormalize(self):
        """Re-reduce after new rules were registered."""
        r = Poly()
        for m, c in self.t.items():
            r = r + reduce_mono(m).scale(c)
        return r

    # ---------------------------------------------------------------- calculus
    def diff(self, name):
        """Formal partial derivative w.r.t. variable `name` with the registered chain rules.

        Atoms without a registered chain rule (sqrt/norm atoms) are treated as constants; callers that
        differentiate expressions containing such atoms must justify that (see interp.diff_at)."""
        k = var_index(name)
        r = Poly()
        for m, c in self.t.items():
            for i, (v, e) in enumerate(m):
                if v == k:
                    dv = None
                    rest = m[:i] + (((v, e - 1),) if e > 1 else ()) + m[i + 1:]
                    r = r + Poly({rest: _num(c * e)})
                    continue
                dv = R.deriv.get(v, {}).get(k)
                if dv is None:
                    continue
                rest = m[:i] + (((v, e - 1),) if e > 1 else ()) + m[i + 1:]
                r = r + Poly({rest: _num(c * e)}) * dv
        return r

    def subs(self, mapping):
        """Substitute variables (by name) with Polys / numbers."""
        mp = {var_index(k): as_poly(v) for k, v in mapping.items()}
        if not mp:
            return self
        touched = False
        acc = {}
        cache = {}
        # fast path: every substituted value is a single monomial (a constant, a renamed variable, c*y): rewrite the monomials
        mono = {}
        for v, q in mp.items():
            if len(q.t) > 1:
                mono = None
                break
            mono[v] = next(iter(q.t.items())) if q.t else None
        rules = R.sq_rules
        for m, c in self.t.items():
            if mono is not None:
                if not any(v in mono for v, e in m):
                    items = ((m, c),)
                else:
                    touched = True
                    d = {}
                    coef = c
                    for v, e in m:
                        if v in mono:
                            if mono[v] is None:
                                coef = 0
                                break
                            m2, c2 = mono[v]
                            coef = coef * c2 ** e
                            for v2, e2 in m2:
                                d[v2] = d.get(v2, 0) + e2 * e
                        else:
                            d[v] = d.get(v, 0) + e
                    if coef == 0:
                        continue
                    mm = tuple(sorted(d.items()))
                    if rules and any(e >= 2 and v in rules for v, e in mm):
                        items = [(m3, c3 * coef) for m3, c3 in reduce_mono(mm).t.items()]
                    else:
                        items = ((mm, coef),)
            else:
                keep = []
                term = None
                for v, e in m:
                    if v in mp:
                        key = (v, e)
                        if key not in cache:
                            cache[key] = mp[v] ** e
                        term = cache[key] if term is None else term * cache[key]
                    else:
                        keep.append((v, e))
                if term is None:
                    items = ((m, c),)
                else:
                    touched = True
                    items = (Poly({tuple(keep): c}) * term).t.items()
            for m2, c2 in items:
                v2 = acc.get(m2, 0) + c2
                if v2 == 0:
                    acc.pop(m2, None)
                else:
                    acc[m2] = _num(v2)
        return Poly(acc) if touched else self

    # ---------------------------------------------------------------- inspection
    def variables(self):
        return {R.vars[v] for m in self.t for v, _ in m}

    def degree_in(self, names):
        ks = {var_index(n) for n in names}
        return max((sum(e for v, e in m if v in ks) for m in self.t), default=0)

    def total_degree(self):
        return max((sum(e for _, e in m) for m in self.t), default=0)

    def nterms(self):
        return len(self.t)

    def __repr__(self):
        if not self.t:
            return "0"
        out = []
        for m, c in sorted(self.t.items(), key=lambda kv: [(R.vars[v], e) for v, e in kv[0]]):
            mon = "*".join(R.vars[v] + ("^%d" % e if e > 1 else "") for v, e in m)
            if not mon:
                out.append("%s" % (c,))
            elif c == 1:
                out.append(mon)
            elif c == -1:
                out.append("-" + mon)
            else:
                out.append("%s*%s" % (c, mon))
        return " + ".join(out)

    def short(self, limit=160):
        s = repr(self)
        return s if len(s) <= limit else s[:limit] + " ... (%d terms)" % len(self.t)


def as_poly(x):
    if isinstance(x, Poly):
        return x
    return Poly.const(x)


def reduce_mono(m):
    """Reduce a monomial modulo var**2 -> rule, for *all* reducible variables (regression: the spike reduced
    only the first one and left sin**2 terms behind)."""
    keep = []
    factors = []
    rules = R.sq_rules
    for v, e in m:
        if e >= 2 and v in rules:
            q, r = divmod(e, 2)
            if r:
                keep.append((v, 1))
            factors.append(rules[v] ** q)
        else:
            keep.append((v, e))
    p = Poly({tuple(keep): 1})
    for f in factors:
        p = p * f
    return p


# -------------------------------------------------------------------- registrations
def unit_quaternion(names):
    """names = (x, y, z, w) variable names; registers w**2 -> 1 - x**2 - y**2 - z**2."""
    x, y, z = (Poly.var(n) for n in names[:3])
    R.sq_rules[var_index(names[3])] = Poly.const(1) - x * x - y * y - z * z


def register_angle(name):
    """Register cos/sin atoms for base angle variable `name`; returns the angle variable as a Poly."""
    if name not in R.angles:
        c, s = Poly.var("cos(%s)" % name), Poly.var("sin(%s)" % name)
        ci, si, ai = var_index("cos(%s)" % name), var_index("sin(%s)" % name), var_index(name)
        R.sq_rules[si] = Poly.const(1) - c * c
        R.deriv[ci] = {ai: -s}
        R.deriv[si] = {ai: c}
        R.angles[name] = (c, s)
    return Poly.var(name)


def atom(kind, p):
    """An atom a with a**2 -> p (kind in {'sqrt', 'norm'}); the same argument yields the same atom."""
    key = ("sqrt", p.key())        # np.linalg.norm(v) and np.sqrt(v . v) are the same number: one atom per argument
    name = R.atoms.get(key)
    if name is None:
        name = "%s#%d" % (kind, len(R.atoms))
        R.atoms[key] = name
        i = var_index(name)
        R.sq_rules[i] = p
        R.atom_arg[i] = (kind, p)
    return Poly.var(name)


def eval_at(p, env, _depth=0):
    """Exact value (Fraction) of polynomial p at the point `env` (variable name -> Fraction), evaluating sqrt / norm atoms
    recursively when their argument is a perfect rational square; None when some variable has no value or a root is irrational."""
    import math
    if _depth > 12:
        return None
    total = Fraction(0)
    for m, c in p.t.items():
        term = Fraction(c)
        for vi, e in m:
            name = R.vars[vi]
            val = env.get(name)
            if val is None and vi in R.atom_arg:
                arg = eval_at(R.atom_arg[vi][1], env, _depth + 1)
                if arg is None or arg < 0:
                    return None
                a, b = math.isqrt(arg.numerator), math.isqrt(arg.denominator)
                if a * a != arg.numerator or b * b != arg.denominator:
                    return None
                val = Fraction(a, b)
                env[name] = val
            if val is None:
                return None
            term *= Fraction(val) ** e
        total += term
    return total


def opaque(name):
    """A fresh transcendental / uninterpreted scalar (np.pi, eps, ...)."""
    return Poly.var(name)


def selftest():
    """Regression self-test of the normal form (run by every check before it trusts the engine)."""
    reset()
    a = register_angle("t")
    c, s = R.angles["t"]
    assert (s * s + c * c) == Poly.const(1)
    assert ((s * s) * (s * s)) == (Poly.const(1) - c * c) * (Poly.const(1) - c * c)
    unit_quaternion(("x", "y", "z", "w"))
    x, y, z, w = (Poly.var(n) for n in "xyzw")
    assert (w * w + x * x + y * y + z * z) == Poly.const(1)
    # both reducible variables in one monomial (the spike bug)
    lhs = (w * w) * (s * s)
    rhs = (Poly.const(1) - x * x - y * y - z * z) * (Poly.const(1) - c * c)
    assert lhs == rhs and (w * s) * (w * s) == rhs
    assert (w ** 3) == w * (Poly.const(1) - x * x - y * y - z * z)
    n = atom("norm", x * x + y * y)
    assert n * n == x * x + y * y
    assert (Poly.var("u") * 3).diff("u") == Poly.const(3)
    assert s.diff("t") == c and c.diff("t") == -s
    assert Poly.const(0.5) + Poly.const(0.5) == Poly.const(1)
    assert Poly.const(0.1) * 10 != Poly.const(1)  # float literals are exact binary values
    reset()
    return True
