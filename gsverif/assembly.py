"""Linear-system assembly scenarios (shared by C03-b/c and C06-c/e).

The package's own code path  edges' calc_chi2_gradient_hessian -> _Chi2GradientHessian.update (reduce) ->
Graph._calc_chi2_gradient_hessian  is interpreted in the algebraic domain on a small graph *shape* (which vertices an
edge names, in which order, which vertices are fixed) with fully symbolic errors, Jacobians and (symmetric)
information matrices.  Control flow of that code depends only on the index structure, never on numeric values, so
each scenario yields exact normal forms of every entry of b and H, which are compared with the checker's own
reference assembly  b = sum J^T W e,  H = sum J^T W J  with fixed rows/columns replaced by the identity.
"""
import ast

from .poly import Poly
from .interp import param_const, ga, sa, Arr, Obj, sym_pose, sym_vec, sym_mat, PathRaise
from .algebra import ObFail, run_obligation, CDIM
from .model import AnalysisError


class Scenario:
    def __init__(self, name, vtypes, edges, fixed=(), fix_first_pose=False, err_len=2, alias=None, symbolic_ids=False, identical_edges=False,
                 int_flags=False, same_object=()):
        self.same_object = tuple(same_object)   # (i, j): entry j of the edge list is the very same edge object as entry i
        self.int_flags = int_flags   # the fixed flags are given as 1 / 0 (as the package's own tests do), not as True / False
        self.identical_edges = identical_edges   # all edges carry the same symbolic error / information / Jacobians (cheap for thousands of edges)
        self.name, self.vtypes, self.edges, self.fixed, self.ffp, self.err_len = name, vtypes, edges, set(fixed), fix_first_pose, err_len
        self.alias = alias      # (i, j): vertices i and j hold the *same* pose object
        self.symbolic_ids = symbolic_ids   # ids are opaque pairwise-distinct names: every order relation between them is explored


BASE_V = ["PoseR2", "PoseSE2", "PoseR2"]
BASE_E = [(0, 1), (1, 0), (0, 1), (2,), (2, 0, 1)]

SCENARIOS = [
    Scenario("free", BASE_V, BASE_E),
    Scenario("fix-first", BASE_V, BASE_E, fix_first_pose=True),
    Scenario("fixed-middle", BASE_V, BASE_E, fixed=[1]),
    Scenario("fixed-two", BASE_V, BASE_E, fixed=[0, 2]),
    Scenario("fixed-marked-plus-first", BASE_V, BASE_E, fixed=[2], fix_first_pose=True),
    Scenario("all-fixed", BASE_V, BASE_E, fixed=[0, 1, 2]),
    Scenario("fixed-two-flags-given-as-1-and-0", BASE_V, BASE_E, fixed=[0, 2], int_flags=True),
    Scenario("isolated-fixed-vertex", BASE_V + ["PoseR3"], BASE_E, fixed=[3], fix_first_pose=True),
    Scenario("isolated-fixed-vertex-first", ["PoseR3"] + BASE_V, [tuple(k + 1 for k in e) for e in BASE_E], fix_first_pose=True),
    Scenario("parallel-only", ["PoseSE2", "PoseSE2"], [(0, 1), (0, 1), (1, 0)], fix_first_pose=True),
    Scenario("parallel-free", ["PoseSE2", "PoseR2", "PoseSE2"], [(0, 2), (0, 2), (2, 0), (2, 0), (0, 2), (1, 0)]),
    # the same edge object listed twice (e.g. `half = Edge(ids, 0.5 * info, z); edges += [half, half]`): every entry of the list counts
    Scenario("same-edge-object-listed-twice", BASE_V, BASE_E + [BASE_E[0], BASE_E[4]], fix_first_pose=True, same_object=[(0, 5), (4, 6)]),
]

# (first call, second call on the SAME graph object): nothing of the first assembly may survive into the second
SEQUENCES = [
    (Scenario("seq-free", BASE_V, BASE_E), Scenario("seq-then-fixed-middle", BASE_V, BASE_E, fixed=[1])),
    (Scenario("seq-fixed-two", BASE_V, BASE_E, fixed=[0, 2]), Scenario("seq-then-free", BASE_V, BASE_E)),
    (Scenario("seq-fix-first", BASE_V, BASE_E, fix_first_pose=True), Scenario("seq-then-also-last", BASE_V, BASE_E, fixed=[0, 2])),
]


def truthy(x):
    """Truth value of a flag of the analysed program (True / False, or a number)."""
    if isinstance(x, Poly):
        c = x.const_value()
        return c is None or c != 0
    return bool(x)


def sym_symmetric(name, n):
    return Arr([[Poly.var("%s[%d,%d]" % (name, min(i, j), max(i, j))) for j in range(n)] for i in range(n)], 2)


def prelude_statements(pkg):
    """The statements of Graph.optimize before its main loop.  They are interpreted with the scenario's graph to establish the
    fixed set exactly as the code does; statements that cannot be interpreted (timing, printing) are skipped unless the fixed-set
    statements depend on them (backward slice on names)."""
    from .inline import inline_helpers
    fn, _ = inline_helpers(pkg, pkg.method("Graph", "optimize"), keep=("_calc_chi2_gradient_hessian", "calc_chi2", "_initialize"))
    pre = []

    def is_main_loop(st):
        return isinstance(st, (ast.For, ast.While)) and any(isinstance(x, ast.Call) and "_calc_chi2_gradient_hessian" in ast.unparse(x.func) for x in ast.walk(st))

    def collect(stmts):
        """statements executed before the main loop; descends into with/try blocks that contain the loop"""
        for st in stmts:
            if is_main_loop(st):
                return True
            if isinstance(st, (ast.With, ast.Try)) and any(is_main_loop(x) for x in ast.walk(st)):
                if isinstance(st, ast.With):
                    for item in st.items:
                        if item.optional_vars is not None:
                            pre.append(ast.Assign(targets=[item.optional_vars], value=item.context_expr, lineno=st.lineno))
                if collect(st.body):
                    return True
                continue
            pre.append(st)
        return False
    collect(fn.body)

    def stores_fixed(st):
        return any(isinstance(n, ast.Attribute) and isinstance(n.ctx, ast.Store) and n.attr in ("fixed", "_fixed_gradient_indices") for n in ast.walk(st)) or \
            any(isinstance(n, ast.Call) and isinstance(n.func, ast.Attribute) and isinstance(n.func.value, ast.Attribute) and
                n.func.value.attr == "_fixed_gradient_indices" for n in ast.walk(st))
    if not any(stores_fixed(st) for st in pre):
        raise AnalysisError("anchor vanished: Graph.optimize no longer establishes self._fixed_gradient_indices before its loop")
    relevant = set()
    needed = [False] * len(pre)
    for _ in range(4):
        for k in range(len(pre) - 1, -1, -1):
            st = pre[k]
            stored = {n.id for n in ast.walk(st) if isinstance(n, ast.Name) and isinstance(n.ctx, ast.Store)}
            if stores_fixed(st) or (stored & relevant):
                needed[k] = True
                relevant |= {n.id for n in ast.walk(st) if isinstance(n, ast.Name) and isinstance(n.ctx, ast.Load)}
    return fn, list(zip(pre, needed))


def run_prelude(it, g, ffp):
    from .interp import Unsupported
    ofn, prelude = prelude_statements(it.pkg)
    env = {"self": g, "fix_first_pose": ffp, "verbose": False, "tol": Poly.var("tol"), "max_iter": Poly.const(3), "__class__": None}
    it.fn_stack.append(ofn)
    try:
        for st, needed in prelude:
            if isinstance(st, ast.Expr) and isinstance(st.value, ast.Constant):
                continue
            try:
                it.stmt(st, env)
            except Unsupported:
                if needed:
                    raise
    finally:
        it.fn_stack.pop()
    return ofn, env


def _build(it, scn):
    dims = [CDIM[t] for t in scn.vtypes]
    poses = [sym_pose(t, "x%d" % k) for k, t in enumerate(scn.vtypes)]
    if scn.alias:
        poses[scn.alias[1]] = poses[scn.alias[0]]
    def vid(k):
        return Poly.var("id%d" % k) if scn.symbolic_ids else Poly.const(100 + 7 * k)
    def flag(k):
        on = k in scn.fixed
        return Poly.const(1 if on else 0) if getattr(scn, "int_flags", False) else on
    verts = [it.construct("Vertex", [vid(k), poses[k]], dict(fixed=flag(k))) for k in range(len(dims))]
    edges, spec = [], []
    m = scn.err_len
    shared = {}
    for ei, vs in enumerate(scn.edges):
        tag = ei
        if getattr(scn, "identical_edges", False):
            tag = "s%s" % "_".join(map(str, vs))
        if tag not in shared:
            shared[tag] = (sym_vec("e%s" % tag, m), sym_symmetric("W%s" % tag, m), [sym_mat("J%s_%d" % (tag, k), m, dims[v]) for k, v in enumerate(vs)])
        err, W, Js = shared[tag]
        from .algebra import custom_edge
        twin_of = [i for i, j in getattr(scn, "same_object", ()) if j == ei]
        if twin_of:
            edges.append(edges[twin_of[0]])
            spec.append(spec[twin_of[0]])
            continue
        e = custom_edge(it, [vid(v) for v in vs], W, None, None)
        e.stubs["calc_error"] = (lambda err=err: err)
        e.stubs["calc_jacobians"] = (lambda Js=Js: list(Js))
        e.stubs["is_valid"] = lambda: True
        edges.append(e)
        spec.append((vs, err, W, Js))
    g = it.construct("Graph", [edges, verts])
    return g, verts, dims, spec


class _Captured(Exception):
    pass


def first_linear_system(it, g, ffp):
    """Run the real optimize(max_iter=1, fix_first_pose=ffp) up to its first linear solve and hand back what it is about to solve:
    (H, rhs, chi2 stored by the assembly).  Independent of how optimize() is organised (helpers, context managers, ...)."""
    from .interp import Unsupported
    box = {}

    def capture(H, rhs, *a, **k):
        box["H"], box["rhs"], box["chi2"] = H, rhs, ga(g, "_chi2", None)
        raise _Captured()
    saved = dict(it.overrides), it.lossy_ok
    it.overrides.update(spsolve=capture, time=lambda *a, **k: Poly.var("t#"), perf_counter=lambda *a, **k: Poly.var("t#"),
                        monotonic=lambda *a, **k: Poly.var("t#"))
    it.lossy_ok = True
    try:
        it.call_method(g, "optimize", [], dict(tol=Poly.var("tol"), max_iter=param_const(it, 1), fix_first_pose=ffp, verbose=False))
    except _Captured:
        pass
    finally:
        it.overrides.clear()
        it.overrides.update(saved[0])
        it.lossy_ok = saved[1]
    if "H" not in box:
        raise ObFail("optimize(max_iter=1) returns without solving a linear system")
    return box["H"], box["rhs"], box["chi2"]


def _assemble_and_compare(it, g, verts, dims, spec, scn, label="", chi2_only=False):
    from .interp import Unsupported
    pkg = it.pkg
    fixed = set(scn.fixed) | ({0} if scn.ffp else set())
    try:
        H, rhs, chi2 = first_linear_system(it, g, scn.ffp)
        if not isinstance(rhs, Arr):
            raise ObFail("%sthe right-hand side handed to the linear solve is not an array" % label)
        b = rhs.map(lambda x: -x)
        via = "optimize"
    except Unsupported:
        # optimize() itself could not be translated: interpret its pre-loop statements and call the assembly directly
        run_prelude(it, g, scn.ffp)
        it.call_method(g, "_calc_chi2_gradient_hessian", [])
        from .interp import gp
        b, H, chi2 = gp(g, "_gradient"), gp(g, "_hessian"), gp(g, "_chi2")
        via = "prelude"
    for k, v in enumerate(verts):
        if truthy(ga(v, "fixed", None)) != (k in fixed):
            raise ObFail("%swhen optimize(fix_first_pose=%r) assembles its first system vertex %d has fixed=%r, expected %r" % (
                label, scn.ffp, k, ga(v, "fixed", None), k in fixed))
    offs = [sum(dims[:k]) for k in range(len(dims))]
    n = sum(dims)
    # ---- the checker's reference assembly
    eb = [Poly() for _ in range(n)]
    eH = [[Poly() for _ in range(n)] for _ in range(n)]
    echi = Poly()
    for vs, err, W, Js in spec:
        eW = it.dot(err, W, None)
        echi = echi + it.dot(eW, err, None)
        for k, v in enumerate(vs):
            if v in fixed:
                continue
            blk = it.dot(eW, Js[k], None)
            for a in range(dims[v]):
                eb[offs[v] + a] = eb[offs[v] + a] + blk.data[a]
        for i, vi in enumerate(vs):
            for j, vj in enumerate(vs):
                if vi in fixed or vj in fixed:
                    continue
                blk = it.dot(it.dot(Js[i].T(), W, None), Js[j], None)
                for a in range(dims[vi]):
                    for c in range(dims[vj]):
                        eH[offs[vi] + a][offs[vj] + c] = eH[offs[vi] + a][offs[vj] + c] + blk.data[a][c]
    for v in fixed:
        for a in range(dims[v]):
            eH[offs[v] + a][offs[v] + a] = Poly.const(1)
    # ---- compare
    if chi2 is None and via == "optimize":
        if chi2_only:
            from .model import AnalysisError as _AE
            raise _AE("anchor vanished: Graph._chi2 (the harness reads the chi^2 stored by the assembly under that private name)")
    elif not isinstance(chi2, Poly) or chi2 != echi:
        raise ObFail("%sthe chi^2 stored by _calc_chi2_gradient_hessian is not the sum of all edges' e^T W e (the graph's chi^2)" % label)
    if chi2_only:
        direct = it.call_method(g, "calc_chi2", [])
        if not isinstance(direct, Poly) or direct != echi:
            raise ObFail("%sGraph.calc_chi2() is not the sum of all edges' e^T W e" % label)
        return dict(scenario=scn.name, fixed=sorted(fixed), chi2_terms=len(echi.t))
    if not isinstance(b, Arr) or b.shape != (n,):
        raise ObFail("%sgradient has shape %s, expected (%d,)" % (label, getattr(b, "shape", None), n))
    if not isinstance(H, Arr) or H.shape != (n, n):
        raise ObFail("%sHessian has shape %s, expected (%d, %d)" % (label, getattr(H, "shape", None), n, n))

    def owner(idx):
        for k in range(len(dims)):
            if offs[k] <= idx < offs[k] + dims[k]:
                return k
    for r in range(n):
        if b.data[r] != eb[r]:
            k = owner(r)
            raise ObFail("%sgradient block of vertex %d (%s) differs from sum_e J^T W e: entry %d, code - expected = %s" % (
                label, k, "fixed" if k in fixed else "free", r, (b.data[r] - eb[r]).short(160)))
    for r in range(n):
        for c in range(n):
            if H.data[r][c] != eH[r][c]:
                kr, kc = owner(r), owner(c)
                raise ObFail("%sHessian block (vertex %d%s, vertex %d%s) differs from the reference assembly: entry [%d,%d], code - expected = %s" % (
                    label, kr, " fixed" if kr in fixed else "", kc, " fixed" if kc in fixed else "", r, c, (H.data[r][c] - eH[r][c]).short(160)))
    return dict(scenario=scn.name, vertices=len(dims), edges=len(scn.edges), fixed=sorted(fixed), n=n)


def assembly_obligation(scn, chi2_only=False, allow_size_thresholds=False):
    def fn(it):
        g, verts, dims, spec = _build(it, scn)
        return _assemble_and_compare(it, g, verts, dims, spec, scn, chi2_only=chi2_only)

    def names_hook(d):
        vs = d.variables()
        if len(vs) == 2 and len(d.t) == 2 and all(v.startswith("id") for v in vs) and sorted(d.t.values()) == [-1, 1] and d.total_degree() == 1:
            return {-1, 1}
        return None
    return lambda pkg: run_obligation(pkg, fn, hook=names_hook if scn.symbolic_ids else None, allow_size_thresholds=allow_size_thresholds)


REAL_SHAPES = {
    # kind -> (vertex types, [(edge class, (i, j))]): every vertex is touched by several edges, landmark edges in both roles
    "R2": (["PoseR2", "PoseR2", "PoseR2"], [("EdgeOdometry", (0, 1)), ("EdgeLandmark", (1, 2)), ("EdgeLandmark", (0, 2)), ("EdgeOdometry", (2, 1)),
                                            ("EdgeLandmark", (2, 0))]),
    "R3": (["PoseR3", "PoseR3", "PoseR3"], [("EdgeOdometry", (0, 1)), ("EdgeLandmark", (1, 2)), ("EdgeLandmark", (0, 2)), ("EdgeLandmark", (2, 1))]),
    "SE2": (["PoseSE2", "PoseR2", "PoseSE2"], [("EdgeOdometry", (0, 2)), ("EdgeLandmark", (0, 1)), ("EdgeLandmark", (2, 1)), ("EdgeOdometry", (2, 0))]),
}


def real_edges_obligation(kind, fixed=(), ffp=True):
    """The same assembly comparison on a graph of the package's *own* edge classes (odometry and landmark edges with offsets): the
    reference is built from each edge's own calc_error / calc_jacobians / information as they are before the assembly runs.  The
    system is assembled twice on the same graph (as two iterations do) and must be the same both times, and no edge's measurement,
    offset or information matrix may have changed afterwards: the assembly reads the edges, it does not write them."""
    from .algebra import POINT_OF
    from .interp import Pose

    def snapshot(x):
        if isinstance(x, Pose):
            return ("pose", x.cls, list(x.data))
        if isinstance(x, Arr):
            return ("arr", x.shape, list(x.flat()))
        return ("other", x)

    def fn(it):
        vtypes, eds = REAL_SHAPES[kind]
        dims = [CDIM[t] for t in vtypes]
        verts = [it.construct("Vertex", [Poly.const(100 + 7 * k), sym_pose(t, "x%d" % k)], dict(fixed=(k in fixed))) for k, t in enumerate(vtypes)]
        edges = []
        for ei, (ec, (i, j)) in enumerate(eds):
            ids = [Poly.const(100 + 7 * i), Poly.const(100 + 7 * j)]
            if ec == "EdgeOdometry":
                t = vtypes[i]
                e = it.construct(ec, [ids, sym_symmetric("W%d" % ei, CDIM[t]), sym_pose(t, "z%d" % ei)])
            else:
                tz = vtypes[j]
                e = it.construct(ec, [ids, sym_symmetric("W%d" % ei, CDIM[tz]), sym_pose(tz, "z%d" % ei), sym_pose(vtypes[i], "off%d" % ei)])
            edges.append(e)
        g = it.construct("Graph", [edges, verts])
        spec, before = [], []
        for e, (ec, vs) in zip(edges, eds):
            err = it.call_method(e, "calc_error", [])
            Js = it.call_method(e, "calc_jacobians", [])
            W = ga(e, "information")
            spec.append((vs, Arr(list(err.data), 1), Arr([list(r) for r in W.data], 2), [Arr([list(r) for r in J.data], 2) for J in Js]))
            before.append({f: snapshot(ga(e, f, None)) for f in ("information", "estimate", "offset")})
        scn = Scenario("real-%s" % kind, vtypes, [vs for _, vs in eds], fixed=fixed, fix_first_pose=ffp)
        st = _assemble_and_compare(it, g, verts, dims, spec, scn, label="first assembly: ")
        for e, b, (ec, vs) in zip(edges, before, eds):
            for f, was in b.items():
                if snapshot(ga(e, f, None)) != was:
                    raise ObFail("assembling the linear system changes the %s of the %s between vertices %s (an edge's own data is handed "
                                 "out and then accumulated into)" % (f, ec, list(vs)))
        _assemble_and_compare(it, g, verts, dims, spec, scn, label="second assembly of the same graph: ")
        for e, b, (ec, vs) in zip(edges, before, eds):
            for f, was in b.items():
                if snapshot(ga(e, f, None)) != was:
                    raise ObFail("assembling the linear system twice changes the %s of the %s between vertices %s" % (f, ec, list(vs)))
        # the caller re-weights some edges between two runs (edge.information = W'): the next system uses the new weights
        spec2 = list(spec)
        for ei in range(0, len(edges), 2):
            vs, err, W, Js = spec2[ei]
            W2 = sym_symmetric("Wnew%d" % ei, W.shape[0])
            sa(edges[ei], "information", W2)
            spec2[ei] = (vs, err, Arr([list(r) for r in W2.data], 2), Js)
        _assemble_and_compare(it, g, verts, dims, spec2, scn, label="third assembly, after the caller assigned new information matrices to some edges: ")
        st["scenario"] = scn.name
        return st
    return lambda pkg: run_obligation(pkg, fn)


def directed_assembly_tasks(prefix, rule, where, chi2_only=False):
    """Factory for `algebra.across_thresholds`: assembly scenarios whose numbers of vertices / edges / unknowns lie on the far side
    of (and right at) each size constant: a star-plus-chain over k vertices for k around c/2, c and 2c."""
    def make(consts):
        out = []
        for c in consts:
            for k in sorted({max(c // 2 - 1, 2), max(c // 2, 2), c // 2 + 1, max(c - 1, 2), c, c + 1, 2 * c}):
                vt = ["PoseSE2"] + ["PoseR2"] * (k - 1)
                ed = [(0, j) for j in range(1, k)] + [(j, j + 1) for j in range(1, k - 1)]
                scn = Scenario("directed/%d-vertices" % k, vt, ed, fix_first_pose=True, identical_edges=True)
                out.append(("%s/%s (aimed at the size constant %d in the code)" % (prefix, scn.name, c), rule,
                            assembly_obligation(scn, chi2_only=chi2_only, allow_size_thresholds=True), where))
        return out
    return make


def sequence_obligation(first, second):
    """Assemble twice on the same graph object with different fixed sets (as two consecutive optimize() calls would)."""
    def fn(it):
        g, verts, dims, spec = _build(it, first)
        _assemble_and_compare(it, g, verts, dims, spec, first, label="first call: ")
        for k, v in enumerate(verts):
            sa(v, "fixed", k in second.fixed)      # the user changes the fixed flags between two calls
        st = _assemble_and_compare(it, g, verts, dims, spec, second,
                                   label="second call on the same graph (fixed set changed from %s to %s): " % (sorted(first.fixed | ({0} if first.ffp else set())), sorted(second.fixed)))
        st["scenario"] = "%s -> %s" % (first.name, second.name)
        return st
    return lambda pkg: run_obligation(pkg, fn)


def edited_edges_obligation(scn, edit):
    """Assemble, let the caller change the *edges* (re-weight one: edge.information = W'; or append another edge to the graph's edge
    list) while the poses stay where they are, assemble again: the second system must be that of the edges as they are now."""
    from .algebra import custom_edge

    def fn(it):
        from .interp import gp
        g, verts, dims, spec = _build(it, scn)
        _assemble_and_compare(it, g, verts, dims, spec, scn, label="first assembly: ")
        edges = gp(g, "_edges")
        if edit == "reweight":
            vs, err, W, Js = spec[0]
            W2 = sym_symmetric("Wnew", scn.err_len)
            sa(edges[0], "information", W2)
            spec = [(vs, err, W2, Js)] + list(spec[1:])
            what = "after the caller re-weighted an edge (edge.information = ...)"
        else:
            vs = scn.edges[0]
            m = scn.err_len
            err, W, Js = sym_vec("eX", m), sym_symmetric("WX", m), [sym_mat("JX_%d" % k, m, dims[v]) for k, v in enumerate(vs)]
            e = custom_edge(it, [ga(verts[v], "id") for v in vs], W, None, [verts[v] for v in vs])
            e.stubs["calc_error"] = (lambda err=err: err)
            e.stubs["calc_jacobians"] = (lambda Js=Js: list(Js))
            e.stubs["is_valid"] = lambda: True
            edges.append(e)
            spec = list(spec) + [(vs, err, W, Js)]
            what = "after the caller appended an edge to the graph's edge list"
        st = _assemble_and_compare(it, g, verts, dims, spec, scn, label="second assembly, %s with all poses unchanged: " % what)
        st["scenario"] = "%s + %s" % (scn.name, edit)
        return st
    return lambda pkg: run_obligation(pkg, fn)


def update_sweep_obligation(scn, sweep_stmts, dx_names):
    """C03-d / C06-d, semantic form: the statements of optimize() that write poses are translated on a graph shape with a symbolic
    step vector dx: every free vertex must become pose [+] dx[g : g + c], every fixed vertex must keep its pose."""
    from .interp import Pose

    def fn(it):
        g, verts, dims, spec = _build(it, scn)
        ofn, env = run_prelude(it, g, scn.ffp)
        n = sum(dims)
        dx = sym_vec("dx", n)
        for name in dx_names:
            env[name] = dx
        old = [Pose(ga(v, "pose").cls, list(ga(v, "pose").data)) for v in verts]
        old_objs = [ga(v, "pose") for v in verts]
        it.fn_stack.append(ofn)
        try:
            for st in sweep_stmts:
                it.stmt(st, env)
        finally:
            it.fn_stack.pop()
        fixed = set(scn.fixed) | ({0} if scn.ffp else set())
        offs = [sum(dims[:k]) for k in range(len(dims))]
        for k, v in enumerate(verts):
            now = ga(v, "pose", None)
            if not isinstance(now, Pose) or now.cls != old[k].cls:
                raise ObFail("after the update vertex %d holds %r instead of a %s" % (k, now, old[k].cls))
            if k in fixed:
                if any(a != b for a, b in zip(now.data, old[k].data)) or len(now.data) != len(old[k].data):
                    raise ObFail("the pose of the fixed vertex %d is rewritten by the update (with the solver's value for its block)" % k)
                continue
            inc = Arr(dx.data[offs[k]:offs[k] + dims[k]], 1)
            exp = it.call_method(old[k], "__iadd__", [inc])
            if len(now.data) != len(exp.data) or any(a != b for a, b in zip(now.data, exp.data)):
                raise ObFail("free vertex %d is not updated to pose [+] dx[%d:%d]" % (k, offs[k], offs[k] + dims[k]))
        return dict(scenario=scn.name, fixed=sorted(fixed), n=n)
    return lambda pkg: run_obligation(pkg, fn)
