"""Engine C: a hand-built control-flow graph over the statement kinds the package uses, dominators /
post-dominators, and a generic forward data-flow solver (finite lattices, so loops need no unrolling).

Nodes are ints; `cfg.stmt[n]` is the ast node attached to node n (a simple statement, or the *header* of a compound
statement: the `test` of an If/While, the For statement itself for the iteration step).  Edge labels:
  None   fall-through
  True / False   branch outcome of an If / While test, or "loop continues" / "loop exhausted" for a For
"""
import ast

from .model import AnalysisError


class CFG:
    def __init__(self, fn):
        self.fn = fn
        self.stmt = {}          # node -> ast node (or None for entry/exit)
        self.kind = {}          # node -> 'entry' | 'exit' | 'stmt' | 'if' | 'for' | 'while' | 'return' | 'raise' | 'join'
        self.succ = {}          # node -> list of (succ, label)
        self.pred = {}
        self.n = 0
        self.entry = self.new(None, "entry")
        self.exit = self.new(None, "exit")          # normal exit (returns and fall off the end)
        self.raise_exit = self.new(None, "exit")    # exceptional exit
        self.loop_of = {}       # node -> innermost enclosing loop header node (or None)
        self.branch_of = {}
        last = self._block(fn.body, [(self.entry, None)], None, [])
        for p, lab in last:
            self.edge(p, self.exit, lab)

    # ------------------------------------------------------------------ construction
    def new(self, node, kind):
        i = self.n
        self.n += 1
        self.stmt[i] = node
        self.kind[i] = kind
        self.succ[i] = []
        self.pred[i] = []
        return i

    def edge(self, a, b, label=None):
        self.succ[a].append((b, label))
        self.pred[b].append((a, label))

    def _connect(self, preds, node):
        for p, lab in preds:
            self.edge(p, node, lab)

    def _block(self, stmts, preds, loop, loops):
        """Returns the list of dangling (node, label) after the block."""
        for st in stmts:
            if not preds:
                break  # unreachable code after return/raise/continue/break
            preds = self._stmt(st, preds, loop, loops)
        return preds

    def _stmt(self, st, preds, loop, loops):
        if isinstance(st, ast.If):
            n = self.new(st, "if")
            self.loop_of[n] = loop[0] if loop else None
            self._connect(preds, n)
            t = self._block(st.body, [(n, True)], loop, loops)
            f = self._block(st.orelse, [(n, False)], loop, loops) if st.orelse else [(n, False)]
            return t + f
        if isinstance(st, (ast.For, ast.While)):
            n = self.new(st, "for" if isinstance(st, ast.For) else "while")
            self.loop_of[n] = loop[0] if loop else None
            self._connect(preds, n)
            breaks = []
            inner = (n, breaks)
            body_end = self._block(st.body, [(n, True)], inner, loops + [n])
            for p, lab in body_end:
                self.edge(p, n, lab)
            out = [(n, False)]
            if st.orelse:
                out = self._block(st.orelse, out, loop, loops)
            return out + breaks
        if isinstance(st, ast.Return):
            n = self.new(st, "return")
            self.loop_of[n] = loop[0] if loop else None
            self._connect(preds, n)
            self.edge(n, self.exit)
            return []
        if isinstance(st, ast.Raise):
            n = self.new(st, "raise")
            self.loop_of[n] = loop[0] if loop else None
            self._connect(preds, n)
            self.edge(n, self.raise_exit)
            return []
        if isinstance(st, ast.Continue):
            n = self.new(st, "stmt")
            self.loop_of[n] = loop[0] if loop else None
            self._connect(preds, n)
            if loop is None:
                raise AnalysisError("continue outside loop")
            self.edge(n, loop[0])
            return []
        if isinstance(st, ast.Break):
            n = self.new(st, "stmt")
            self.loop_of[n] = loop[0] if loop else None
            self._connect(preds, n)
            if loop is None:
                raise AnalysisError("break outside loop")
            loop[1].append((n, None))
            return []
        if isinstance(st, ast.With):
            n = self.new(st, "with")
            self.loop_of[n] = loop[0] if loop else None
            self._connect(preds, n)
            return self._block(st.body, [(n, None)], loop, loops)
        if isinstance(st, ast.Try):
            # conservative: body, then handlers reachable from the start of the body and from its end
            n = self.new(st, "try")
            self.loop_of[n] = loop[0] if loop else None
            self._connect(preds, n)
            body_end = self._block(st.body, [(n, None)], loop, loops)
            outs = list(body_end)
            for h in st.handlers:
                outs += self._block(h.body, [(n, "except")] + [(p, "except") for p, _ in body_end], loop, loops)
            if st.orelse:
                outs = self._block(st.orelse, body_end, loop, loops) + [o for o in outs if o not in body_end]
            if st.finalbody:
                outs = self._block(st.finalbody, outs, loop, loops)
            return outs
        if isinstance(st, ast.Match):
            # a multi-way branch: each case body is reachable from the subject; falling through all cases is possible unless the
            # last case is irrefutable (a bare capture / wildcard without a guard)
            n = self.new(st, "match")
            self.loop_of[n] = loop[0] if loop else None
            self._connect(preds, n)
            outs = []
            irrefutable = False
            for k, case in enumerate(st.cases):
                outs += self._block(case.body, [(n, "case%d" % k)], loop, loops)
                if case.guard is None and isinstance(case.pattern, ast.MatchAs) and case.pattern.pattern is None:
                    irrefutable = True
            if not irrefutable:
                outs.append((n, "nomatch"))
            return outs
        if isinstance(st, (ast.FunctionDef, ast.ClassDef, ast.Import, ast.ImportFrom, ast.Global, ast.Nonlocal)):
            n = self.new(st, "stmt")
            self.loop_of[n] = loop[0] if loop else None
            self._connect(preds, n)
            return [(n, None)]
        if isinstance(st, ast.Assert):
            n = self.new(st, "assert")
            self.loop_of[n] = loop[0] if loop else None
            self._connect(preds, n)
            self.edge(n, self.raise_exit, False)
            return [(n, True)]
        if isinstance(st, (ast.Expr, ast.Assign, ast.AugAssign, ast.AnnAssign, ast.Pass, ast.Delete)):
            n = self.new(st, "stmt")
            self.loop_of[n] = loop[0] if loop else None
            self._connect(preds, n)
            return [(n, None)]
        raise AnalysisError("CFG: unsupported statement %s at line %s" % (type(st).__name__, getattr(st, "lineno", "?")))

    # ------------------------------------------------------------------ queries
    def nodes(self):
        return range(self.n)

    def reachable(self):
        seen, todo = {self.entry}, [self.entry]
        while todo:
            x = todo.pop()
            for s, _ in self.succ[x]:
                if s not in seen:
                    seen.add(s)
                    todo.append(s)
        return seen

    def dominators(self):
        nodes = sorted(self.reachable())
        dom = {n: set(nodes) for n in nodes}
        dom[self.entry] = {self.entry}
        changed = True
        while changed:
            changed = False
            for n in nodes:
                if n == self.entry:
                    continue
                ps = [p for p, _ in self.pred[n] if p in dom]
                new = set.intersection(*[dom[p] for p in ps]) if ps else set()
                new = new | {n}
                if new != dom[n]:
                    dom[n] = new
                    changed = True
        return dom

    def postdominators(self, exit_nodes=None):
        """Post-dominators w.r.t. the normal exit (raise exits are ignored unless listed)."""
        exits = exit_nodes or [self.exit]
        nodes = sorted(self.reachable())
        pdom = {n: set(nodes) for n in nodes}
        for e in exits:
            pdom[e] = {e}
        changed = True
        while changed:
            changed = False
            for n in nodes:
                if n in exits:
                    continue
                ss = [s for s, _ in self.succ[n] if s in pdom and (s != self.raise_exit or s in exits)]
                # a node that cannot reach a considered exit is vacuously post-dominated by everything
                new = set.intersection(*[pdom[s] for s in ss]) if ss else set(nodes)
                new = new | {n}
                if new != pdom[n]:
                    pdom[n] = new
                    changed = True
        return pdom

    def node_of(self, astnode):
        for n, s in self.stmt.items():
            if s is astnode:
                return n
        return None

    def nodes_where(self, pred):
        return [n for n in sorted(self.reachable()) if self.stmt[n] is not None and pred(self.stmt[n], self.kind[n])]

    def forward(self, init, transfer, join, bottom=None, edge_transfer=None):
        """Generic forward data-flow: state_in[n] = join of transfer(p, state_in[p], label) over predecessors.

        transfer(node, state, label) -> state on the edge node->succ with that label.  States must be comparable with ==.
        Returns state_in dict."""
        state_in = {self.entry: init}
        work = [self.entry]
        iterations = 0
        while work:
            n = work.pop(0)
            iterations += 1
            if iterations > 20000:
                raise AnalysisError("data-flow did not converge")
            s_in = state_in[n]
            for succ, label in self.succ[n]:
                out = transfer(n, s_in, label)
                if out is None:
                    continue  # infeasible edge
                if succ in state_in:
                    new = join(state_in[succ], out)
                else:
                    new = out
                if succ not in state_in or new != state_in[succ]:
                    state_in[succ] = new
                    if succ not in work:
                        work.append(succ)
        return state_in

    def paths_exist_avoiding(self, src, dst, avoid):
        """Is there a path src -> dst that passes through none of the nodes in `avoid` (src/dst themselves excluded)?"""
        seen, todo = {src}, [src]
        while todo:
            x = todo.pop()
            for s, _ in self.succ[x]:
                if s == dst:
                    return True
                if s in avoid or s in seen:
                    continue
                seen.add(s)
                todo.append(s)
        return False


def header_exprs(node, kind):
    """The expressions evaluated *at* a CFG node (for compound statements only the header part)."""
    if node is None:
        return []
    if kind in ("if", "while"):
        return [node.test]
    if kind == "for":
        return [node.iter]
    if kind == "with":
        return [i.context_expr for i in node.items]
    if kind == "try":
        return []
    if kind == "assert":
        return [node.test] + ([node.msg] if node.msg else [])
    return [node]


def walk_header(node, kind):
    for e in header_exprs(node, kind):
        for x in ast.walk(e):
            yield x


def enclosing_loops(fn):
    """Map every statement to the list of enclosing For/While statements (outermost first)."""
    out = {}

    def rec(stmts, loops):
        for st in stmts:
            out[st] = list(loops)
            if isinstance(st, (ast.For, ast.While)):
                rec(st.body, loops + [st])
                rec(st.orelse, loops)
            elif isinstance(st, ast.If):
                rec(st.body, loops)
                rec(st.orelse, loops)
            elif isinstance(st, ast.With):
                rec(st.body, loops)
            elif isinstance(st, ast.Try):
                rec(st.body, loops)
                for h in st.handlers:
                    rec(h.body, loops)
                rec(st.orelse, loops)
                rec(st.finalbody, loops)
    rec(fn.body, [])
    return out


def enclosing_guards(fn):
    """Map every statement to the list of (test expr, polarity) of the enclosing Ifs, plus early-exit guards:
    a preceding sibling `if c: continue/return/raise` contributes (c, False) to the later siblings."""
    out = {}

    def terminates(body):
        return bool(body) and isinstance(body[-1], (ast.Continue, ast.Return, ast.Raise, ast.Break))

    def rec(stmts, guards):
        g = list(guards)
        for st in stmts:
            out[st] = list(g)
            if isinstance(st, ast.If):
                rec(st.body, g + [(st.test, True)])
                rec(st.orelse, g + [(st.test, False)])
                if terminates(st.body) and not st.orelse:
                    g = g + [(st.test, False)]
                elif st.orelse and terminates(st.orelse) and not terminates(st.body):
                    g = g + [(st.test, True)]
            elif isinstance(st, (ast.For, ast.While)):
                rec(st.body, g)
                rec(st.orelse, g)
            elif isinstance(st, ast.With):
                rec(st.body, g)
            elif isinstance(st, ast.Try):
                rec(st.body, g)
                for h in st.handlers:
                    rec(h.body, g)
                rec(st.orelse, g)
                rec(st.finalbody, g)
    rec(fn.body, [])
    return out
