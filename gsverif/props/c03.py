"""C03 -- one optimizer iteration is exactly the Gauss-Newton step (structural clauses a..e)."""
from ..poly import Poly
from ..interp import ga, sa, Arr, Obj, sym_vec, sym_mat
from ..algebra import custom_edge, run_obligation, run_tasks, record, ObFail, nterms

LEVEL = "other"


def homogeneous_in(p, names, deg):
    from .. import poly as _p
    ks = {_p.var_index(n) for n in names}
    return all(sum(e for v, e in m if v in ks) == deg for m in p.t)


def generic_edge(it, dims, err_len=2, cls="BaseEdge"):
    """A generic n-ary edge: symbolic error, full symbolic information, symbolic Jacobians, opaque gradient indices."""
    err = sym_vec("e", err_len)
    W = sym_mat("W", err_len, err_len)
    Js = [sym_mat("J%d" % k, err_len, c) for k, c in enumerate(dims)]
    gs = [Poly.var("g%d" % k) for k in range(len(dims))]
    from ..interp import sym_pose
    verts = []
    for k, (g, c) in enumerate(zip(gs, dims)):
        v = it.construct("Vertex", [Poly.const(100 + k), sym_pose({2: "PoseR2", 3: "PoseR3"}.get(c, "PoseR2"), "vx%d" % k)])
        sa(v, "gradient_index", g)
        verts.append(v)
    edge = custom_edge(it, [Poly.const(100 + k) for k in range(len(dims))], W, None, verts, cls=cls)
    edge.stubs["calc_error"] = lambda: err
    edge.stubs["calc_jacobians"] = lambda: list(Js)
    return edge, err, W, Js, gs


def builtin_edge(it, cfg):
    """A built-in edge of configuration cfg with its own calc_error / calc_jacobians (evaluated once, up front, as the reference)."""
    from ..algebra import sym_config, make_edge
    from ..assembly import sym_symmetric
    from ..algebra import CDIM
    p1, p2, z, off = sym_config(cfg, unit=True)
    edge = make_edge(it, cfg, p1, p2, z, off, info=sym_mat("W", CDIM[cfg[3]], CDIM[cfg[3]]))
    gs = [Poly.var("g0"), Poly.var("g1")]
    for v, g in zip(ga(edge, "vertices"), gs):
        sa(v, "gradient_index", g)
    err = it.call_method(edge, "calc_error", [])
    Js = it.call_method(edge, "calc_jacobians", [])
    err = Arr(list(err.data), 1)
    Js = [Arr([list(r) for r in J.data], 2) for J in Js]
    W0 = ga(edge, "information")
    return edge, err, Arr([list(r) for r in W0.data], 2), Js, gs


def contributions_obligation(dims, cls="BaseEdge", cfg=None):
    """C03-a: calc_chi2_gradient_hessian returns exactly {(g_k, e^T W J_k)} and {((g_i,g_j), J_i^T W J_j)} for i<=j."""
    def fn(it):
        if cfg is not None:
            edge, err, W, Js, gs = builtin_edge(it, cfg)
        else:
            edge, err, W, Js, gs = generic_edge(it, dims, cls=cls)
        dims_ = dims if cfg is None else [J.shape[1] for J in Js]
        return check(it, edge, err, W, Js, gs, dims_)

    def check(it, edge, err, W, Js, gs, dims):
        res = it.call_method(edge, "calc_chi2_gradient_hessian", [])
        if isinstance(res, Obj) and getattr(res, "tuple_fields", None):
            res = it.iterate(res, None)          # a NamedTuple result is still a 3-tuple for every consumer
        if not isinstance(res, (tuple, list)) or len(res) != 3:
            raise ObFail("calc_chi2_gradient_hessian does not return (chi2, gradient list, hessian list)")
        chi2, grad, hess = res
        n = len(err.data)
        exp_chi2 = Poly()
        for i in range(n):
            for j in range(n):
                exp_chi2 = exp_chi2 + err.data[i] * W.data[i][j] * err.data[j]
        if not isinstance(chi2, Poly) or chi2 != exp_chi2:
            raise ObFail("returned chi^2 is not e^T Omega e")
        eW = it.dot(err, W, None)
        exp_grad = [(gs[k], it.dot(eW, Js[k], None)) for k in range(len(dims))]
        exp_hess = [((gs[i], gs[j]), it.dot(it.dot(Js[i].T(), W, None), Js[j], None))
                    for i in range(len(dims)) for j in range(i, len(dims))]
        grad = [tuple(it.iterate(x, None)) if not isinstance(x, tuple) else x for x in it.iterate(grad, None)]
        hess = [tuple(it.iterate(x, None)) if not isinstance(x, tuple) else x for x in it.iterate(hess, None)]
        hess = [(tuple(it.iterate(k_, None)) if not isinstance(k_, tuple) else k_, c_) for k_, c_ in hess]
        if len(grad) != len(exp_grad):
            raise ObFail("%d gradient contributions for %d vertices" % (len(grad), len(dims)))
        used = set()
        for idx, c in grad:
            hit = [k for k, (g, x) in enumerate(exp_grad) if k not in used and isinstance(idx, Poly) and idx == g and isinstance(c, Arr) and c.same(x)]
            if not hit:
                raise ObFail("gradient contribution at index %r is not e^T Omega J_k of the vertex with that gradient index" % (idx,))
            used.add(hit[0])
        if len(hess) != len(exp_hess):
            raise ObFail("%d Hessian contributions, expected one per vertex pair i<=j = %d" % (len(hess), len(exp_hess)))
        used = set()
        for key, c in hess:
            if not isinstance(key, tuple) or len(key) != 2:
                raise ObFail("Hessian contribution key %r is not an index pair" % (key,))
            hit = []
            for k, ((gi, gj), x) in enumerate(exp_hess):
                if k in used or not isinstance(c, Arr):
                    continue
                if key[0] == gi and key[1] == gj and c.same(x):
                    hit.append(k)
                elif key[0] == gj and key[1] == gi and c.same(x.T()):
                    hit.append(k)
            if not hit:
                raise ObFail("Hessian contribution for index pair (%r, %r) is not J_i^T Omega J_j of the vertices with those indices" % key)
            used.add(hit[0])
        # homogeneity of degree 1 in the information matrix (C08-c)
        wn = ["W[%d,%d]" % (i, j) for i in range(n) for j in range(n)]
        for _, c in list(grad) + list(hess):
            for p in c.flat():
                if not homogeneous_in(p, wn, 1):
                    raise ObFail("a contribution is not homogeneous of degree 1 in the information matrix")
        return dict(arity=len(dims), dims=list(dims), gradient_blocks=len(grad), hessian_blocks=len(hess), terms=nterms(chi2))
    return lambda pkg: run_obligation(pkg, fn)


def own_chi2_obligation(dims):
    """The chi^2 an edge contributes to the assembled system is the edge's own calc_chi2(): for a user-defined edge class that
    overrides calc_chi2 the value reported by optimize() (taken from the assembly) and Graph.calc_chi2() (the sum of the edges'
    calc_chi2) must be the same number."""
    def fn(it):
        edge, err, W, Js, gs = generic_edge(it, dims)
        own = Poly.var("chi2_own")
        edge.stubs["calc_chi2"] = lambda: own
        res = it.call_method(edge, "calc_chi2_gradient_hessian", [])
        if isinstance(res, Obj) and getattr(res, "tuple_fields", None):
            res = it.iterate(res, None)
        if not isinstance(res, (tuple, list)) or len(res) != 3:
            raise ObFail("calc_chi2_gradient_hessian does not return (chi2, gradient list, hessian list)")
        if not isinstance(res[0], Poly) or res[0] != own:
            raise ObFail("the chi^2 contribution of an edge whose class overrides calc_chi2 is not that edge's calc_chi2(): the report of "
                         "optimize() (assembled chi^2) and Graph.calc_chi2() disagree for such edges")
        return dict(dims=list(dims))
    return lambda pkg: run_obligation(pkg, fn)


ARITIES_QUICK = [(2,), (3,), (2, 3), (3, 3), (3, 2), (2, 3, 3)]
ARITIES_THOROUGH = ARITIES_QUICK + [(6,), (6, 3), (6, 6), (2, 2, 2), (3, 6, 2)]


def contribution_tasks(run_, pkg, tier, prefix="C03-a"):
    tasks = []
    fn = pkg.method("BaseEdge", "calc_chi2_gradient_hessian")
    classes = ["BaseEdge"] + [c for c in pkg.subclasses("BaseEdge") if pkg.own_method(c, "calc_chi2_gradient_hessian")]
    from ..algebra import CONFIGS, cfg_name
    for cls in classes:
        if cls != "BaseEdge" and pkg.lookup(cls, "__init__") != pkg.lookup("BaseEdge", "__init__"):
            # a class with its own constructor and its own contribution code (a built-in edge kind that specialises the template):
            # checked on its real configurations, against its own error and Jacobians
            for cfg in CONFIGS:
                if cfg[0] != cls:
                    continue
                key = "%s/%s.calc_chi2_gradient_hessian/%s" % (prefix, cls, cfg_name(cfg))
                if run_.wants(key):
                    tasks.append((key, "%s-contributions" % prefix, contributions_obligation(None, cls, cfg), "%s:%d" % (fn._gs_module, fn.lineno)))
            continue
        for dims in (ARITIES_QUICK if tier == "quick" else ARITIES_THOROUGH):
            key = "%s/%s.calc_chi2_gradient_hessian/dims=%s" % (prefix, cls, "x".join(map(str, dims)))
            if run_.wants(key):
                tasks.append((key, "%s-contributions" % prefix, contributions_obligation(dims, cls), "%s:%d" % (fn._gs_module, fn.lineno)))
    return tasks


def gradient_index_obligation(vtypes):
    """C03-e: gradient_index is the running sum of COMPACT_DIMENSIONALITY in list order."""
    from ..interp import sym_pose
    from ..algebra import CDIM

    def fn(it):
        verts = [it.construct("Vertex", [Poly.var("id%d" % k), sym_pose(t, "x%d" % k)]) for k, t in enumerate(vtypes)]
        g = it.construct("Graph", [[], verts])
        acc = 0
        for k, (v, t) in enumerate(zip(verts, vtypes)):
            gi = ga(v, "gradient_index", None)
            if not isinstance(gi, Poly) or gi != Poly.const(acc):
                raise ObFail("vertex %d (%s) gets gradient_index %r, expected %d" % (k, t, gi, acc))
            acc += CDIM[t]
        return dict(vertex_types=list(vtypes), len_gradient=acc)
    return lambda pkg: run_obligation(pkg, fn)


def run(run_, pkg, tier):
    from .. import optim_rules
    from ..assembly import SCENARIOS, SEQUENCES, assembly_obligation, sequence_obligation
    run_.explanation = ("a: BaseEdge.calc_chi2_gradient_hessian is translated for generic unary/binary/ternary edges with symbolic error, "
                        "full symbolic information and symbolic Jacobians: it returns exactly {(g_k, e^T W J_k)} and {((g_i,g_j), "
                        "J_i^T W J_j), i<=j}; b/c: the accumulator (reduce over _Chi2GradientHessian.update) and the dense-gradient / "
                        "sparse-Hessian fill are interpreted in the algebraic domain on graph shapes with parallel edges, edges naming "
                        "their vertices in either order, mixed dimensionalities, unary and ternary edges and several fixed subsets, and "
                        "every entry of b and H equals the reference assembly sum J^T W e / sum J^T W J; d: CFG rules on optimize(): the "
                        "step is spsolve(H, -b) on the system assembled from the current poses and every vertex is updated by "
                        "pose += dx[g : g + c]; e: gradient indices are the running sum of compact dimensionalities.")
    run_.trusted_base = ["gsverif.interp semantics of the modelled numpy/python subset", "scipy.sparse.linalg.spsolve returns H^-1 rhs",
                         "real arithmetic instead of IEEE-754"]
    run_.assumptions = ["floating-point accumulation order is not modelled", "graph shapes are finite samples; the analysed code treats "
                        "list elements uniformly (its control flow depends on index structure only)"]
    tasks = contribution_tasks(run_, pkg, tier)
    fn = pkg.method("Graph", "_calc_chi2_gradient_hessian")
    for scn in SCENARIOS:
        if scn.name.startswith("isolated"):
            continue  # C06-e
        key = "C03-bc/assembly/%s" % scn.name
        if run_.wants(key):
            tasks.append((key, "C03-bc-assembly", assembly_obligation(scn), "%s:%d" % (fn._gs_module, fn.lineno)))
    from ..assembly import edited_edges_obligation
    for scn in SCENARIOS:
        if scn.name in ("fix-first", "parallel-only"):
            for edit in ("reweight", "append"):
                key = "C03-bc/assembly-sequence/%s/then-%s" % (scn.name, edit)
                if run_.wants(key):
                    tasks.append((key, "C03-bc-assembly-history-independent", edited_edges_obligation(scn, edit), "%s:%d" % (fn._gs_module, fn.lineno)))
    from ..assembly import real_edges_obligation
    for kind, fx, ffp in (("SE2", (), True), ("SE2", (1,), False), ("R2", (), False)):
        key = "C03-bc/assembly/real-edges-%s/%s" % (kind, "fix-first" if ffp else "fixed=%s" % list(fx))
        if run_.wants(key):
            tasks.append((key, "C03-bc-assembly", real_edges_obligation(kind, fx, ffp), "%s:%d" % (fn._gs_module, fn.lineno)))
    for first, second in SEQUENCES:
        key = "C03-bc/assembly-sequence/%s->%s" % (first.name, second.name)
        if run_.wants(key):
            tasks.append((key, "C03-bc-assembly-history-independent", sequence_obligation(first, second), "%s:%d" % (fn._gs_module, fn.lineno)))
    ifn = pkg.method("Graph", "_initialize")
    for vt in (["PoseR2", "PoseSE2", "PoseSE3", "PoseR3"], ["PoseSE3", "PoseR2"], ["PoseSE2"]):
        key = "C03-e/gradient-index/%s" % "+".join(vt)
        if run_.wants(key):
            tasks.append((key, "C03-e-indexing", gradient_index_obligation(vt), "%s:%d" % (ifn._gs_module, ifn.lineno)))
    # custom edges take their Jacobians from numerical differentiation: the J that enters b and H must be the difference quotient
    # through boxplus at the documented step (shared with C16)
    from .c16 import finite_difference_obligation, SHAPES as FD_SHAPES
    jfn = pkg.method("BaseEdge", "_calc_jacobian")
    for vt in FD_SHAPES:
        key = "C03-a/custom-edge-jacobian/%s" % "+".join(vt)
        if run_.wants(key):
            tasks.append((key, "C03-a-custom-edge-jacobian", finite_difference_obligation(vt), "%s:%d" % (jfn._gs_module, jfn.lineno)))
    results = run_tasks(pkg, tasks)
    from ..algebra import across_thresholds
    from ..assembly import directed_assembly_tasks
    results, xt, xr = across_thresholds(run_, pkg, tasks, results, directed_assembly_tasks("C03-bc/assembly", "C03-bc-assembly", "%s:%d" % (fn._gs_module, fn.lineno)))
    record(run_, tasks, results)
    record(run_, xt, xr)
    # the assembly tests the number of edges / vertices against constants (batching, thresholds): aim a scenario at them
    from ..algebra import size_constants
    from ..assembly import Scenario
    consts = [c for c in size_constants([r for t, r in zip(tasks, results) if t[1].startswith("C03-bc")]) if c <= 10000]
    if consts:
        extra = []
        for c in consts[:2]:
            for k in sorted({c, c + 1}):
                scn = Scenario("directed/%d-parallel-edges" % k, ["PoseSE2", "PoseR2"], [(0, 1) if j % 2 == 0 else (1, 0) for j in range(k)],
                               fix_first_pose=True, identical_edges=True)
                extra.append(("C03-bc/assembly/%s (directed at the size constant %d in the code)" % (scn.name, c), "C03-bc-assembly",
                              assembly_obligation(scn, allow_size_thresholds=True), "%s:%d" % (fn._gs_module, fn.lineno)))
        record(run_, extra, run_tasks(pkg, extra))
    if run_.only is None:
        n = optim_rules.optimize_verdicts(run_, pkg, "C03", lambda f: (f.key, f.rule) if f.rule.startswith("C03-d") else None)
        run_.floor("C03-d rule instances", n, 6)
    run_.floor("C03 obligations", len(tasks) if run_.only is None else 16, 16)
