"""C09 -- pose composition is the rigid-motion group (against the checker's own homogeneous-matrix model)."""
from .. import poly
from ..poly import Poly
from ..interp import Arr, Pose, sym_pose, sym_vec, PI
from ..algebra import _on_path
from ..algebra import (POSES, CDIM, POINT_OF, run_obligation, run_tasks, record, ObFail, require_same, nterms, delta_vec,
                       ref_matrix, ref_R_t, matvec, no_bad_wrap, I)

LEVEL = "proof"


def pose_equal(it, p, q, what, allow_neg_quat=True):
    """Equality of two pose values as rigid motions: same class, same position, same rotation."""
    if not isinstance(p, Pose) or not isinstance(q, Pose):
        raise ObFail("%s: not poses (%r, %r)" % (what, p, q))
    p, q = _on_path(p), _on_path(q)
    if p.cls != q.cls or len(p.data) != len(q.data):
        raise ObFail("%s: pose classes differ (%s%s vs %s%s)" % (what, p.cls, p.shape, q.cls, q.shape))
    n = {"PoseR2": 2, "PoseR3": 3, "PoseSE2": 2, "PoseSE3": 3}[p.cls]
    for i in range(n):
        if p.data[i] != q.data[i]:
            raise ObFail("%s: position component %d differs by %s" % (what, i, (p.data[i] - q.data[i]).short(160)))
    if p.cls == "PoseSE2":
        d = p.data[2] - q.data[2]
        two_pi = PI() * 2
        if not any(d == two_pi * k for k in range(-4, 5)):
            raise ObFail("%s: angles differ by %s (not a multiple of 2*pi)" % (what, d.short(160)))
    if p.cls == "PoseSE3":
        same = all(a == b for a, b in zip(p.data[3:], q.data[3:]))
        neg = all(a == -b for a, b in zip(p.data[3:], q.data[3:]))
        if not (same or (neg and allow_neg_quat)):
            k = [i for i, (a, b) in enumerate(zip(p.data[3:], q.data[3:])) if a != b]
            raise ObFail("%s: quaternion components %s differ, e.g. by %s" % (what, k, (p.data[3 + k[0]] - q.data[3 + k[0]]).short(160)))
    no_bad_wrap(it)


def qnorm_le_one_hook(nrot_names):
    def hook(d):
        if not nrot_names:
            return None
        sq = Poly()
        for n in nrot_names:
            sq = sq + Poly.var(n) * Poly.var(n)
        # the same domain fact in its squared form (code that tests 1 - |d|^2 instead of |d| against 1)
        if d == Poly.const(1) - sq:
            return {0, 1}
        if d == sq - Poly.const(1):
            return {-1, 0}
        key = ("sqrt", sq.key())
        name = poly.R.atoms.get(key)
        if name is None:
            return None
        target = Poly.var(name) - 1
        if d == target:
            return {-1, 0}      # rotational part of norm <= 1, boundary included (a half turn)
        if d == -target:
            return {0, 1}
        return None
    return hook


def laws(cls):
    c = CDIM[cls]

    def abc(it, n=3):
        return [sym_pose(cls, x, unit=True) for x in "abc"[:n]]

    def pure(it, x, meth, args):
        """Call x.<meth>(*args); the operators are functions of their operands' *values*: no operand is modified."""
        before = [(o, list(o.data)) for o in [x] + list(args) if isinstance(o, (Pose, Arr)) and getattr(o, "ndim", 1) == 1]
        out = it.call_method(x, meth, args)
        for k, (o, data) in enumerate(before):
            if len(o.data) != len(data) or any(u != v for u, v in zip(o.data, data)):
                raise ObFail("%s.%s modifies its %s in place (the caller's %s changes under an operator that must build a new object)" % (
                    cls, meth, "left operand" if k == 0 else "argument", "pose" if isinstance(o, Pose) else "array"))
        return out

    def add(it, x, y):
        return pure(it, x, "__add__", [y])

    def law_matrix_product(it):
        a, b = abc(it, 2)
        ab = add(it, a, b)
        got, exp = ref_matrix(it, ab), it.dot(ref_matrix(it, a), ref_matrix(it, b), None)
        require_same(got, exp, "M(a (+) b) != M(a) M(b)")
        no_bad_wrap(it)
        return dict(terms=nterms(got))

    def law_ominus(it):
        a, b = abc(it, 2)
        l = pure(it, a, "__sub__", [b])
        r = add(it, pure(it, b, "inverse", []), a)
        pose_equal(it, l, r, "a (-) b != b^-1 (+) a")
        return dict(terms=nterms(l))

    def law_inverse(it):
        a, = abc(it, 1)
        inv = pure(it, a, "inverse", [])
        e = pure(it, a, "identity", [])
        pose_equal(it, add(it, a, inv), e, "a (+) a^-1 != identity")
        pose_equal(it, add(it, inv, a), e, "a^-1 (+) a != identity")
        require_same(ref_matrix(it, e), Arr(I(len(ref_R_t(it, e)[1]) + 1), 2), "identity() is not the identity transform")
        return dict(terms=nterms(inv))

    def law_identity(it):
        a, = abc(it, 1)
        e = it.call_method(a, "identity", [])
        pose_equal(it, add(it, a, e), a, "a (+) e != a", allow_neg_quat=False)
        pose_equal(it, add(it, e, a), a, "e (+) a != a", allow_neg_quat=False)
        return dict(terms=nterms(a))

    def law_assoc(it):
        a, b, cc = abc(it, 3)
        l = add(it, add(it, a, b), cc)
        r = add(it, a, add(it, b, cc))
        pose_equal(it, l, r, "(a (+) b) (+) c != a (+) (b (+) c)")
        return dict(terms=nterms(l))

    def law_point_action(it):
        a, = abc(it, 1)
        pt = sym_pose(POINT_OF[cls], "x")
        R, t = ref_R_t(it, a)
        exp = [u + v for u, v in zip(matvec(R, list(pt.data)), t)]
        got = add(it, a, pt)
        if not isinstance(got, Pose) or got.cls != POINT_OF[cls]:
            raise ObFail("pose (+) point returns %r, expected a %s" % (got, POINT_OF[cls]))
        require_same(Arr(list(got.data), 1), Arr(exp, 1), "pose (+) point != R x + t")
        if cls in ("PoseSE2", "PoseSE3"):
            raw = sym_vec("x", len(pt.data))
            raw.foreign_dtype = True         # the caller's array: its dtype is the caller's choice (float64, an integer type, float32)
            got2 = add(it, a, raw)
            if not isinstance(got2, Pose) or got2.cls != POINT_OF[cls]:
                raise ObFail("pose (+) bare ndarray point returns %r, expected a %s" % (got2, POINT_OF[cls]))
            require_same(Arr(list(got2.data), 1), Arr(exp, 1), "pose (+) bare ndarray point != R x + t")
        return dict(terms=nterms(got))

    def law_boxplus(it):
        a, = abc(it, 1)
        d = delta_vec(cls)
        got = add(it, a, d)
        if cls in ("PoseR2", "PoseR3"):
            pd = it.construct(cls, [d])
        elif cls == "PoseSE2":
            pd = it.construct(cls, [Arr(d.data[:2], 1), d.data[2]])
        else:
            w = it.np_sqrt(Poly.const(1) - sum((x * x for x in d.data[3:]), Poly()), None)
            pd = it.construct(cls, [Arr(d.data[:3], 1), Arr(list(d.data[3:]) + [w], 1)])
        exp = add(it, a, pd)
        pose_equal(it, got, exp, "a [+] delta != a (+) Pose(delta)", allow_neg_quat=False)
        # in-place add delegates to composition
        got2 = it.call_method(a, "__iadd__", [d])
        pose_equal(it, got2, exp, "a += delta is not a (+) Pose(delta)", allow_neg_quat=False)
        b = sym_pose(cls, "b", unit=True)
        pose_equal(it, it.call_method(a, "__iadd__", [b]), add(it, a, b), "a += b is not a (+) b", allow_neg_quat=False)
        return dict(terms=nterms(got))

    def law_identity_fresh(it):
        # identity() hands out an independent object every time: using one (also in place) must not change the next one
        a, = abc(it, 1)
        e1 = it.call_method(a, "identity", [])
        d = delta_vec(cls)
        moved = it.call_method(e1, "__iadd__", [d])
        e2 = it.call_method(a, "identity", [])
        if e2 is e1 or e2 is moved:
            raise ObFail("identity() returns the same object again (a shared instance)")
        n = len(ref_R_t(it, e2)[1])
        require_same(ref_matrix(it, e2), Arr(I(n + 1), 2), "after `e = identity(); e += delta` the next identity() is no longer the identity transform")
        b = sym_pose(cls, "b", unit=True)
        b0 = Pose(b.cls, list(b.data))
        it.call_method(b, "__iadd__", [d])
        pose_equal(it, b, b0, "`p += delta` modified the original pose object in place (operators must build new objects)", allow_neg_quat=False)
        return dict(terms=nterms(e2))

    def law_current_value(it):
        # the operations are functions of the pose's *current* numbers: after the caller edits a pose in place (p[3:] = q,
        # p[:2] += t, ...) every operation must answer for the new value, whatever was computed from the old one before
        a, b = abc(it, 2)
        pt = sym_pose(POINT_OF[cls], "x")
        cc = sym_pose(cls, "c", unit=True)
        # use the pose once (anything computed now must not be served again later)
        if it.pkg.lookup(cls, "to_matrix"):
            it.call_method(a, "to_matrix", [])
        add(it, a, pt)
        add(it, a, cc)
        it.call_method(a, "inverse", [])
        a.data[:] = list(b.data)           # in-place edit by the caller
        it.after_write(a)
        R, t = ref_R_t(it, b)
        if it.pkg.lookup(cls, "to_matrix"):
            require_same(it.call_method(a, "to_matrix", []), ref_matrix(it, b), "after an in-place edit of the pose, to_matrix() still describes the old value")
        got = add(it, a, pt)
        require_same(Arr(list(got.data), 1), Arr([u + v for u, v in zip(matvec(R, list(pt.data)), t)], 1),
                     "after an in-place edit of the pose, pose (+) point uses the old value")
        pose_equal(it, add(it, a, cc), add(it, b, cc), "after an in-place edit of the pose, pose (+) pose uses the old value", allow_neg_quat=False)
        pose_equal(it, it.call_method(a, "inverse", []), it.call_method(b, "inverse", []), "after an in-place edit of the pose, inverse uses the old value",
                   allow_neg_quat=False)
        return dict(terms=nterms(got))

    def law_results_independent(it):
        # every operator hands out a value of its own: a result the caller keeps is not rewritten by a later operation, and a
        # result fed back as an operand (a (+) (b (+) x)) is read correctly
        a, b = abc(it, 2)
        c2, d2 = sym_pose(cls, "c", unit=True), sym_pose(cls, "e", unit=True)
        pt, pt2 = sym_pose(POINT_OF[cls], "x"), sym_pose(POINT_OF[cls], "y")
        is_point = POINT_OF[cls] == cls
        forms = [("a (+) b", lambda u, v, x: add(it, u, v)), ("a (-) b", lambda u, v, x: pure(it, u, "__sub__", [v])),
                 ("a.inverse", lambda u, v, x: pure(it, u, "inverse", [])), ("a.copy()", lambda u, v, x: it.call_method(u, "copy", []))]
        if not is_point:
            forms.append(("a (+) point", lambda u, v, x: add(it, u, x)))
            forms.append(("a (+) bare ndarray point", lambda u, v, x: add(it, u, Arr(list(x.data), 1))))
        kept = []
        for name, f in forms:
            r = f(a, b, pt)
            kept.append((name, r, list(r.data)))
        for name, f in forms:
            f(c2, d2, pt2)
        for name, r, seen in kept:
            if len(r.data) != len(seen) or any(u is not v and u != v for u, v in zip(r.data, seen)):
                raise ObFail("the result of %s, kept by the caller, changed when the operators were used on other poses "
                             "(results share storage)" % name)
        if not is_point:
            R1, t1 = ref_R_t(it, a)
            R2, t2 = ref_R_t(it, b)
            inner = [u + v for u, v in zip(matvec(R2, list(pt.data)), t2)]
            exp = [u + v for u, v in zip(matvec(R1, inner), t1)]
            got = add(it, a, add(it, b, pt))
            require_same(Arr(list(got.data), 1), Arr(exp, 1), "a (+) (b (+) x) != M(a) M(b) x (the inner result is not read correctly as an operand)")
        return dict(forms=len(forms))

    def law_constructor_dtype(it):
        # a pose built from the caller's numbers (a list of ints, an integer or float32 array) holds them as float64
        if cls in ("PoseR2", "PoseR3"):
            raw = sym_vec("x", len(abc(it, 1)[0].data))
            raw.foreign_dtype = True
            p_ = it.construct(cls, [raw])
            exp = list(raw.data)
        elif cls == "PoseSE2":
            raw = sym_vec("x", 2)
            raw.foreign_dtype = True
            t = poly.register_angle("t")
            p_ = it.construct(cls, [raw, t])
            exp = list(raw.data) + [None]
        else:
            raw, q = sym_vec("x", 3), sym_vec("q", 4)
            raw.foreign_dtype = q.foreign_dtype = True
            p_ = it.construct(cls, [raw, q])
            exp = list(raw.data) + list(q.data)
        if not isinstance(p_, Pose) or p_.cls != cls or len(p_.data) != len(exp):
            raise ObFail("%s(...) returns %r" % (cls, p_))
        for u, v in zip(p_.data, exp):
            if v is not None and u != v:
                raise ObFail("%s(...) does not hold the numbers it was given" % cls)
        # in-place use must work in float64 whatever the caller's dtype was
        it.call_method(p_, "__iadd__", [delta_vec(cls)])
        return dict(components=len(exp))

    def law_accessors(it):
        a, = abc(it, 1)
        R, t = ref_R_t(it, a)
        require_same(it.call_method(a, "position", []), Arr(t, 1), "position is not the translation part")
        require_same(it.call_method(a, "to_array", []), Arr(list(a.data), 1), "to_array is not the component vector")
        require_same(it.call_method(a, "to_compact", []), Arr(list(a.data[:c]), 1), "to_compact is not the first c components")
        cp = it.call_method(a, "copy", [])
        pose_equal(it, cp, a, "copy() differs from the original", allow_neg_quat=False)
        if cp is a:
            raise ObFail("copy() returns the same object")
        o = it.call_method(a, "orientation", [])
        if cls == "PoseSE2":
            require_same(o, a.data[2], "orientation is not the angle")
        elif cls == "PoseSE3":
            require_same(o, Arr(list(a.data[3:]), 1), "orientation is not the quaternion")
        else:
            require_same(o, Poly(), "orientation of a point is not 0")
        return dict(terms=nterms(a))

    def law_to_matrix(it):
        a, = abc(it, 1)
        got = it.call_method(a, "to_matrix", [])
        require_same(got, ref_matrix(it, a), "to_matrix() is not the homogeneous matrix of the pose")
        return dict(terms=nterms(got))

    def law_from_matrix(it):
        a, = abc(it, 1)
        m = it.call_method(a, "to_matrix", [])
        back = it.call_classmethod(it.type_of(a, None), "from_matrix", [m])
        pose_equal(it, back, a, "from_matrix(to_matrix(a)) != a", allow_neg_quat=False)
        return dict(terms=nterms(m))

    out = [("M(a+b)=M(a)M(b)", law_matrix_product), ("a-b=inv(b)+a", law_ominus), ("inverse-two-sided", law_inverse),
           ("identity-two-sided", law_identity), ("associativity", law_assoc), ("point-action", law_point_action),
           ("boxplus=oplus(Pose(delta))", law_boxplus), ("accessors", law_accessors), ("identity-fresh", law_identity_fresh),
           ("current-value-after-in-place-edit", law_current_value), ("results-are-independent-values", law_results_independent),
           ("constructor-holds-float64", law_constructor_dtype)]
    return out, dict(to_matrix=law_to_matrix, from_matrix=law_from_matrix)


def run(run_, pkg, tier):
    run_.explanation = ("Group laws as polynomial identities between normal forms of the repo's own __add__/__sub__/inverse/"
                        "identity/__iadd__/to_matrix/from_matrix and the checker's independent reference model (homogeneous "
                        "matrices; rotation matrix of a quaternion; Hamilton product), modulo the unit-quaternion and "
                        "cos^2+sin^2 relations; increments restricted to rotational norm <= 1 as in the property.")
    run_.trusted_base = ["CPython ast", "gsverif.interp semantics of the modelled numpy subset", "real arithmetic instead of IEEE-754",
                         "uniqueness of normal forms modulo var^2 rules", "the checker's reference model in gsverif.algebra"]
    run_.assumptions = ["floating-point rounding is not modelled", "SE(2) angles are compared in R/2piZ"]
    tasks = []
    for cls in POSES:
        pkg.require_class(cls)
        ls, extra = laws(cls)
        if pkg.lookup(cls, "to_matrix"):
            ls.append(("to_matrix", extra["to_matrix"]))
        if pkg.lookup(cls, "from_matrix"):
            ls.append(("from_matrix.to_matrix=id", extra["from_matrix"]))
        for name, law in ls:
            key = "%s/%s" % (cls, name)
            if not run_.wants(key):
                continue
            hook = qnorm_le_one_hook(["d[3]", "d[4]", "d[5]"]) if cls == "PoseSE3" else None

            def task(pkg, law=law, hook=hook):
                return run_obligation(pkg, law, hook=hook, divisors=lambda name: True)
            anchor = pkg.method(cls, "__add__")
            tasks.append((key, "C09-group-law", task, "%s:%d" % (anchor._gs_module, anchor.lineno)))
    run_.floor("group-law obligations", len(tasks) if run_.only is None else 51, 51)
    record(run_, tasks, run_tasks(pkg, tasks))
