"""C16 -- custom edges get forward-difference Jacobians through boxplus (finite-difference template)."""
from fractions import Fraction

from .. import poly
from ..poly import Poly
from ..interp import ga, sa, Arr, Pose, Obj, sym_pose
from ..algebra import custom_edge, CDIM, run_obligation, run_tasks, record, ObFail
from .c03 import contribution_tasks
from .c09 import pose_equal

LEVEL = "other"

SHAPES = [("PoseR2",), ("PoseSE2",), ("PoseSE2", "PoseR2"), ("PoseSE3", "PoseR3"), ("PoseR3", "PoseSE2", "PoseSE3"),
          ("PoseR2", "PoseSE2", "PoseSE2"), ("PoseSE2", "PoseR2", "PoseR3")]      # n-ary edges whose leading vertices differ in dimension


class ErrorFunction:
    """An uninterpreted error function E(poses): every distinct pose configuration yields a fresh vector of atoms, the same
    configuration yields the same atoms."""

    def __init__(self, edge, m):
        self.edge, self.m = edge, m
        self.seen = {}
        self.calls = 0

    def key(self):
        vs = ga(self.edge, "vertices")
        return tuple((ga(v, "pose").cls, tuple(c.key() for c in ga(v, "pose").data)) for v in vs)

    def __call__(self):
        self.calls += 1
        k = self.key()
        if k not in self.seen:
            i = len(self.seen)
            self.seen[k] = Arr([Poly.var("E%d_%d" % (i, r)) for r in range(self.m)], 1)
        return self.seen[k].copy()

    def at(self, it, poses):
        k = tuple((p.cls, tuple(c.key() for c in p.data)) for p in poses)
        return self.seen.get(k)


def finite_difference_obligation(vtypes, m=2, second_state=True, override=None, unit=True):
    """override=(name, value): the edge carries its own value of a step-size constant the class defines (an edge kind with a coarser or
    finer step): the perturbation applied and the divisor must still be one and the same quantity."""
    def fn(it):
        # unit=False: quaternions as they come out of a file with six decimals -- close to, but not exactly of, unit norm
        poses = [sym_pose(t, "x%d" % k, unit=unit) for k, t in enumerate(vtypes)]
        verts = [it.construct("Vertex", [Poly.const(10 + k), poses[k]]) for k in range(len(vtypes))]
        edge = custom_edge(it, [Poly.const(10 + k) for k in range(len(vtypes))], None, None, verts)
        if override is not None:
            sa(edge, override[0], Poly.const(override[1]))
        E = ErrorFunction(edge, m)
        edge.stubs["calc_error"] = E
        eps_seen = set()

        def verify(label):
            originals = [Pose(ga(v, "pose").cls, list(ga(v, "pose").data)) for v in verts]
            J = it.call_method(edge, "calc_jacobians", [])
            if not isinstance(J, (list, tuple)) or len(J) != len(vtypes):
                raise ObFail("%scalc_jacobians returns %r, expected one Jacobian per vertex (%d)" % (label, type(J).__name__, len(vtypes)))
            E0 = E.at(it, originals)
            if E0 is None:
                raise ObFail("%sthe unperturbed error is never evaluated" % label)
            # the pose of every vertex is restored (same class, same components) and is a pose object again
            for k, v in enumerate(verts):
                now = ga(v, "pose")
                pose_equal(it, now, originals[k], "%safter calc_jacobians the pose of vertex %d differs from its original value" % (label, k), allow_neg_quat=False)
            for k, t in enumerate(vtypes):
                c = CDIM[t]
                Jk = J[k]
                if not isinstance(Jk, Arr) or Jk.shape != (m, c):
                    raise ObFail("%sJacobian %d has shape %s, expected (%d, %d)" % (label, k, getattr(Jk, "shape", None), m, c))
                for d in range(c):
                    col = [Jk.data[r][d] for r in range(m)]
                    if any(not isinstance(x, Poly) for x in col):
                        raise ObFail("%scolumn %d of the Jacobian of vertex %d is divided by a value that depends on the pose: the step is not "
                                     "the documented constant 1e-6" % (label, d, k))
                    # identify epsilon from the column: col = (E_pert - E0) / eps  with E_pert the error at exactly one perturbed configuration
                    match = None
                    for key, vec in E.seen.items():
                        num = [vec.data[r] - E0.data[r] for r in range(m)]
                        cr = col[0]
                        if len(cr.t) != 2:
                            continue
                        coefs = {mm: cc for mm, cc in cr.t.items()}
                        nt = num[0].t
                        if set(coefs) != set(nt) or not nt:
                            continue
                        ratio = None
                        ok = True
                        for mm in nt:
                            q = Fraction(nt[mm]) / Fraction(coefs[mm])
                            ratio = q if ratio is None else ratio
                            ok = ok and q == ratio
                        if ok and all((col[r].scale(ratio) == num[r]) for r in range(m)):
                            match = (key, ratio)
                            break
                    if match is None:
                        raise ObFail("%scolumn %d of the Jacobian of vertex %d is not (E(perturbed) - E(unperturbed)) / eps for any evaluated configuration: %s" % (label, d, k, col[0].short(120)))
                    key, eps = match
                    eps_seen.add(eps)
                    # the perturbed configuration must be: vertex k moved by boxplus with eps * e_d, everything else untouched
                    delta = Arr([Poly.const(eps if j == d else 0) for j in range(c)], 1)
                    moved = it.call_method(originals[k], "__iadd__", [delta])
                    exp_cfg = [moved if j == k else originals[j] for j in range(len(vtypes))]
                    exp_key = tuple((p.cls, tuple(x.key() for x in p.data)) for p in exp_cfg)
                    if key != exp_key:
                        raise ObFail("%scolumn %d of the Jacobian of vertex %d is a difference quotient, but not at pose [+] eps*e_%d with the other "
                                     "vertices (and the other coordinates) unperturbed" % (label, d, k, d))
        verify("")
        if second_state:
            # the same edge at another state (poses overwritten in place): nothing learned in the first call may be reused
            for k, v in enumerate(verts):
                q = sym_pose(vtypes[k], "y%d" % k, unit=unit)
                ga(v, "pose").data[:] = list(q.data)
                # ... and the vertices are marked fixed meanwhile (as optimize(fix_first_pose=True) leaves the first one): the Jacobian
                # of an edge is the derivative of its error, whether or not the optimizer may move the vertex
                sa(v, "fixed", True if k % 2 == 0 else Poly.const(1))
            verify("second evaluation after the poses changed and the vertices were marked fixed: ")
        if len(eps_seen) != 1:
            raise ObFail("different step sizes are used: %s" % sorted(map(float, eps_seen)))
        eps = eps_seen.pop()
        if not (Fraction(1, 10 ** 8) <= eps <= Fraction(1, 10 ** 5)):
            raise ObFail("finite-difference step %g is outside [1e-8, 1e-5] (documented: 1e-6)" % float(eps))
        return dict(vertex_types=list(vtypes), eps=float(eps), error_evaluations=E.calls, configurations=len(E.seen))
    return lambda pkg: run_obligation(pkg, fn)


USER_EDGES = """
import numpy as np
from graphslam.edge.base_edge import BaseEdge


class UserDisplacementEdge(BaseEdge):
    # relative position of two points, written the way user code is written: in-place arithmetic on what the accessors hand out
    def calc_error(self):
        d = self.vertices[1].pose.position
        d -= self.vertices[0].pose.position
        d -= self.estimate
        return d


class UserPriorEdge(BaseEdge):
    def calc_error(self):
        err = self.vertices[0].pose.to_array()
        err -= self.estimate
        return err


class UserMidpointEdge(BaseEdge):
    # the third vertex lies half way between the first two
    def calc_error(self):
        mid = self.vertices[0].pose.position
        mid += self.vertices[1].pose.position
        mid *= 0.5
        return self.vertices[2].pose.position - mid
"""

USER_CASES = [("UserDisplacementEdge", ("PoseR2", "PoseR2"), [-1, 1]), ("UserDisplacementEdge", ("PoseR3", "PoseR3"), [-1, 1]),
              ("UserPriorEdge", ("PoseR2",), [1]), ("UserPriorEdge", ("PoseR3",), [1]),
              ("UserMidpointEdge", ("PoseR2", "PoseR2", "PoseR2"), [Fraction(-1, 2), Fraction(-1, 2), 1])]


def user_edge_obligation(cls, vtypes, coefs):
    """A user-defined edge kind that defines only its error function, written as user code is written (in-place arithmetic on the
    arrays the pose accessors return).  Its error is linear in the point coordinates, so the forward difference is exact: the
    numerical Jacobian of vertex k must be coefs[k] * I, the error must be the same on every evaluation, and no pose may change."""
    def fn0(pkg):
        upkg = pkg.extended("user/custom_edges.py", USER_EDGES)

        def fn(it):
            n = CDIM[vtypes[0]]
            poses = [sym_pose(t, "x%d" % k) for k, t in enumerate(vtypes)]
            originals = [Pose(p.cls, list(p.data)) for p in poses]
            verts = [it.construct("Vertex", [Poly.const(10 + k), poses[k]]) for k in range(len(vtypes))]
            from ..interp import sym_vec
            z = sym_vec("z", n)
            edge = it.construct(cls, [[Poly.const(10 + k) for k in range(len(vtypes))], Arr([[Poly.const(1 if i == j else 0) for j in range(n)] for i in range(n)], 2),
                                      z, verts])
            e1 = it.call_method(edge, "calc_error", [])
            e2 = it.call_method(edge, "calc_error", [])
            if not (isinstance(e1, Arr) and isinstance(e2, Arr) and e1.same(e2)):
                raise ObFail("two evaluations of a user-defined error function give different values: the arrays handed out by the pose "
                             "accessors are not independent of the pose (in-place arithmetic on them changes the vertex)")
            J = it.call_method(edge, "calc_jacobians", [])
            for k, v in enumerate(verts):
                now = ga(v, "pose")
                if not isinstance(now, Pose) or len(now.data) != len(originals[k].data) or any(a != b for a, b in zip(now.data, originals[k].data)):
                    raise ObFail("evaluating a user-defined edge (error / numerical Jacobians) changes the pose of vertex %d" % k)
            if not isinstance(J, (list, tuple)) or len(J) != len(vtypes):
                raise ObFail("calc_jacobians returns %r" % (J,))
            for k, c in enumerate(coefs):
                want = Arr([[Poly.const(c if i == j else 0) for j in range(n)] for i in range(n)], 2)
                if not isinstance(J[k], Arr) or not J[k].same(want):
                    raise ObFail("the numerical Jacobian of vertex %d of a linear user-defined error function is not its exact derivative %s * I" % (k, c))
            if any(a != b for a, b in zip(z.data, ga(edge, "estimate").data)):
                raise ObFail("evaluating the edge changes its measurement")
            return dict(edge=cls, vertex_types=list(vtypes))
        return run_obligation(upkg, fn)
    return fn0


def perturb_restore_obligation(vtypes, m=2):
    """C15-E2, decided on the translated code: while calc_jacobians differentiates numerically, every evaluation of the error sees
    either the original poses or exactly one coordinate of one vertex moved; afterwards every vertex holds its original pose
    again and the pose *objects* that were given to the vertices have not been modified in place."""
    def fn(it):
        poses = [sym_pose(t, "x%d" % k, unit=True) for k, t in enumerate(vtypes)]
        originals = [Pose(p.cls, list(p.data)) for p in poses]
        verts = [it.construct("Vertex", [Poly.const(10 + k), poses[k]]) for k in range(len(vtypes))]
        edge = custom_edge(it, [Poly.const(10 + k) for k in range(len(vtypes))], None, None, verts)
        E = ErrorFunction(edge, m)
        edge.stubs["calc_error"] = E
        it.call_method(edge, "calc_jacobians", [])
        for k, v in enumerate(verts):
            pose_equal(it, ga(v, "pose"), originals[k], "after numerical differentiation the pose of vertex %d is not its original value "
                       "(perturbation not restored)" % k, allow_neg_quat=False)
            if any(a != b for a, b in zip(poses[k].data, originals[k].data)):
                raise ObFail("the pose object that vertex %d was created with has been modified in place by numerical differentiation "
                             "(whoever shares that object sees a perturbed pose)" % k)
        okey = tuple((p.cls, tuple(x.key() for x in p.data)) for p in originals)
        for key in E.seen:
            if key == okey:
                continue
            moved = [j for j in range(len(vtypes)) if key[j] != okey[j]]
            if len(moved) != 1:
                raise ObFail("the error is evaluated with %d vertices away from their original poses (a perturbation was not undone "
                             "before the next one)" % len(moved))
        # a second run must see exactly the same configurations (nothing left behind by the first one)
        n_before = len(E.seen)
        it.call_method(edge, "calc_jacobians", [])
        if len(E.seen) != n_before:
            raise ObFail("a second calc_jacobians() evaluates the error at configurations the first one did not: state was left behind")
        return dict(vertex_types=list(vtypes), configurations=len(E.seen))
    return lambda pkg: run_obligation(pkg, fn)


def run(run_, pkg, tier):
    run_.explanation = ("BaseEdge.calc_jacobians/_calc_jacobian are translated with calc_error as an *uninterpreted* function of the "
                        "vertex poses (a fresh vector of atoms per distinct pose configuration).  For unary, binary and ternary edges over "
                        "all pose types: there is one Jacobian per vertex in list order with shape err.shape + (dim,); column d of vertex k "
                        "equals (E[p_k := p_k [+] eps*e_d] - E_0)/eps with one and the same eps in [1e-8,1e-5], E_0 evaluated at the "
                        "unperturbed configuration, the perturbation applied through the pose's own boxplus and exactly one coordinate "
                        "perturbed; afterwards every vertex holds its original pose.  Plus the contribution identities of C03-a for "
                        "arities 1-3 (every vertex pair i<=j).")
    run_.trusted_base = ["gsverif.interp semantics", "real arithmetic"]
    run_.assumptions = ["the O(eps) truncation error and convergence of graphs built from such edges are numeric and not decided"]
    fn = pkg.method("BaseEdge", "_calc_jacobian")
    w = "%s:%d" % (fn._gs_module, fn.lineno)
    tasks = []
    for vt in SHAPES:
        key = "C16/finite-difference/%s" % "+".join(vt)
        if run_.wants(key):
            tasks.append((key, "C16-finite-difference-template", finite_difference_obligation(vt), w))
    for vt in (("PoseSE3",), ("PoseSE3", "PoseR3")):
        key = "C16/finite-difference/%s[quaternion not exactly of unit norm]" % "+".join(vt)
        if run_.wants(key):
            tasks.append((key, "C16-finite-difference-template", finite_difference_obligation(vt, second_state=False, unit=False), w))
    for cls, vt, coefs in USER_CASES:
        key = "C16/user-edge/%s[%s]" % (cls, "+".join(vt))
        if run_.wants(key):
            tasks.append((key, "C16-user-defined-error-function", user_edge_obligation(cls, vt, coefs), w))
    # step-size constants of the edge base class (numeric class attributes within the admissible range): an edge kind may carry its own
    import ast as _ast
    for cname in pkg.mro("BaseEdge"):
        for name, expr in sorted(pkg.classes[cname].consts.items()):
            if isinstance(expr, _ast.Constant) and isinstance(expr.value, float) and 1e-8 <= expr.value <= 1e-5:
                key = "C16/finite-difference/own-step[%s]" % name
                if run_.wants(key):
                    tasks.append((key, "C16-finite-difference-template",
                                  finite_difference_obligation(("PoseSE2", "PoseR2"), override=(name, Fraction(3, 10 ** 7))), w))
    tasks += contribution_tasks(run_, pkg, tier, prefix="C16")
    record(run_, tasks, run_tasks(pkg, tasks))
    run_.floor("C16 obligations", len(tasks) if run_.only is None else 10, 10)
