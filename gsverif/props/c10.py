"""C10 -- public pose Jacobian methods are exact derivatives of the named operation w.r.t. the named operand."""
import ast
import re

from .. import poly
from ..poly import Poly
from ..interp import Arr, Pose, sym_pose, diff_at_zero, Unsupported, POSE_LEN
from ..algebra import (POSES, CDIM, POINT_OF, run_obligation, run_tasks, record, ObFail, require_same, nterms,
                       delta_vec, zero_hook, arr_diff_report, snapshot, scribble, free_increment_columns, columns)

LEVEL = "proof"

# method name -> (operation, differentiated operand, compact rows only?)   -- from BasePose's documentation
METHODS = {
    "jacobian_self_oplus_other_wrt_self": ("oplus", "self", False),
    "jacobian_self_oplus_other_wrt_self_compact": ("oplus", "self", True),
    "jacobian_self_oplus_other_wrt_other": ("oplus", "other", False),
    "jacobian_self_oplus_other_wrt_other_compact": ("oplus", "other", True),
    "jacobian_self_ominus_other_wrt_self": ("ominus", "self", False),
    "jacobian_self_ominus_other_wrt_self_compact": ("ominus", "self", True),
    "jacobian_self_ominus_other_wrt_other": ("ominus", "other", False),
    "jacobian_self_ominus_other_wrt_other_compact": ("ominus", "other", True),
    "jacobian_self_oplus_point_wrt_self": ("oplus_point", "self", False),
    "jacobian_self_oplus_point_wrt_point": ("oplus_point", "point", False),
    "jacobian_inverse": ("inverse", "self", False),
    "jacobian_boxplus": ("boxplus", "delta", False),
}


def jac(vals, names):
    return Arr([[v.diff(n) for n in names] for v in vals], 2)


def operand_names(prefix, n):
    return ["%s[%d]" % (prefix, i) for i in range(n)]


def obligation(cls, method):
    op, wrt, compact = METHODS[method]

    def strict(pkg):
        # ambient derivative: the differentiated operand is NOT reduced modulo its unit-norm relation
        def fn(it):
            a = sym_pose(cls, "a", unit=(wrt != "self"))
            b = sym_pose(cls, "b", unit=(wrt != "other"))
            pt = sym_pose(POINT_OF[cls], "pt")
            c = CDIM[cls]
            if op == "boxplus":
                d = delta_vec(cls)
                res = it.call_method(a, "__add__", [d])
                names = operand_names("d", c)
                exp = Arr([[diff_at_zero(v, n, names) for n in names] for v in res.data], 2)
                got = it.call_method(a, method, [])
            else:
                if op == "oplus":
                    res, arg = it.call_method(a, "__add__", [b]), [b]
                elif op == "ominus":
                    res, arg = it.call_method(a, "__sub__", [b]), [b]
                elif op == "oplus_point":
                    res, arg = it.call_method(a, "__add__", [pt]), [pt]
                else:
                    res, arg = it.call_method(a, "inverse", []), []
                if not isinstance(res, Pose):
                    raise ObFail("operation %s does not return a pose" % op)
                target = {"self": ("a", len(a.data)), "other": ("b", len(b.data)), "point": ("pt", len(pt.data))}[wrt]
                vals = res.data[:c] if compact else res.data
                exp = jac(vals, operand_names(*target))
                got = it.call_method(a, method, arg)
            if not isinstance(got, Arr):
                raise ObFail("method returns %r, not an array" % (got,))
            full_shape = list(got.shape)
            if op == "boxplus":
                free = free_increment_columns(names)
                if len(free) < len(names):
                    if not free or got.ndim != 2 or got.shape != exp.shape:
                        return dict(shape=list(got.shape), terms=0, mode="the increment is zero on this path (value-level continuity is C09)")
                    got, exp = columns(got, free), columns(exp, free)
            require_same(got, exp, "%s.%s is not the derivative of %s w.r.t. %s" % (cls, method, op, wrt))
            return dict(shape=full_shape, terms=nterms(got), mode="ambient derivative (pure in the differentiated operand)")
        if op == "boxplus":
            hook = zero_hook(operand_names("d", CDIM[cls]), generic=True)
        else:
            wn = {"self": ("a", cls), "other": ("b", cls), "point": ("pt", POINT_OF[cls])}[wrt]
            hook = zero_hook(operand_names(wn[0], POSE_LEN[wn[1]]), generic="everywhere")
        return run_obligation(pkg, fn, hook=hook, divisors=lambda name: True)

    def tangent(pkg):
        # derivative along the manifold: J * jacobian_boxplus(operand) == d/d delta op(operand [+] delta) at 0
        def fn(it):
            a = sym_pose(cls, "a", unit=True)
            b = sym_pose(cls, "b", unit=True)
            pt = sym_pose(POINT_OF[cls], "pt")
            c = CDIM[cls]
            tcls = POINT_OF[cls] if wrt == "point" else cls
            d = delta_vec(tcls)
            names = operand_names("d", CDIM[tcls])
            base = {"self": a, "other": b, "point": pt}[wrt]
            moved = it.call_method(base, "__iadd__", [d])
            aa, bb, pp = (moved if wrt == "self" else a), (moved if wrt == "other" else b), (moved if wrt == "point" else pt)
            if op == "oplus":
                res, arg = it.call_method(aa, "__add__", [bb]), [b]
            elif op == "ominus":
                res, arg = it.call_method(aa, "__sub__", [bb]), [b]
            elif op == "oplus_point":
                res, arg = it.call_method(aa, "__add__", [pp]), [pt]
            else:
                res, arg = it.call_method(aa, "inverse", []), []
            vals = res.data[:c] if compact else res.data
            exp = Arr([[diff_at_zero(v, n, names) for n in names] for v in vals], 2)
            raw = it.call_method(a, method, arg)
            got = it.dot(raw, it.call_method(base, "jacobian_boxplus", []), None)
            free = free_increment_columns(names)
            if len(free) < len(names):
                if not free or not isinstance(got, Arr) or got.ndim != 2 or got.shape != exp.shape:
                    return dict(shape=list(raw.shape) if isinstance(raw, Arr) else None, terms=0, mode="the increment is zero on this path")
                got, exp = columns(got, free), columns(exp, free)
            require_same(got, exp, "%s.%s chained with jacobian_boxplus is not the derivative of %s along the manifold" % (cls, method, op))
            return dict(shape=list(raw.shape) if isinstance(raw, Arr) else None, terms=nterms(got), mode="derivative along the manifold (chained with jacobian_boxplus)")
        return run_obligation(pkg, fn, hook=zero_hook(operand_names("d", CDIM[POINT_OF[cls] if wrt == "point" else cls]), generic=True), divisors=lambda name: True)

    def run(pkg):
        r = strict(pkg)
        if r["status"] == "error" and op != "boxplus":
            # the ambient identity is outside the translated subset (e.g. the method renormalises a copy: a quotient by |q|, which
            # is 1 on the manifold): decide the manifold-level identity instead
            poly.reset()
            r2 = tangent(pkg)
            if r2["status"] in ("ok", "violation"):
                r2.setdefault("stats", {})["note"] = "ambient identity undecided (%s); decided along the manifold" % r["detail"][:120]
                return r2
            return r
        if r["status"] == "violation" and op != "boxplus":
            poly.reset()
            r2 = tangent(pkg)
            if r2["status"] == "ok":
                r2["stats"]["note"] = "ambient identity failed but the manifold-level identity holds"
                return r2
            if r2["status"] == "error":
                r["detail"] += " [manifold-level fallback undecided: %s]" % r2["detail"]
        return r
    return run


def stale_state_obligation(cls):
    """Each Jacobian method answers for the *current* contents of the pose: call, overwrite the pose in place, call again."""
    def fn(it):
        a = sym_pose(cls, "a", unit=True)
        b = sym_pose(cls, "b", unit=True)
        pt = sym_pose(POINT_OF[cls], "pt")
        args = {"oplus": [b], "ominus": [b], "oplus_point": [pt], "inverse": [], "boxplus": []}
        for m, (op, wrt, compact) in METHODS.items():
            r1 = it.call_method(a, m, args[op])
            seen = snapshot(r1)
            scribble(r1)                       # the caller owns the returned matrix (J *= weight, J[0, 0] = ...)
            r2 = it.call_method(a, m, args[op])
            require_same(r2, seen, "%s.%s: after a caller modified the matrix returned by an earlier call, the method returns a "
                                   "different matrix (it hands out shared storage instead of a new array)" % (cls, m))
            scribble(r2)
        # a result that a caller keeps does not change when the same or a sibling method is called on another pose
        c = sym_pose(cls, "c", unit=True)
        kept = []
        for m, (op, wrt, compact) in METHODS.items():
            r1 = it.call_method(a, m, args[op])
            kept.append((m, r1, snapshot(r1)))
        for m, (op, wrt, compact) in METHODS.items():
            it.call_method(c, m, args[op])
        for m, r1, seen in kept:
            require_same(r1, seen, "%s.%s: the matrix returned earlier changed when Jacobian methods were called on another pose "
                                   "(results share storage)" % (cls, m))
        a2 = sym_pose(cls, "a2", unit=True)
        a.data[:] = list(a2.data)
        for m, (op, wrt, compact) in METHODS.items():
            got = it.call_method(a, m, args[op])
            exp = it.call_method(a2, m, args[op])
            require_same(got, exp, "%s.%s: after the pose was modified in place the method still answers for the old contents "
                                   "(a cached result)" % (cls, m))
        return dict(mode="history-independence", methods=len(METHODS))
    return lambda pkg: run_obligation(pkg, fn)


SHAPE_RE = re.compile(r"shape:\s*``\s*(\d+)\s*x\s*(\d+)\s*``")


def doc_shape(fn):
    doc = ast.get_docstring(fn) or ""
    m = SHAPE_RE.search(doc)
    return (int(m.group(1)), int(m.group(2))) if m else None


def run(run_, pkg, tier):
    run_.explanation = ("Each of the 12 public Jacobian methods of each pose class is translated from its AST to a matrix of "
                        "polynomial normal forms and compared entry by entry (including shape) with the formal derivative of the "
                        "normal form of the class's own __add__/__sub__/inverse w.r.t. the named operand; *_compact against the "
                        "compact rows; jacobian_boxplus against d(a [+] delta)/d delta at 0.  Identities are polynomial, hence hold "
                        "for every operand at once.")
    run_.trusted_base = ["CPython ast", "gsverif.interp semantics of the modelled numpy subset", "real arithmetic instead of IEEE-754",
                         "uniqueness of normal forms modulo var^2 rules (Groebner basis with coprime leading terms)"]
    run_.assumptions = ["floating-point rounding is not modelled", "method-name -> (operation, operand) table follows BasePose's docstrings"]
    tasks = []
    found = 0
    for cls in POSES:
        pkg.require_class(cls)
        for m in METHODS:
            if pkg.own_method(cls, m) is not None or pkg.lookup(cls, m) is not None:
                found += 1
            key = "%s.%s" % (cls, m)
            if run_.wants(key):
                fn = pkg.method(cls, m)
                tasks.append((key, "C10-derivative", obligation(cls, m), "%s:%d" % (fn._gs_module, fn.lineno)))
    for cls in POSES:
        key = "%s/history-independent" % cls
        if run_.wants(key):
            fn = pkg.method(cls, "jacobian_boxplus")
            tasks.append((key, "C10-history-independence", stale_state_obligation(cls), "%s:%d" % (fn._gs_module, fn.lineno)))
    run_.floor("pose Jacobian methods", found, 48)
    results = run_tasks(pkg, tasks)
    record(run_, tasks, results)
    # secondary rule: documented shape token vs shape of the returned literal
    shapes = {}
    for (key, _, _, _), res in zip(tasks, results):
        if res["status"] == "ok" and "shape" in res["stats"]:
            shapes[key] = tuple(res["stats"]["shape"])
    ndoc = 0
    for cls in POSES + ["BasePose"]:
        for m in METHODS:
            fn = pkg.own_method(cls, m)
            if fn is None:
                continue
            ds = doc_shape(fn)
            key = "%s.%s" % (cls, m)
            if ds is None or key not in shapes:
                continue
            ndoc += 1
            run_.check(ds == shapes[key], key + "/doc-shape", "C10-documented-shape",
                       "docstring says shape %s x %s but the method returns %s" % (ds[0], ds[1], shapes[key]),
                       where="%s:%d" % (fn._gs_module, fn.lineno))
    run_.extra["documented_shapes_compared"] = ndoc
