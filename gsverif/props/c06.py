"""C06 -- fixed vertices never move; free vertices solve the reduced problem."""
from .. import optim_rules
from ..assembly import SCENARIOS, SEQUENCES, assembly_obligation, sequence_obligation
from ..algebra import run_tasks, record

LEVEL = "other"


def run(run_, pkg, tier):
    run_.explanation = ("a: package-wide who-may-write rule for `.fixed` (Vertex.__init__, and optimize(): first vertex := True exactly "
                        "under `if fix_first_pose`); b: the fixed index set is recomputed from the vertices' flags after that store and "
                        "dominates every assembly; c/e: the assembly code path (edge contributions -> accumulator -> "
                        "_calc_chi2_gradient_hessian) is interpreted in the algebraic domain on graph shapes with every kind of fixed "
                        "subset (none, first, middle, several, all, fixed vertex without incident edge) and must equal the reduced "
                        "system: zero gradient block, zero off-diagonal blocks, identity diagonal block for *every* fixed vertex; "
                        "d: every pose store of optimize() is dominated by a test that the vertex is not fixed.")
    run_.trusted_base = ["gsverif.interp semantics of dict/defaultdict/reduce/lil_matrix block stores", "call resolution by class hierarchy"]
    run_.assumptions = ["that the free block's numeric solution equals the reduced problem's solution is numeric (spsolve) and not decided"]
    oa = optim_rules.analyse(pkg)
    n = optim_rules.optimize_verdicts(run_, pkg, "C06", lambda f: (f.key, f.rule) if f.rule.startswith("C06-") else None)
    run_.floor("C06 optimize rule instances", n, 8)
    if not oa.failed:
        run_.floor("stores to .fixed in the package", oa.n_fixed_stores, 2)
        run_.floor("pose stores in optimize", oa.n_pose_stores, 1)
    fn = pkg.method("Graph", "_calc_chi2_gradient_hessian")
    tasks = []
    for scn in SCENARIOS:
        key = "C06-ce/assembly/%s" % scn.name
        if run_.wants(key):
            tasks.append((key, "C06-ce-reduced-system", assembly_obligation(scn), "%s:%d" % (fn._gs_module, fn.lineno)))
    for first, second in SEQUENCES:
        key = "C06-ce/assembly-sequence/%s->%s" % (first.name, second.name)
        if run_.wants(key):
            tasks.append((key, "C06-ce-reduced-system-history-independent", sequence_obligation(first, second), "%s:%d" % (fn._gs_module, fn.lineno)))
    results = run_tasks(pkg, tasks)
    from ..algebra import across_thresholds
    from ..assembly import directed_assembly_tasks
    results, xt, xr = across_thresholds(run_, pkg, tasks, results, directed_assembly_tasks("C06-ce/assembly", "C06-ce-reduced-system", "%s:%d" % (fn._gs_module, fn.lineno)))
    record(run_, tasks, results)
    record(run_, xt, xr)
