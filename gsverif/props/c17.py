"""C17 -- equals is a sound, total comparison (structural clauses: totality, type soundness, field coverage, reflexivity)."""
import itertools

from ..poly import Poly
from ..interp import ga, sa, Arr, Pose, Obj, sym_pose, sym_vec, explore, PathRaise
from ..algebra import custom_edge, POSES, CDIM, run_tasks, record, ObFail, run_obligation
from ..assembly import sym_symmetric
from ..model import AnalysisError
from .c18 import distinct_names_hook

LEVEL = "other"

TRUE, FALSE, EITHER = "must-be-True", "must-be-False", "numeric"


def outcomes(pkg, build):
    """Explore a.equals(b); returns (set of outcomes, first raise or None, number of paths)."""
    def run(it):
        a, b = build(it)
        return it.call_method(a, "equals", [b])
    paths = explore(pkg, run, hook=distinct_names_hook, max_paths=256)
    outs, raised = set(), None
    for p in paths:
        if p.raised is not None:
            raised = raised or (p.raised, p.conds)
        else:
            outs.add(p.value if isinstance(p.value, bool) else "non-bool:%r" % (p.value,))
    return outs, raised, len(paths)


def judge(pkg, build, expected, what):
    outs, raised, n = outcomes(pkg, build)
    if raised is not None:
        raise ObFail("%s: equals raises %s%s" % (what, raised[0], (" on the path [%s]" % " and ".join(raised[1])) if raised[1] else ""))
    bad = [o for o in outs if not isinstance(o, bool)]
    if bad:
        raise ObFail("%s: equals returns %s" % (what, bad[0]))
    if expected == TRUE and outs != {True}:
        raise ObFail("%s: equals can return False" % what)
    if expected == FALSE and outs != {False}:
        raise ObFail("%s: equals can return True" % what)
    return n


def copy_pose(p):
    return Pose(p.cls, list(p.data))


# ------------------------------------------------------------------------------------------------ builders
def mk_vertex(it, vid, pose):
    return it.construct("Vertex", [vid, pose])


def mk_odometry(it, cls, ids, tag, info=None, est=None):
    n = CDIM[cls]
    return it.construct("EdgeOdometry", [list(ids), info if info is not None else sym_symmetric("W" + tag, n),
                                         est if est is not None else sym_pose(cls, "z" + tag, unit=True)])


def mk_landmark(it, pcls, ids, tag, info=None, est=None, off=None, oid=None):
    lcls = {"PoseSE2": "PoseR2", "PoseSE3": "PoseR3", "PoseR2": "PoseR2", "PoseR3": "PoseR3"}[pcls]
    n = CDIM[lcls]
    return it.construct("EdgeLandmark", [list(ids), info if info is not None else sym_symmetric("W" + tag, n),
                                         est if est is not None else sym_pose(lcls, "z" + tag),
                                         off if off is not None else sym_pose(pcls, "off" + tag, unit=True)], dict(offset_id=oid))


def mk_custom(it, ids, tag, est):
    return custom_edge(it, list(ids), sym_symmetric("W" + tag, 1), est, None)


def clone_edge(e):
    c = Obj(e.cls, **{k: (copy_pose(v) if isinstance(v, Pose) else (v.copy() if isinstance(v, Arr) else (list(v) if isinstance(v, list) else v)))
                      for k, v in e.fields.items()})
    return c


# ------------------------------------------------------------------------------------------------ obligations
def pose_pair(c1, c2):
    def fn(it):
        def build(it2, same):
            a = sym_pose(c1, "a", unit=True)
            if same:
                return a, copy_pose(a)
            return a, sym_pose(c2, "b", unit=True)
        n = 0
        if c1 == c2:
            n += judge(it.pkg, lambda i: build(i, True), TRUE, "%s vs its copy" % c1)
            n += judge(it.pkg, lambda i: build(i, False), EITHER, "%s vs another %s" % (c1, c2))
        else:
            n += judge(it.pkg, lambda i: build(i, False), FALSE, "%s vs %s (different pose types)" % (c1, c2))
        return dict(explored=n)
    return lambda pkg: run_obligation(pkg, fn)


def sensitivity(kind):
    """Q4 for numeric fields: replacing any single numeric component by an unrelated value must be able to make equals return
    False (a component the comparison never looks at would compare equal whatever its value)."""
    def fn(it):
        n = 0
        ida, idb = Poly.var("ida"), Poly.var("idb")

        def must_see(build, what):
            outs, raised, k = outcomes(it.pkg, build)
            if raised is not None:
                raise ObFail("%s: equals raises %s" % (what, raised[0]))
            if False not in outs:
                raise ObFail("%s: equals returns True on every path -- that component is not compared" % what)
            return k
        def isometric(data, how):
            """A norm-preserving but different rearrangement of the numbers: the comparison must look at the difference of the
            two objects, not at the difference of some summary (their norms, sums, ...)."""
            flat = data
            if how == "negated":
                return [-x for x in flat]
            return [flat[1], flat[0]] + list(flat[2:])
        if kind == "graph":
            def graph(i2, tag, change=None):
                vs = [mk_vertex(i2, [ida, idb][k], sym_pose("PoseSE2", "p%d" % k)) for k in range(2)]
                es = [mk_odometry(i2, "PoseSE2", [ida, idb], "e0"), mk_odometry(i2, "PoseSE2", [ida, idb], "e1")]
                if change is not None:
                    change(vs, es)
                return i2.construct("Graph", [es, vs])

            def ch_est(k):
                return lambda vs, es: ga(es[k], "estimate").data.__setitem__(0, Poly.var("other"))

            def ch_info(k):
                return lambda vs, es: ga(es[k], "information").data[0].__setitem__(1, Poly.var("other"))

            def ch_pose(k):
                return lambda vs, es: ga(vs[k], "pose").data.__setitem__(1, Poly.var("other"))

            def ch_ids(k):
                return lambda vs, es: sa(es[k], "vertex_ids", [idb, ida])
            for label, ch in [("estimate of edge %d" % k, ch_est(k)) for k in (0, 1)] + [("information of edge %d" % k, ch_info(k)) for k in (0, 1)] + \
                    [("pose of vertex %d" % k, ch_pose(k)) for k in (0, 1)] + [("vertex ids of edge %d" % k, ch_ids(k)) for k in (0, 1)]:
                n += must_see(lambda i2, ch=ch: (graph(i2, "a"), graph(i2, "b", ch)), "Graph vs the same graph with another %s" % label)
                n += must_see(lambda i2, ch=ch: (graph(i2, "b", ch), graph(i2, "a")), "a graph with another %s vs the original" % label)
        elif kind == "pose":
            for c in POSES:
                for how in ("negated", "swapped"):
                    def build(i2, c=c, how=how):
                        a = sym_pose(c, "a", unit=False)
                        return a, Pose(c, isometric(list(a.data), how))
                    n += must_see(build, "%s vs the same numbers %s (same norm, different pose)" % (c, how))
        elif kind == "vertex":
            for c in POSES:
                def build(i2, c=c):
                    a = sym_pose(c, "a", unit=False)
                    return mk_vertex(i2, ida, a), mk_vertex(i2, ida, Pose(c, isometric(list(a.data), "swapped")))
                n += must_see(build, "Vertex[%s] vs a vertex whose pose has two components swapped (same norm)" % c)
        elif kind == "edge":
            for label, mk in (("EdgeOdometry[PoseSE2]", lambda i2: mk_odometry(i2, "PoseSE2", [ida, idb], "o")),
                              ("EdgeOdometry[PoseSE3]", lambda i2: mk_odometry(i2, "PoseSE3", [ida, idb], "o")),
                              ("EdgeLandmark[PoseSE2]", lambda i2: mk_landmark(i2, "PoseSE2", [ida, idb], "l", oid=Poly.var("id_o"))),
                              ("EdgeLandmark[PoseSE3]", lambda i2: mk_landmark(i2, "PoseSE3", [ida, idb], "l", oid=Poly.var("id_o")))):
                for fname in ("estimate", "offset", "information"):
                    if ga(mk(it), fname, None) is None:
                        continue
                    for how in ("negated", "swapped"):
                        def build(i2, mk=mk, fname=fname, how=how):
                            a = mk(i2)
                            b = clone_edge(a)
                            f = ga(b, fname)
                            if fname == "information":
                                if how == "negated":
                                    f.data[:] = [[-x for x in r] for r in f.data]
                                else:
                                    f.data[0], f.data[1] = f.data[1], f.data[0]     # rows swapped: same Frobenius norm
                            else:
                                f.data[:] = isometric(list(f.data), how)
                            return a, b
                        n += must_see(build, "%s vs a copy whose %s is %s (same norm, different numbers)" % (label, fname, how))
        if kind == "pose":
            for c in POSES:
                L = len(sym_pose(c, "a").data)
                for i in range(L):
                    def build(i2, c=c, i=i):
                        a = sym_pose(c, "a", unit=False)
                        b = copy_pose(a)
                        b.data[i] = Poly.var("other")
                        return a, b
                    n += must_see(build, "%s vs a copy whose component %d was replaced" % (c, i))
                    n += must_see(lambda i2, build=build: tuple(reversed(build(i2))), "a copy with component %d replaced vs %s" % (i, c))
        elif kind == "vertex":
            for c in POSES:
                L = len(sym_pose(c, "a").data)
                for i in range(L):
                    def build(i2, c=c, i=i):
                        a = sym_pose(c, "a", unit=False)
                        b = copy_pose(a)
                        b.data[i] = Poly.var("other")
                        return mk_vertex(i2, ida, a), mk_vertex(i2, ida, b)
                    n += must_see(build, "Vertex[%s] vs a copy whose pose component %d was replaced" % (c, i))
        elif kind == "edge":
            makers = [("EdgeOdometry[PoseSE2]", lambda i2: mk_odometry(i2, "PoseSE2", [ida, idb], "o")),
                      ("EdgeOdometry[PoseSE3]", lambda i2: mk_odometry(i2, "PoseSE3", [ida, idb], "o")),
                      ("EdgeLandmark[PoseSE2]", lambda i2: mk_landmark(i2, "PoseSE2", [ida, idb], "l", oid=Poly.var("id_o"))),
                      ("EdgeLandmark[PoseSE3]", lambda i2: mk_landmark(i2, "PoseSE3", [ida, idb], "l", oid=Poly.var("id_o")))]
            for label, mk in makers:
                proto = mk(it)
                fields = [("estimate", len(ga(proto, "estimate").data))]
                if ga(proto, "offset", None) is not None:
                    fields.append(("offset", len(ga(proto, "offset").data)))
                for fname, L in fields:
                    for i in range(L):
                        def build(i2, mk=mk, fname=fname, i=i):
                            a = mk(i2)
                            b = clone_edge(a)
                            ga(b, fname).data[i] = Poly.var("other")
                            return a, b
                        n += must_see(build, "%s vs a copy whose %s component %d was replaced" % (label, fname, i))
                k = ga(proto, "information").shape[0]
                for r in range(k):
                    for c2 in range(k):
                        def build(i2, mk=mk, r=r, c2=c2):
                            a = mk(i2)
                            b = clone_edge(a)
                            ga(b, "information").data[r][c2] = Poly.var("other")
                            return a, b
                        n += must_see(build, "%s vs a copy whose information[%d,%d] was replaced" % (label, r, c2))
        return dict(explored=n, kind=kind)
    return lambda pkg: run_obligation(pkg, fn)


def tolerance_cases():
    """Q5: the caller's tolerance governs every numeric comparison below the entry point: with a symbolic `tol`, every inequality
    the comparison decides on symbolic numbers mentions `tol` (an inequality against a built-in constant means a nested equals
    was called without the tolerance, or a hard-wired threshold is used).  Sign tests without a constant term (abs / max of
    data) are computations, not thresholds, and are ignored."""
    import re as _re

    def fn(it):
        T = Poly.var("tol")
        ida, idb = Poly.var("ida"), Poly.var("idb")
        n = 0

        def graph(i, tag, kind):
            vs = [mk_vertex(i, [ida, idb][k], sym_pose("PoseSE2", "p%s%d" % (tag, k))) for k in range(2)]
            if kind == "lm":
                vs[1] = mk_vertex(i, idb, sym_pose("PoseR2", "pl" + tag))
                es = [mk_landmark(i, "PoseSE2", [ida, idb], "e" + tag)]
            else:
                es = [mk_odometry(i, "PoseSE2", [ida, idb], "e" + tag)]
            return i.construct("Graph", [es, vs])
        cases = [("%s" % c, (lambda i, c=c: (sym_pose(c, "a"), sym_pose(c, "b")))) for c in POSES]
        cases += [("Vertex[%s]" % c, (lambda i, c=c: (mk_vertex(i, ida, sym_pose(c, "a")), mk_vertex(i, ida, sym_pose(c, "b"))))) for c in POSES]
        cases += [("EdgeOdometry[%s]" % c, (lambda i, c=c: (mk_odometry(i, c, [ida, idb], "a"), mk_odometry(i, c, [ida, idb], "b")))) for c in ("PoseSE2", "PoseSE3")]
        cases += [("EdgeLandmark[%s]" % c, (lambda i, c=c: (mk_landmark(i, c, [ida, idb], "a", oid=Poly.var("oid")), mk_landmark(i, c, [ida, idb], "b", oid=Poly.var("oid")))))
                  for c in ("PoseSE2", "PoseSE3")]
        cases += [("CustomEdge[array estimate]", lambda i: (mk_custom(i, [ida, idb], "a", sym_vec("esta", 2)), mk_custom(i, [ida, idb], "b", sym_vec("estb", 2)))),
                  ("CustomEdge[float estimate]", lambda i: (mk_custom(i, [ida, idb], "a", Poly.var("esta")), mk_custom(i, [ida, idb], "b", Poly.var("estb")))),
                  ("Graph[odometry]", lambda i: (graph(i, "a", "odo"), graph(i, "b", "odo"))),
                  ("Graph[landmark]", lambda i: (graph(i, "a", "lm"), graph(i, "b", "lm")))]
        for label, build in cases:
            def run(i, build=build):
                a, b = build(i)
                return i.call_method(a, "equals", [b, T])
            paths = explore(it.pkg, run, hook=distinct_names_hook, max_paths=1024)
            n += len(paths)
            n_ineq = 0
            for p in paths:
                if p.raised is not None:
                    raise ObFail("%s: equals(other, tol) raises %s" % (label, p.raised))
                for cnd in p.conds:
                    m = _re.search(r" (>=|<=|>|<) 0 is (True|False)$", cnd)
                    if not m:
                        continue           # exact (in)equality tests and structural tests do not involve a tolerance
                    n_ineq += 1
                    lhs = cnd[:m.start()]
                    has_const = any(_re.fullmatch(r"-?\d+(/\d+)?", t.strip(" ()")) for t in _re.split(r" \+ |\)/\(", lhs))
                    if not _re.search(r"\btol\b", cnd) and has_const:
                        # (homogeneous sign tests such as those inside abs()/max() of data are computations, not thresholds)
                        raise ObFail("%s: equals(other, tol) decides `%s`, which does not involve the caller's tolerance "
                                     "(a nested comparison runs with a built-in threshold)" % (label, cnd.rsplit(" is ", 1)[0]))
            if n_ineq == 0:
                raise ObFail("%s: equals(other, tol) never compares anything against the tolerance" % label)
        return dict(explored=n, cases=len(cases))
    return lambda pkg: run_obligation(pkg, fn)


def locality_cases(kind, nv, ne):
    """Q3: "any numeric component far above the tolerance" is measured against the object that component belongs to.  With a
    symbolic `tol`, every inequality that Graph.equals decides against the tolerance involves the numbers of ONE constituent
    (one vertex pair or one edge pair): a threshold test that mixes the data of several vertices / edges scales one vertex's
    difference by the size of the rest of the graph, so the same single-component difference is reported or not depending on
    unrelated vertices.  (Decisions that do not involve the tolerance -- e.g. the comparisons inside a max() over per-object
    errors -- are computations and are not restricted.)"""
    from ..interp import base_variables

    def fn(it):
        T = Poly.var("tol")
        ids = [Poly.var("ida"), Poly.var("idb"), Poly.var("idc")]
        n = 0
        if True:
            owner = {}

            def graph(i, tag, kind=kind, owner=owner):
                vs = []
                for k in range(nv):
                    cls = "PoseR2" if (kind == "lm" and k == 1) else "PoseSE2"
                    vs.append(mk_vertex(i, ids[k], sym_pose(cls, "p%s%d" % (tag, k))))
                    owner["p%s%d" % (tag, k)] = "vertex %d" % k
                es = []
                for k, pair in enumerate(([ids[0], ids[1]], [ids[2], ids[1]] if kind == "lm" else [ids[1], ids[2]])[:ne]):
                    t2 = "%s%d" % (tag, k)
                    es.append(mk_landmark(i, "PoseSE2", pair, t2) if kind == "lm" else mk_odometry(i, "PoseSE2", pair, t2))
                    for pre in ("W", "z", "off"):
                        owner[pre + t2] = "edge %d" % k
                return i.construct("Graph", [es, vs])

            def run(i):
                return i.call_method(graph(i, "a"), "equals", [graph(i, "b"), T])
            try:
                paths = explore(it.pkg, run, hook=distinct_names_hook, max_paths=4096)
            except AnalysisError as e:
                paths = getattr(e, "partial", None)
                if paths is None:
                    raise
            n += len(paths)
            n_tol = 0
            for p in paths:
                if p.raised is not None:
                    raise ObFail("Graph[%s].equals(other, tol) raises %s" % (kind, p.raised))
                for d in p.decided:
                    bv = base_variables(d)
                    if "tol" not in bv:
                        continue
                    n_tol += 1
                    who = set()
                    for v in bv - {"tol"}:
                        o = owner.get(v.split("[")[0])
                        if o is None:
                            raise AnalysisError("unexpected symbol %s in a decision of Graph.equals" % v)
                        who.add(o)
                    if len(who) > 1:
                        raise ObFail("Graph.equals(other, tol) decides a threshold that mixes the numbers of %s: whether a difference in one "
                                     "of them counts as 'above the tolerance' then depends on the size of the others (the comparison is not "
                                     "relative to the object that differs)" % " and ".join(sorted(who)))
            if n_tol == 0:
                raise ObFail("Graph[%s].equals(other, tol) never compares anything against the tolerance" % kind)
        return dict(explored=n)
    return lambda pkg: run_obligation(pkg, fn)


def floor_cases():
    """Q1 at the origin: "any perturbation far below the tolerance compares True" also when the reference value is exactly zero.  A
    purely relative comparison (|a-b| <= tol * max(|a|,|b|)) has no neighbourhood of equality around 0: there 0 and 1e-300 differ.
    The object with all-zero numbers is compared with a copy carrying an infinitesimal symbolic difference d; every comparison
    is decided by its strict sign at d = 0 (continuity) and left open when the two sides are equal there: equals must return True
    on every remaining path, with the default tolerance of the code."""
    from ..algebra import zero_hook
    from ..interp import sym_vec as _sv

    def fn(it):
        ida, idb = Poly.var("ida"), Poly.var("idb")
        n = 0

        def zero_pose(c):
            return Pose(c, [Poly() for _ in range({"PoseR2": 2, "PoseR3": 3, "PoseSE2": 3}[c])])

        def tiny_pose(c):
            k = {"PoseR2": 2, "PoseR3": 3, "PoseSE2": 3}[c]
            if c == "PoseSE2":
                from .. import poly as _p
                _p.register_angle("d[2]")
            return Pose(c, [Poly.var("d[%d]" % i) for i in range(k)])
        cases = []
        for c in ("PoseR2", "PoseR3", "PoseSE2"):
            cases.append((c, lambda i, c=c: (zero_pose(c), tiny_pose(c))))
            cases.append(("Vertex[%s]" % c, lambda i, c=c: (mk_vertex(i, ida, zero_pose(c)), mk_vertex(i, ida, tiny_pose(c)))))
        W2, W3 = sym_symmetric("W", 2), sym_symmetric("W", 3)
        cases.append(("EdgeOdometry[PoseSE2].estimate", lambda i: (mk_odometry(i, "PoseSE2", [ida, idb], "a", info=W3, est=zero_pose("PoseSE2")),
                                                                   mk_odometry(i, "PoseSE2", [ida, idb], "b", info=W3, est=tiny_pose("PoseSE2")))))
        cases.append(("EdgeOdometry[PoseR3].estimate", lambda i: (mk_odometry(i, "PoseR3", [ida, idb], "a", info=W3, est=zero_pose("PoseR3")),
                                                                  mk_odometry(i, "PoseR3", [ida, idb], "b", info=W3, est=tiny_pose("PoseR3")))))
        off = sym_pose("PoseSE2", "off", unit=True)
        cases.append(("EdgeLandmark[PoseSE2].estimate", lambda i: (mk_landmark(i, "PoseSE2", [ida, idb], "a", info=W2, est=zero_pose("PoseR2"), off=off),
                                                                   mk_landmark(i, "PoseSE2", [ida, idb], "b", info=W2, est=tiny_pose("PoseR2"), off=copy_pose(off)))))
        zl = sym_pose("PoseR2", "zl")
        cases.append(("EdgeLandmark[PoseSE2].offset", lambda i: (mk_landmark(i, "PoseSE2", [ida, idb], "a", info=W2, est=zl, off=zero_pose("PoseSE2")),
                                                                 mk_landmark(i, "PoseSE2", [ida, idb], "b", info=W2, est=copy_pose(zl), off=tiny_pose("PoseSE2")))))
        cases.append(("CustomEdge[array estimate]", lambda i: (mk_custom(i, [ida, idb], "a", Arr([Poly(), Poly()], 1)), mk_custom(i, [ida, idb], "a", _sv("d", 2)))))
        cases.append(("CustomEdge[float estimate]", lambda i: (mk_custom(i, [ida, idb], "a", Poly()), mk_custom(i, [ida, idb], "a", Poly.var("d[0]")))))
        znames = ["d[%d]" % k for k in range(3)]
        zh = zero_hook(znames)

        def hook(d):
            r = distinct_names_hook(d)
            return r if r is not None else zh(d)
        for label, build in cases:
            for direction in (0, 1):
                def run(i, build=build, direction=direction):
                    a, b = build(i)
                    if direction:
                        a, b = b, a
                    return i.call_method(a, "equals", [b])
                paths = explore(it.pkg, run, hook=hook, max_paths=256)
                n += len(paths)
                for p in paths:
                    if p.raised is not None:
                        raise ObFail("%s: comparing the all-zero object with an infinitesimally different one raises %s" % (label, p.raised))
                    if p.value is not True:
                        raise ObFail("%s: the all-zero object and a copy that differs by an arbitrarily small amount compare %r%s: the comparison "
                                     "has no absolute floor at zero (a purely relative test)" % (
                                         label, p.value, (" on the path [%s]" % " and ".join(p.conds)[:300]) if p.conds else ""))
        return dict(explored=n, cases=len(cases))
    return lambda pkg: run_obligation(pkg, fn)


def custom_size_cases():
    """Custom edges of one class whose array estimates / information matrices have different sizes: False, never an exception."""
    def fn(it):
        ids = [Poly.var("ida"), Poly.var("idb")]
        n = 0

        def cust(i2, tag, m, k):
            return custom_edge(i2, list(ids), sym_symmetric("W" + tag, k), sym_vec("est" + tag, m), None)
        for (m1, k1), (m2, k2) in (((2, 2), (3, 3)), ((3, 3), (2, 2)), ((1, 1), (2, 2)), ((2, 1), (3, 2))):
            n += judge(it.pkg, lambda i2: (cust(i2, "a", m1, k1), cust(i2, "b", m2, k2)), FALSE,
                       "custom edge (estimate length %d, information %dx%d) vs custom edge (estimate length %d, information %dx%d)" % (m1, k1, k1, m2, k2, k2))
        return dict(explored=n)
    return lambda pkg: run_obligation(pkg, fn)


def vertex_cases():
    def fn(it):
        n = 0
        ida, idb = Poly.var("ida"), Poly.var("idb")
        for c in POSES:
            n += judge(it.pkg, lambda i, c=c: (lambda p: (mk_vertex(i, ida, p), mk_vertex(i, ida, copy_pose(p))))(sym_pose(c, "p", unit=True)),
                       TRUE, "Vertex[%s] vs its copy" % c)
            n += judge(it.pkg, lambda i, c=c: (lambda p: (mk_vertex(i, ida, p), mk_vertex(i, idb, copy_pose(p))))(sym_pose(c, "p", unit=True)),
                       FALSE, "Vertex[%s] vs same pose with another id" % c)
        for c1, c2 in itertools.permutations(POSES, 2):
            n += judge(it.pkg, lambda i, c1=c1, c2=c2: (mk_vertex(i, ida, sym_pose(c1, "p", unit=True)), mk_vertex(i, ida, sym_pose(c2, "q", unit=True))),
                       FALSE, "Vertex[%s] vs Vertex[%s] with the same id" % (c1, c2))
        return dict(explored=n)
    return lambda pkg: run_obligation(pkg, fn)


def edge_family(it):
    """(name, builder) for one representative of every built-in edge kind plus custom edges with array / scalar estimates."""
    ids = [Poly.var("ida"), Poly.var("idb")]
    fam = []
    for c in POSES:
        fam.append(("EdgeOdometry[%s]" % c, lambda i, c=c: mk_odometry(i, c, ids, "o" + c)))
    for c in POSES:
        fam.append(("EdgeLandmark[%s]" % c, lambda i, c=c: mk_landmark(i, c, ids, "l" + c, oid=Poly.var("oid"))))
    fam.append(("CustomEdge[array estimate]", lambda i: mk_custom(i, ids, "c1", sym_vec("est", 1))))
    fam.append(("CustomEdge[float estimate]", lambda i: mk_custom(i, ids, "c2", Poly.var("estf"))))
    return fam


def edge_cross(k1, k2):
    def fn(it):
        fam = edge_family(it)
        (n1, b1), (n2, b2) = fam[k1], fam[k2]
        n = 0
        if k1 == k2:
            n += judge(it.pkg, lambda i: (lambda e: (e, clone_edge(e)))(b1(i)), TRUE, "%s vs its copy" % n1)
        else:
            exp = FALSE
            if n1.startswith("CustomEdge") and n2.startswith("CustomEdge"):
                exp = EITHER   # same class, numeric estimates of the same kind family
            n += judge(it.pkg, lambda i: (b1(i), b2(i)), exp, "%s vs %s" % (n1, n2))
        return dict(explored=n, pair=[n1, n2])
    return lambda pkg: run_obligation(pkg, fn)


def edge_field_cases():
    """Q4 field coverage: a difference in any single field of an otherwise identical edge is seen."""
    def fn(it):
        ida, idb, idc = Poly.var("ida"), Poly.var("idb"), Poly.var("idc")
        n = 0

        def variants(make):
            base = make()
            out = []
            e = clone_edge(base); sa(e, "vertex_ids", [ida, idc]); out.append(("another vertex id", e, FALSE))
            e = clone_edge(base); sa(e, "vertex_ids", [idb, ida]); out.append(("vertex ids in the other order", e, FALSE))
            e = clone_edge(base); sa(e, "vertex_ids", [ida]); out.append(("fewer vertex ids", e, FALSE))
            k = ga(base, "information").shape[0]
            e = clone_edge(base); sa(e, "information", sym_symmetric("Wother", k + 1)); out.append(("information of another shape", e, FALSE))
            return base, out
        for c in ("PoseSE2", "PoseSE3"):
            def run_variants(make, label):
                nn = 0
                idx = 0
                while True:
                    def build(i, idx=idx):
                        base, out = variants(lambda: make(i))
                        return base, out[idx][1]
                    it2 = None
                    base, out = variants(lambda: make(it))
                    if idx >= len(out):
                        break
                    what, _, exp = out[idx]
                    nn += judge(it.pkg, build, exp, "%s vs the same edge with %s" % (label, what))
                    nn += judge(it.pkg, lambda i, idx=idx: tuple(reversed(build(i, idx))), exp, "the same edge with %s vs %s" % (what, label))
                    idx += 1
                return nn
            n += run_variants(lambda i, c=c: mk_odometry(i, c, [ida, idb], "o"), "EdgeOdometry[%s]" % c)
            n += run_variants(lambda i, c=c: mk_landmark(i, c, [ida, idb], "l", oid=Poly.var("oid")), "EdgeLandmark[%s]" % c)
        # landmark specific: offset id, offset type
        def lm(i, oid, offcls="PoseSE2"):
            return mk_landmark(i, "PoseSE2", [ida, idb], "l", off=sym_pose(offcls, "off", unit=True), oid=oid)
        n += judge(it.pkg, lambda i: (lm(i, Poly.var("id_o1")), (lambda e: (sa(e, "offset_id", Poly.var("id_o2")), e)[1])(clone_edge(lm(i, Poly.var("id_o1"))))),
                   FALSE, "EdgeLandmark vs the same edge with another offset_id")
        n += judge(it.pkg, lambda i: (lm(i, None), (lambda e: (sa(e, "offset_id", Poly.var("id_o2")), e)[1])(clone_edge(lm(i, None)))),
                   FALSE, "EdgeLandmark without offset_id vs the same edge with one")
        return dict(explored=n)
    return lambda pkg: run_obligation(pkg, fn)


def graph_cases():
    def fn(it):
        ida, idb, idc = Poly.var("ida"), Poly.var("idb"), Poly.var("idc")
        n = 0

        def graph(i, nverts=2, nedges=1, order=(0, 1, 2), edge_kind="odo"):
            vs = [mk_vertex(i, [ida, idb, idc][k], sym_pose("PoseSE2", "p%d" % k, unit=True)) for k in range(3)]
            vs = [vs[k] for k in order][:nverts]
            es = []
            for k in range(nedges):
                e = mk_odometry(i, "PoseSE2", [ida, idb], "e%d" % k) if edge_kind == "odo" else \
                    mk_landmark(i, "PoseSE2", [ida, idb], "e%d" % k, est=None, off=sym_pose("PoseSE2", "off%d" % k, unit=True))
                es.append(e)
            if edge_kind != "odo":
                # landmark edges need an R2 second vertex to be valid
                vs[1 if nverts > 1 else 0] = mk_vertex(i, idb, sym_pose("PoseR2", "pl"))
            return i.construct("Graph", [es, vs])
        n += judge(it.pkg, lambda i: (graph(i), graph(i)), TRUE, "Graph vs an identical graph")
        n += judge(it.pkg, lambda i: (graph(i, nverts=2), graph(i, nverts=3)), FALSE, "graphs with different numbers of vertices")
        n += judge(it.pkg, lambda i: (graph(i, nverts=3), graph(i, nverts=2)), FALSE, "graphs with different numbers of vertices (other direction)")
        n += judge(it.pkg, lambda i: (graph(i, nedges=1), graph(i, nedges=2)), FALSE, "graphs with different numbers of edges")
        n += judge(it.pkg, lambda i: (graph(i, order=(0, 1, 2)), graph(i, order=(1, 0, 2))), FALSE, "graphs with vertices in a different order")
        n += judge(it.pkg, lambda i: (graph(i, edge_kind="odo"), graph(i, edge_kind="lm")), FALSE, "graphs whose edges have different types")
        n += judge(it.pkg, lambda i: (graph(i, edge_kind="lm"), graph(i, edge_kind="odo")), FALSE, "graphs whose edges have different types (other direction)")
        return dict(explored=n)
    return lambda pkg: run_obligation(pkg, fn)


def run(run_, pkg, tier):
    run_.explanation = ("The five equals methods are translated on every pair drawn from: the 4 pose types; vertices (same/other id, "
                        "same/other pose type); all built-in edge kinds over all pose types plus custom edges with array / float "
                        "estimates (every ordered pair); single-field variants of an edge (ids, id order, id count, information shape, "
                        "offset id); graphs of different size, order and edge type.  Tolerance tests on symbolic numbers are explored "
                        "both ways (trace partitioning), so the verdicts are structural: no path raises (totality); a copy compares "
                        "True on every path (the numerators are identically zero); any difference in type, id, size or order compares "
                        "False on every path, in both directions.")
    run_.trusted_base = ["gsverif.interp semantics (non-broadcastable array arithmetic raises ValueError as numpy does)"]
    run_.assumptions = ["the numeric tolerance band (relative-norm semantics, symmetry inside the band) is not decided",
                        "well-formed objects only: offsets are poses, information matrices are 2-D arrays"]
    tasks = []
    bp = pkg.method("BasePose", "equals")
    for c1, c2 in itertools.product(POSES, POSES):
        key = "C17/pose/%s-vs-%s" % (c1, c2)
        if run_.wants(key):
            tasks.append((key, "C17-Q12-total-and-type-sound", pose_pair(c1, c2), "%s:%d" % (bp._gs_module, bp.lineno)))
    vfn = pkg.method("Vertex", "equals")
    if run_.wants("C17/vertex"):
        tasks.append(("C17/vertex", "C17-Q124-vertex", vertex_cases(), "%s:%d" % (vfn._gs_module, vfn.lineno)))
    efn = pkg.method("EdgeLandmark", "equals")
    nfam = 10
    for k1 in range(nfam):
        for k2 in range(nfam):
            key = "C17/edge/%d-vs-%d" % (k1, k2)
            if run_.wants(key):
                tasks.append((key, "C17-Q12-total-and-type-sound", edge_cross(k1, k2), "%s:%d" % (efn._gs_module, efn.lineno)))
    bfn = pkg.method("BaseEdge", "equals")
    if run_.wants("C17/edge-fields"):
        tasks.append(("C17/edge-fields", "C17-Q4-field-coverage", edge_field_cases(), "%s:%d" % (bfn._gs_module, bfn.lineno)))
    gfn0 = pkg.method("Graph", "equals")
    for kind, anchor in (("pose", bp), ("vertex", vfn), ("edge", bfn), ("graph", gfn0)):
        key = "C17/sensitivity/%s" % kind
        if run_.wants(key):
            tasks.append((key, "C17-Q4-every-component-compared", sensitivity(kind), "%s:%d" % (anchor._gs_module, anchor.lineno)))
    if run_.wants("C17/custom-sizes"):
        tasks.append(("C17/custom-sizes", "C17-Q13-total-on-sizes", custom_size_cases(), "%s:%d" % (bfn._gs_module, bfn.lineno)))
    gfn = pkg.method("Graph", "equals")
    if run_.wants("C17/tolerance"):
        tasks.append(("C17/tolerance", "C17-Q5-tolerance-governs-every-comparison", tolerance_cases(), "%s:%d" % (gfn._gs_module, gfn.lineno)))
    for kind in ("odo", "lm"):
        for nv, ne in ((2, 1),) + (((3, 2),) if tier == "thorough" else ()):
            key = "C17/locality/%s-%dv-%de" % (kind, nv, ne)
            if run_.wants(key):
                tasks.append((key, "C17-Q3-thresholds-relative-to-own-object", locality_cases(kind, nv, ne), "%s:%d" % (gfn._gs_module, gfn.lineno)))
    if run_.wants("C17/floor-at-zero"):
        tasks.append(("C17/floor-at-zero", "C17-Q1-small-perturbations-compare-equal", floor_cases(), "%s:%d" % (bp._gs_module, bp.lineno)))
    if run_.wants("C17/graph"):
        tasks.append(("C17/graph", "C17-Q4-graph", graph_cases(), "%s:%d" % (gfn._gs_module, gfn.lineno)))
    n_eq = sum(1 for q, f in pkg.all_functions() if f.name == "equals")
    run_.floor("equals methods", n_eq, 3)
    record(run_, tasks, run_tasks(pkg, tasks))
    run_.floor("C17 obligations", len(tasks) if run_.only is None else 105, 105)
