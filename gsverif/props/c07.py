"""C07 -- errors, Jacobians and updates are independent of the world frame (algebraic clause)."""
from ..poly import Poly
from ..interp import Arr, Pose, sym_pose, ga, sa
from ..algebra import (CONFIGS, CDIM, cfg_name, run_obligation, run_tasks, record, ObFail, require_same, nterms, sym_config,
                       make_edge, ref_R_t, matvec, delta_vec, no_bad_wrap)
from .c09 import pose_equal, qnorm_le_one_hook

LEVEL = "proof"


def transform(it, T, p):
    """Left-compose p with the frame transform T (poses via the repo's own (+); points via the reference action)."""
    if p.cls == T.cls:
        return it.call_method(T, "__add__", [p])
    R, t = ref_R_t(it, T)
    return Pose(p.cls, [u + v for u, v in zip(matvec(R, list(p.data)), t)])


def setup(it, cfg):
    p1, p2, z, off = sym_config(cfg, unit=True)
    T = sym_pose(cfg[1], "T", unit=True)
    return p1, p2, z, off, T


def error_invariance(cfg):
    def fn(it):
        p1, p2, z, off, T = setup(it, cfg)
        e0 = it.call_method(make_edge(it, cfg, p1, p2, z, off), "calc_error", [])
        e1 = it.call_method(make_edge(it, cfg, transform(it, T, p1), transform(it, T, p2), z, off), "calc_error", [])
        if cfg[3] == "PoseSE2" and isinstance(e0, Arr) and isinstance(e1, Arr) and len(e0.data) == 3 == len(e1.data):
            from .c02 import angle_same
            if not angle_same(e0.data[2], e1.data[2]):
                raise ObFail("angular error changes under a frame change by %s" % (e1.data[2] - e0.data[2]).short(200))
            e0, e1 = Arr(e0.data[:2], 1), Arr(e1.data[:2], 1)
        require_same(e1, e0, "%s: error changes when every vertex is left-composed with T" % cfg_name(cfg))
        no_bad_wrap(it)
        return dict(terms=nterms(e0))
    return lambda pkg: run_obligation(pkg, fn, divisors=lambda name: True)


def chi2_and_contributions_invariance(cfg):
    """chi^2 of the edge is unchanged by the frame change, and its contributions to the linear system transform covariantly: gradient
    blocks and Hessian blocks of pose vertices are unchanged, those of point vertices pick up the rotation of T
    (g' = R_T g, H'_ll = R_T H_ll R_T^T, H'_pl = H_pl R_T^T) -- which is what makes dx' the transformed dx."""
    def fn(it):
        from ..assembly import sym_symmetric
        from ..algebra import CDIM
        p1, p2, z, off, T = setup(it, cfg)
        W = sym_symmetric("W", CDIM[cfg[3]])

        def contributions(a, b):
            e = make_edge(it, cfg, a, b, z, off, info=W)
            for v, g in zip(ga(e, "vertices"), (Poly.const(0), Poly.const(10))):
                sa(v, "gradient_index", g)
            chi = it.call_method(e, "calc_chi2", [])
            res = it.call_method(e, "calc_chi2_gradient_hessian", [])
            res = it.iterate(res, None) if not isinstance(res, (tuple, list)) else res
            grad = {tuple(x)[0].const_value(): tuple(x)[1] for x in map(lambda y: tuple(it.iterate(y, None)), it.iterate(res[1], None))}
            hess = {}
            for item in it.iterate(res[2], None):
                key, blk = tuple(it.iterate(item, None))
                key = tuple(k_.const_value() for k_ in it.iterate(key, None))
                hess[key] = blk
            return chi, res[0], grad, hess
        c0, cc0, g0, h0 = contributions(p1, p2)
        c1, cc1, g1, h1 = contributions(transform(it, T, p1), transform(it, T, p2))
        if cfg[3] != "PoseSE2" or cfg[0] != "EdgeOdometry":
            require_same(c1, c0, "%s: calc_chi2 changes when every vertex is left-composed with T" % cfg_name(cfg))
            require_same(cc1, cc0, "%s: the chi^2 contribution changes under the frame change" % cfg_name(cfg))
        R, _ = ref_R_t(it, T)
        Rm = Arr(R, 2)
        is_point = [t != T.cls for t in (cfg[1], cfg[2])]
        idx = [0, 10]
        for k in (0, 1):
            want = g0[idx[k]] if not is_point[k] else it.dot(Rm, g0[idx[k]], None)
            require_same(g1[idx[k]], want, "%s: gradient block of vertex %d is not covariant under the frame change" % (cfg_name(cfg), k))
        for (i, j), blk in h0.items():
            a_, b_ = idx.index(i), idx.index(j)
            want = blk
            if is_point[a_]:
                want = it.dot(Rm, want, None)
            if is_point[b_]:
                want = it.dot(want, Rm.T(), None)
            if (i, j) not in h1:
                raise ObFail("%s: Hessian block (%d, %d) disappears under the frame change" % (cfg_name(cfg), a_, b_))
            require_same(h1[(i, j)], want, "%s: Hessian block (vertex %d, vertex %d) is not covariant under the frame change "
                                           "(H' = G H G^T with G = diag(I, R_T))" % (cfg_name(cfg), a_, b_))
        return dict(blocks=len(h0))
    return lambda pkg: run_obligation(pkg, fn)


def jacobian_covariance(cfg, k):
    def fn(it):
        p1, p2, z, off, T = setup(it, cfg)
        J0 = it.call_method(make_edge(it, cfg, p1, p2, z, off), "calc_jacobians", [])
        J1 = it.call_method(make_edge(it, cfg, transform(it, T, p1), transform(it, T, p2), z, off), "calc_jacobians", [])
        tk = (cfg[1], cfg[2])[k]
        if tk == T.cls:
            require_same(J1[k], J0[k], "%s: Jacobian of pose vertex %d changes under a frame change" % (cfg_name(cfg), k))
            mode = "invariant"
        else:
            R, _ = ref_R_t(it, T)
            require_same(it.dot(J1[k], Arr(R, 2), None), J0[k],
                         "%s: Jacobian of point vertex %d is not equivariant (J' R_T != J)" % (cfg_name(cfg), k))
            mode = "equivariant J' R_T = J"
        return dict(terms=nterms(J0[k]), mode=mode)
    return lambda pkg: run_obligation(pkg, fn, divisors=lambda name: True)


def update_equivariance(cfg, k):
    tk = (cfg[1], cfg[2])[k]

    def fn(it):
        p1, p2, z, off, T = setup(it, cfg)
        p = (p1, p2)[k]
        d = delta_vec(tk)
        moved = it.call_method(p, "__iadd__", [d])
        lhs = transform(it, T, moved)
        if tk == T.cls:
            rhs = it.call_method(transform(it, T, p), "__iadd__", [d])
            mode = "T(p [+] d) = (T p) [+] d"
        else:
            R, _ = ref_R_t(it, T)
            rd = Arr(matvec(R, list(d.data)), 1)
            rhs = it.call_method(transform(it, T, p), "__iadd__", [rd])
            mode = "T(l + d) = T l + R_T d"
        pose_equal(it, lhs, rhs, "%s: update of vertex %d does not commute with the frame change" % (cfg_name(cfg), k), allow_neg_quat=False)
        return dict(terms=nterms(lhs), mode=mode)
    hook = qnorm_le_one_hook(["d[3]", "d[4]", "d[5]"]) if tk == "PoseSE3" else None
    return lambda pkg: run_obligation(pkg, fn, hook=hook, divisors=lambda name: True)


def run(run_, pkg, tier):
    run_.explanation = ("For every built-in configuration and a fresh symbolic frame transform T (SE(2)/SE(3) element, or a "
                        "translation for R^n): (a) calc_error is unchanged when both vertices are left-composed with T; "
                        "(b) calc_jacobians is unchanged for pose-type vertices and satisfies J' R_T = J for point vertices; "
                        "(c) the boxplus update commutes with T.  Together with C03's structural clauses these give H' = G H G^T, "
                        "b' = G b and hence commutation of every Gauss-Newton iteration in exact arithmetic.")
    run_.trusted_base = ["CPython ast", "gsverif.interp semantics of the modelled numpy subset", "real arithmetic instead of IEEE-754",
                         "uniqueness of normal forms modulo var^2 rules", "reference action of a rigid transform on a point"]
    run_.assumptions = ["size of the floating-point discrepancy between the two runs is not decided",
                        "iteration-level commutation additionally relies on C03 (structure of accumulation / solve / update)"]
    tasks = []
    for cfg in CONFIGS:
        fe = pkg.method(cfg[0], "calc_error")
        fj = pkg.method(cfg[0], "calc_jacobians")
        name = cfg_name(cfg)
        cand = [("%s/error-invariant" % name, "C07-error-invariance", error_invariance(cfg), fe)]
        # for an edge class that inherits BaseEdge's chi^2 / contribution code, covariance of chi^2, b and H follows from (a), (b) and
        # C03-a; a class that brings its own is checked directly (quick enough, but only then: the SE(3) blocks are large)
        own = any(pkg.own_method(c_, m_) is not None for c_ in pkg.mro(cfg[0]) if c_ != "BaseEdge" for m_ in ("calc_chi2", "calc_chi2_gradient_hessian"))
        if own and (cfg[3] != "PoseSE2" or cfg[0] != "EdgeOdometry"):      # (SE(2) odometry: error compared modulo 2*pi above)
            cand.append(("%s/chi2-and-contributions" % name, "C07-contributions-covariance", chi2_and_contributions_invariance(cfg), fe))
        for k in (0, 1):
            cand.append(("%s/jacobian-vertex%d" % (name, k), "C07-jacobian-covariance", jacobian_covariance(cfg, k), fj))
            cand.append(("%s/update-vertex%d" % (name, k), "C07-update-equivariance", update_equivariance(cfg, k), fe))
        for key, rule, ob, fn in cand:
            if run_.wants(key):
                tasks.append((key, rule, ob, "%s:%d" % (fn._gs_module, fn.lineno)))
    run_.floor("frame-independence obligations", len(tasks) if run_.only is None else 40, 40)
    record(run_, tasks, run_tasks(pkg, tasks))
    if run_.only is None:
        # iteration-wise commutation additionally needs: poses change only through the (equivariant) boxplus update of the
        # Gauss-Newton step, and the run stops by the frame-invariant chi^2 criterion only
        from .. import optim_rules
        n = optim_rules.optimize_verdicts(run_, pkg, "C07", lambda f: ("C07-structure/" + f.key, "C07-structure-frame-invariant-iteration")
                                          if f.rule.startswith(("C03-d", "C12-T2")) else None, rule_sem="C07-structure-frame-invariant-iteration")
        run_.floor("C07 structural rule instances", n, 10)
