"""C07 -- errors, Jacobians and updates are independent of the world frame (algebraic clause)."""
from ..poly import Poly
from ..interp import Arr, Pose, sym_pose
from ..algebra import (CONFIGS, CDIM, cfg_name, run_obligation, run_tasks, record, ObFail, require_same, nterms, sym_config,
                       make_edge, ref_R_t, matvec, delta_vec, no_bad_wrap)
from .c09 import pose_equal, qnorm_le_one_hook

LEVEL = "proof"


def transform(it, T, p):
    """Left-compose p with the frame transform T (poses via the repo's own (+); points via the reference action)."""
    if p.cls == T.cls:
        return it.call_method(T, "__add__", [p])
    R, t = ref_R_t(it, T)
    return Pose(p.cls, [u + v for u, v in zip(matvec(R, list(p.data)), t)])


def setup(it, cfg):
    p1, p2, z, off = sym_config(cfg, unit=True)
    T = sym_pose(cfg[1], "T", unit=True)
    return p1, p2, z, off, T


def error_invariance(cfg):
    def fn(it):
        p1, p2, z, off, T = setup(it, cfg)
        e0 = it.call_method(make_edge(it, cfg, p1, p2, z, off), "calc_error", [])
        e1 = it.call_method(make_edge(it, cfg, transform(it, T, p1), transform(it, T, p2), z, off), "calc_error", [])
        if cfg[3] == "PoseSE2" and isinstance(e0, Arr) and isinstance(e1, Arr) and len(e0.data) == 3 == len(e1.data):
            from .c02 import angle_same
            if not angle_same(e0.data[2], e1.data[2]):
                raise ObFail("angular error changes under a frame change by %s" % (e1.data[2] - e0.data[2]).short(200))
            e0, e1 = Arr(e0.data[:2], 1), Arr(e1.data[:2], 1)
        require_same(e1, e0, "%s: error changes when every vertex is left-composed with T" % cfg_name(cfg))
        no_bad_wrap(it)
        return dict(terms=nterms(e0))
    return lambda pkg: run_obligation(pkg, fn, divisors=lambda name: True)


def jacobian_covariance(cfg, k):
    def fn(it):
        p1, p2, z, off, T = setup(it, cfg)
        J0 = it.call_method(make_edge(it, cfg, p1, p2, z, off), "calc_jacobians", [])
        J1 = it.call_method(make_edge(it, cfg, transform(it, T, p1), transform(it, T, p2), z, off), "calc_jacobians", [])
        tk = (cfg[1], cfg[2])[k]
        if tk == T.cls:
            require_same(J1[k], J0[k], "%s: Jacobian of pose vertex %d changes under a frame change" % (cfg_name(cfg), k))
            mode = "invariant"
        else:
            R, _ = ref_R_t(it, T)
            require_same(it.dot(J1[k], Arr(R, 2), None), J0[k],
                         "%s: Jacobian of point vertex %d is not equivariant (J' R_T != J)" % (cfg_name(cfg), k))
            mode = "equivariant J' R_T = J"
        return dict(terms=nterms(J0[k]), mode=mode)
    return lambda pkg: run_obligation(pkg, fn, divisors=lambda name: True)


def update_equivariance(cfg, k):
    tk = (cfg[1], cfg[2])[k]

    def fn(it):
        p1, p2, z, off, T = setup(it, cfg)
        p = (p1, p2)[k]
        d = delta_vec(tk)
        moved = it.call_method(p, "__iadd__", [d])
        lhs = transform(it, T, moved)
        if tk == T.cls:
            rhs = it.call_method(transform(it, T, p), "__iadd__", [d])
            mode = "T(p [+] d) = (T p) [+] d"
        else:
            R, _ = ref_R_t(it, T)
            rd = Arr(matvec(R, list(d.data)), 1)
            rhs = it.call_method(transform(it, T, p), "__iadd__", [rd])
            mode = "T(l + d) = T l + R_T d"
        pose_equal(it, lhs, rhs, "%s: update of vertex %d does not commute with the frame change" % (cfg_name(cfg), k), allow_neg_quat=False)
        return dict(terms=nterms(lhs), mode=mode)
    hook = qnorm_le_one_hook(["d[3]", "d[4]", "d[5]"]) if tk == "PoseSE3" else None
    return lambda pkg: run_obligation(pkg, fn, hook=hook, divisors=lambda name: True)


def run(run_, pkg, tier):
    run_.explanation = ("For every built-in configuration and a fresh symbolic frame transform T (SE(2)/SE(3) element, or a "
                        "translation for R^n): (a) calc_error is unchanged when both vertices are left-composed with T; "
                        "(b) calc_jacobians is unchanged for pose-type vertices and satisfies J' R_T = J for point vertices; "
                        "(c) the boxplus update commutes with T.  Together with C03's structural clauses these give H' = G H G^T, "
                        "b' = G b and hence commutation of every Gauss-Newton iteration in exact arithmetic.")
    run_.trusted_base = ["CPython ast", "gsverif.interp semantics of the modelled numpy subset", "real arithmetic instead of IEEE-754",
                         "uniqueness of normal forms modulo var^2 rules", "reference action of a rigid transform on a point"]
    run_.assumptions = ["size of the floating-point discrepancy between the two runs is not decided",
                        "iteration-level commutation additionally relies on C03 (structure of accumulation / solve / update)"]
    tasks = []
    for cfg in CONFIGS:
        fe = pkg.method(cfg[0], "calc_error")
        fj = pkg.method(cfg[0], "calc_jacobians")
        name = cfg_name(cfg)
        cand = [("%s/error-invariant" % name, "C07-error-invariance", error_invariance(cfg), fe)]
        for k in (0, 1):
            cand.append(("%s/jacobian-vertex%d" % (name, k), "C07-jacobian-covariance", jacobian_covariance(cfg, k), fj))
            cand.append(("%s/update-vertex%d" % (name, k), "C07-update-equivariance", update_equivariance(cfg, k), fe))
        for key, rule, ob, fn in cand:
            if run_.wants(key):
                tasks.append((key, rule, ob, "%s:%d" % (fn._gs_module, fn.lineno)))
    run_.floor("frame-independence obligations", len(tasks) if run_.only is None else 40, 40)
    record(run_, tasks, run_tasks(pkg, tasks))
    if run_.only is None:
        # iteration-wise commutation additionally needs: poses change only through the (equivariant) boxplus update of the
        # Gauss-Newton step, and the run stops by the frame-invariant chi^2 criterion only
        from .. import optim_rules
        n = optim_rules.optimize_verdicts(run_, pkg, "C07", lambda f: ("C07-structure/" + f.key, "C07-structure-frame-invariant-iteration")
                                          if f.rule.startswith(("C03-d", "C12-T2")) else None, rule_sem="C07-structure-frame-invariant-iteration")
        run_.floor("C07 structural rule instances", n, 10)
