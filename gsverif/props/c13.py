"""C13 -- .g2o export followed by import is lossless (writer o reader = id on the text model)."""
from ..poly import Poly
from ..interp import ga, gp, sa, Arr, Pose, Obj, ClassRef, sym_pose, PathRaise
from ..algebra import run_obligation as _run_obligation, run_tasks, record, ObFail, CDIM
from .c18 import distinct_names_hook


def run_obligation(pkg, fn, **kw):
    kw.setdefault("hook", distinct_names_hook)
    return _run_obligation(pkg, fn, **kw)

from ..g2o import (same_vertex, same_edge, same_param, build_vertex, build_odometry, build_landmark, build_param, expect_str,
                   no_int_through_float, mark_int)

LEVEL = "other"

READERS = [("Vertex", False), ("EdgeOdometry", True), ("EdgeLandmark", True), ("G2OParameterSE2Offset", False), ("G2OParameterSE3Offset", False)]


def read_line(it, line, params=None, expect=None):
    """Apply every reader to the line; exactly one must accept.  Returns (reader class, object)."""
    got = []
    for cls, takes_params in READERS:
        args = [line] + ([params if params is not None else {}] if takes_params else [])
        obj = it.call_classmethod(ClassRef(cls), "from_g2o", args)
        if obj is not None:
            got.append((cls, obj))
    if len(got) != 1:
        raise ObFail("the line `%s...` is accepted by %d readers (%s), expected exactly one" % (
            line.split(" ")[0], len(got), ", ".join(c for c, _ in got)))
    if expect is not None and got[0][0] != expect:
        raise ObFail("the line `%s...` is read by %s, expected %s" % (line.split(" ")[0], got[0][0], expect))
    no_int_through_float(it)
    return got[0]


def vertex_roundtrip(cls):
    def fn(it):
        v = build_vertex(it, cls, "v")
        line = expect_str(it.call_method(v, "to_g2o", []), "Vertex.to_g2o[%s]" % cls)
        _, v2 = read_line(it, line, expect="Vertex")
        same_vertex(it, v2, v, "Vertex[%s] after export/import" % cls)
        return dict(line_tag=line.split(" ")[0], tokens=len(line.split()))
    return lambda pkg: run_obligation(pkg, fn)


def odometry_roundtrip(cls):
    def fn(it):
        v1, v2 = build_vertex(it, cls, "a"), build_vertex(it, cls, "b")
        e = build_odometry(it, cls, "e", v1, v2)
        line = expect_str(it.call_method(e, "to_g2o", []), "EdgeOdometry.to_g2o[%s]" % cls)
        _, e2 = read_line(it, line, expect="EdgeOdometry")
        same_edge(it, e2, e, "EdgeOdometry[%s] after export/import" % cls)
        return dict(line_tag=line.split(" ")[0], tokens=len(line.split()))
    return lambda pkg: run_obligation(pkg, fn)


def landmark_roundtrip(pcls):
    def fn(it):
        lcls = "PoseR2" if pcls == "PoseSE2" else "PoseR3"
        v1, v2 = build_vertex(it, pcls, "a"), build_vertex(it, lcls, "b")
        params = {}
        if pcls == "PoseSE3":
            p = build_param(it, "G2OParameterSE3Offset", "p")
            params[it.hashable(ga(p, "key"), None)] = p
            offset, oid = ga(p, "value"), ga(p, "key")[1]
        else:
            offset, oid = sym_pose("PoseSE2", "off", unit=True), Poly.var("oid")
        e = build_landmark(it, pcls, "e", v1, v2, offset, oid)
        try:
            line = it.call_method(e, "to_g2o", [])
        except PathRaise as ex:
            # content the format cannot express is refused: acceptable only if the offset really is not expressible
            if pcls == "PoseSE2" and "NotImplementedError" in it.exc_ancestors(ex.exc.split("(")[0]):
                if all(it.known_zero(c) for c in offset.data):
                    raise ObFail("export of an SE(2) landmark edge with the identity offset is refused")
                return dict(refused="non-identity offset")
            raise
        line = expect_str(line, "EdgeLandmark.to_g2o[%s]" % pcls)
        _, e2 = read_line(it, line, params, expect="EdgeLandmark")
        same_edge(it, e2, e, "EdgeLandmark[%s] after export/import" % pcls)
        return dict(line_tag=line.split(" ")[0], tokens=len(line.split()))
    return lambda pkg: run_obligation(pkg, fn, max_paths=32)


def reexport(kind, cls):
    """The file describes the object as it is *when it is written*: export, let the caller assign new values (pose / measurement /
    information), export again -- the second text must read back as the current object."""
    def fn(it):
        if kind == "vertex":
            v = build_vertex(it, cls, "v")
            it.call_method(v, "to_g2o", [])
            sa(v, "pose", ga(build_vertex(it, cls, "n"), "pose"))
            line = expect_str(it.call_method(v, "to_g2o", []), "Vertex.to_g2o[%s]" % cls)
            _, v2 = read_line(it, line, expect="Vertex")
            same_vertex(it, v2, v, "Vertex[%s] exported a second time after the caller assigned a new pose" % cls)
            return dict(line_tag=line.split(" ")[0])
        lcls = {"PoseSE2": "PoseR2", "PoseSE3": "PoseR3"}[cls]
        params = {}
        if kind == "odometry":
            v1, v2 = build_vertex(it, cls, "a"), build_vertex(it, cls, "b")
            e, n_ = build_odometry(it, cls, "e", v1, v2), build_odometry(it, cls, "n", v1, v2)
            expect = "EdgeOdometry"
        else:
            v1, v2 = build_vertex(it, cls, "a"), build_vertex(it, lcls, "b")
            if cls == "PoseSE3":
                p = build_param(it, "G2OParameterSE3Offset", "p")
                params[it.hashable(ga(p, "key"), None)] = p
                offset, oid = ga(p, "value"), ga(p, "key")[1]
            else:
                offset, oid = Pose("PoseSE2", [Poly(), Poly(), Poly()]), Poly.var("oid")
            e, n_ = build_landmark(it, cls, "e", v1, v2, offset, oid), build_landmark(it, cls, "n", v1, v2, offset, oid)
            expect = "EdgeLandmark"
        it.call_method(e, "to_g2o", [])
        sa(e, "information", ga(n_, "information"))
        sa(e, "estimate", ga(n_, "estimate"))
        line = expect_str(it.call_method(e, "to_g2o", []), "%s.to_g2o[%s]" % (expect, cls))
        _, e2 = read_line(it, line, params, expect=expect)
        same_edge(it, e2, e, "%s[%s] exported a second time after the caller assigned a new measurement and information matrix" % (expect, cls))
        return dict(line_tag=line.split(" ")[0])
    return lambda pkg: run_obligation(pkg, fn, max_paths=32)


def param_roundtrip(cls):
    def fn(it):
        p = build_param(it, cls, "p")
        line = expect_str(it.call_method(p, "to_g2o", []), "%s.to_g2o" % cls)
        _, p2 = read_line(it, line, expect=cls)
        same_param(it, p2, p, "%s after export/import" % cls)
        return dict(line_tag=line.split(" ")[0], tokens=len(line.split()))
    return lambda pkg: run_obligation(pkg, fn)


def refusal(kind):
    def fn(it):
        if kind.startswith("odometry"):
            cls = kind.split(":")[1]
            v1, v2 = build_vertex(it, cls, "a"), build_vertex(it, cls, "b")
            obj = build_odometry(it, cls, "e", v1, v2)
        elif kind.startswith("landmark"):
            cls = kind.split(":")[1]
            v1, v2 = build_vertex(it, cls, "a"), build_vertex(it, cls, "b")
            obj = build_landmark(it, cls, "e", v1, v2, sym_pose(cls, "off"), Poly.var("oid"))
        else:
            obj = it.construct("Vertex", [Poly.var("id"), None])
        try:
            r = it.call_method(obj, "to_g2o", [])
        except PathRaise as ex:
            return dict(refused=ex.exc)
        raise ObFail("%s has no .g2o representation but to_g2o() returns %r instead of raising" % (kind, r if not isinstance(r, str) else r[:40]))
    return lambda pkg: run_obligation(pkg, fn)


def graph_roundtrip(cycles, se2_param_id=None, shared_id=False):
    def fn(it):
        it.vfs = {}
        # the last two vertices are not referred to by any edge
        vs = [build_vertex(it, c, "v%d" % k) for k, c in enumerate(["PoseSE2", "PoseR2", "PoseSE3", "PoseR3", "PoseSE2", "PoseSE3", "PoseR2", "PoseSE3"])]
        # (se2_param_id=0: the file defines a 2-D offset parameter with the very id the 2-D landmark edges carry; those edges
        #  were written without an offset -- identity -- and must come back with the identity)
        p2 = build_param(it, "G2OParameterSE2Offset", "p2", pid=None if se2_param_id is None else Poly.const(se2_param_id))
        # shared_id: the 2-D and the 3-D offset parameter carry the same id (they are different parameters: the table is keyed by
        # (kind, id)); both must survive the round trip
        p3 = build_param(it, "G2OParameterSE3Offset", "p3", pid=ga(p2, "key")[1] if shared_id else None)
        ident = it.call_classmethod(ClassRef("PoseSE2"), "identity", [])
        edges = [build_odometry(it, "PoseSE2", "e0", vs[0], vs[4]),
                 build_landmark(it, "PoseSE3", "e1", vs[2], vs[3], ga(p3, "value"), ga(p3, "key")[1]),
                 build_odometry(it, "PoseSE3", "e2", vs[5], vs[2]),
                 build_landmark(it, "PoseSE2", "e3", vs[4], vs[1], ident, Poly.const(0)),
                 build_odometry(it, "PoseSE2", "e4", vs[4], vs[0])]
        g = it.construct("Graph", [list(edges), list(vs)])
        sa(g, "_g2o_params", {it.hashable(ga(p2, "key"), None): p2, it.hashable(ga(p3, "key"), None): p3})
        cur = g
        for c in range(cycles):
            path = "cycle%d.g2o" % c
            it.call_method(cur, "to_g2o", [path])
            cur = it.call_classmethod(ClassRef("Graph"), "from_g2o", [path])
        v2, e2 = gp(cur, "_vertices"), gp(cur, "_edges")
        if not isinstance(v2, list) or len(v2) != len(vs):
            raise ObFail("%d vertices exported, %s read back" % (len(vs), len(v2) if isinstance(v2, list) else v2))
        if not isinstance(e2, list) or len(e2) != len(edges):
            raise ObFail("%d edges exported, %s read back" % (len(edges), len(e2) if isinstance(e2, list) else e2))
        for k, (a, b) in enumerate(zip(v2, vs)):
            same_vertex(it, a, b, "vertex #%d of the graph after %d export/import cycle(s)" % (k, cycles))
        for k, (a, b) in enumerate(zip(e2, edges)):
            same_edge(it, a, b, "edge #%d of the graph after %d export/import cycle(s)" % (k, cycles))
        no_int_through_float(it)
        pr = gp(cur, "_g2o_params")
        if not isinstance(pr, dict) or len(pr) != 2:
            raise ObFail("offset parameters are not all read back (%r)" % (pr,))
        for p in (p2, p3):
            q = pr.get(it.hashable(ga(p, "key"), None))
            if q is None:
                raise ObFail("parameter %s is not read back under its key" % p.cls)
            same_param(it, q, p, "parameter %s after export/import" % p.cls)
        return dict(cycles=cycles, lines=len(it.vfs["cycle0.g2o"].text_lines()), vertices=len(vs), edges=len(edges))
    return lambda pkg: run_obligation(pkg, fn, max_paths=128)


def graph_without_parameter_table():
    """A graph assembled in memory whose 3-D landmark edge names an offset parameter that the graph's parameter table does not
    hold: exporting and re-importing it must either be refused (an exception on either side) or be lossless -- never succeed
    with the edge missing or altered."""
    def fn(it):
        it.vfs = {}
        vs = [build_vertex(it, c, "v%d" % k) for k, c in enumerate(["PoseSE3", "PoseR3", "PoseSE3"])]
        off = sym_pose("PoseSE3", "off", unit=True)
        oid = Poly.var("pid_missing")
        it.int_tokens.add(oid.key())
        edges = [build_odometry(it, "PoseSE3", "e0", vs[0], vs[2]), build_landmark(it, "PoseSE3", "e1", vs[0], vs[1], off, oid),
                 build_landmark(it, "PoseSE3", "e2", vs[2], vs[1], off, oid)]
        g = it.construct("Graph", [list(edges), list(vs)])
        try:
            it.call_method(g, "to_g2o", ["m.g2o"])
        except PathRaise as ex:
            return dict(refused_on="export", exc=ex.exc)
        try:
            cur = it.call_classmethod(ClassRef("Graph"), "from_g2o", ["m.g2o"])
        except PathRaise as ex:
            return dict(refused_on="import", exc=ex.exc)
        e2 = gp(cur, "_edges")
        if not isinstance(e2, list) or len(e2) != len(edges):
            raise ObFail("a graph whose landmark edges refer to an offset parameter missing from its table is exported and re-imported "
                         "without error, but %s of its %d edges come back" % (len(e2) if isinstance(e2, list) else e2, len(edges)))
        for k, (a, b) in enumerate(zip(e2, edges)):
            same_edge(it, a, b, "edge #%d after export/import without a parameter table" % k)
        return dict(refused_on=None)
    return lambda pkg: run_obligation(pkg, fn, max_paths=128)


def sized_graph_roundtrip(n_lines):
    """A graph whose file has exactly n_lines lines (point vertices only): every one of them comes back, once, in order."""
    def fn(it):
        it.vfs = {}
        vs = [build_vertex(it, "PoseR2", "v%d" % k) for k in range(n_lines)]
        g = it.construct("Graph", [[], list(vs)])
        it.call_method(g, "to_g2o", ["big.g2o"])
        written = len(it.vfs["big.g2o"].text_lines())
        if written != n_lines:
            raise ObFail("a graph of %d vertices is written as %d lines" % (n_lines, written))
        cur = it.call_classmethod(ClassRef("Graph"), "from_g2o", ["big.g2o"])
        v2 = gp(cur, "_vertices")
        if len(v2) != n_lines:
            raise ObFail("%d vertices exported, %d read back" % (n_lines, len(v2)))
        for k in (0, 1, n_lines // 2, n_lines - 2, n_lines - 1):
            if 0 <= k < n_lines:
                same_vertex(it, v2[k], vs[k], "vertex #%d of a %d-line file after export/import" % (k, n_lines))
        return dict(lines=n_lines)
    return lambda pkg: _run_obligation(pkg, fn, hook=distinct_names_hook, max_paths=16, allow_size_thresholds=True)


def run(run_, pkg, tier):
    run_.explanation = ("Writers and readers are composed on the text model of gsverif.g2o: every object kind (4 vertex types, 2 odometry "
                        "and 2 landmark edge types, 2 offset parameters) is exported by the repo's own to_g2o and re-imported by the "
                        "repo's own from_g2o; ids, pose types, every pose/measurement/offset component and every entry of the "
                        "(symmetric) information matrix must come back identical (SE(2) angles modulo 2pi, measurement quaternions up "
                        "to the sign of the renormalisation); each written line is accepted by exactly one reader; number formatting "
                        "must be the shortest round-trip repr (bare {} / str / repr) -- any precision/width spec, round or cast is "
                        "reported; whole graphs go through Graph.to_g2o/Graph.from_g2o on a virtual file (order: parameters, vertices, "
                        "edges; 1-3 cycles); content without a .g2o representation must raise.")
    run_.trusted_base = ["str()/format() of a binary64 and of a numpy float64 is its shortest round-trip repr and float() inverts it (CPython/numpy)",
                         "gsverif.interp semantics incl. the text model"]
    run_.assumptions = ["last-bit effects of angle wrapping and quaternion renormalisation are allowed by the property and not decided",
                        "information matrices are symmetric (only the upper triangle has a representation)"]
    tasks = []

    def add(key, rule, ob, anchor):
        if run_.wants(key):
            tasks.append((key, rule, ob, "%s:%d" % (anchor._gs_module, anchor.lineno)))
    vt = pkg.method("Vertex", "to_g2o")
    for cls in ("PoseR2", "PoseR3", "PoseSE2", "PoseSE3"):
        add("C13-roundtrip/Vertex[%s]" % cls, "C13-L12-writer-reader-agree", vertex_roundtrip(cls), vt)
    ot = pkg.method("EdgeOdometry", "to_g2o")
    for cls in ("PoseSE2", "PoseSE3"):
        add("C13-roundtrip/EdgeOdometry[%s]" % cls, "C13-L12-writer-reader-agree", odometry_roundtrip(cls), ot)
    lt = pkg.method("EdgeLandmark", "to_g2o")
    for cls in ("PoseSE2", "PoseSE3"):
        add("C13-roundtrip/EdgeLandmark[%s]" % cls, "C13-L124-writer-reader-agree-nothing-dropped", landmark_roundtrip(cls), lt)
    for cls in ("G2OParameterSE2Offset", "G2OParameterSE3Offset"):
        add("C13-roundtrip/%s" % cls, "C13-L12-writer-reader-agree", param_roundtrip(cls), pkg.method(cls, "to_g2o"))
    for kind, cls, anchor in (("vertex", "PoseSE2", vt), ("vertex", "PoseR3", vt), ("odometry", "PoseSE2", ot), ("odometry", "PoseSE3", ot),
                              ("landmark", "PoseSE2", lt), ("landmark", "PoseSE3", lt)):
        add("C13-reexport/%s[%s]" % (kind, cls), "C13-L12-writer-describes-current-object", reexport(kind, cls), anchor)
    for kind, anchor in (("odometry:PoseR2", ot), ("odometry:PoseR3", ot), ("landmark:PoseR2", lt), ("landmark:PoseR3", lt), ("vertex:None", vt)):
        add("C13-refusal/%s" % kind, "C13-L4-unrepresentable-refused", refusal(kind), anchor)
    gt = pkg.method("Graph", "to_g2o")
    for c in ((1, 2) if tier == "quick" else (1, 2, 3)):
        add("C13-roundtrip/Graph/cycles=%d" % c, "C13-L3-graph-order", graph_roundtrip(c), gt)
    add("C13-roundtrip/Graph/se2-offset-parameter-with-id-0", "C13-L3-graph-order", graph_roundtrip(1, se2_param_id=0), gt)
    add("C13-roundtrip/Graph/2-D-and-3-D-offset-parameters-share-an-id", "C13-L3-graph-order", graph_roundtrip(1, shared_id=True), gt)
    add("C13-refuse/Graph/landmark-edges-without-parameter-table", "C13-L4-refuse-rather-than-alter", graph_without_parameter_table(), gt)
    results = run_tasks(pkg, tasks)
    record(run_, tasks, results)
    # the writer / reader tests the number of lines against constants (blocks, thresholds): aim file sizes at them
    from ..algebra import size_constants
    consts = [c for c in size_constants(results) if c <= 2048]
    if consts:
        extra = []
        for c in consts[:2]:
            for k in sorted({c - 1, c, c + 1}):
                if k >= 1:
                    extra.append(("C13-roundtrip/Graph/%d-lines (directed at the size constant %d in the code)" % (k, c), "C13-L3-graph-order",
                                  sized_graph_roundtrip(k), "%s:%d" % (gt._gs_module, gt.lineno)))
        record(run_, extra, run_tasks(pkg, extra))
    run_.floor("C13 obligations", len(tasks) if run_.only is None else 24, 24)
