"""C12 -- the optimization report is faithful and the stopping rule is the documented one (CFG / typestate / effects)."""
from .. import optim_rules

LEVEL = "other"


def run(run_, pkg, tier):
    run_.explanation = ("Graph.optimize is analysed as a control-flow graph with a finite abstract state propagated to a fixpoint "
                        "(phase of the main loop, pristine flag, update sweeps / result appends per iteration, convergence-test "
                        "outcome, and tags INIT/CUR/PREV saying which variables hold chi^2 of the entry / current / previous poses). "
                        "T1: every store to initial_chi2, final_chi2 and iteration_results[k].chi2 takes a value tagged for the right "
                        "state and the right slot, and final_chi2 is still current at every return; T2: the early return is guarded "
                        "by exactly `chi2 <= chi2_prev and (chi2_prev-chi2)/(chi2_prev+eps) < tol` (term-normalised, operands checked "
                        "by their tags), is unreachable in the first iteration, every later iteration tests before solving, and the "
                        "fall-through sets `converged` to the same predicate; T3: one append and one update sweep per continuing "
                        "iteration, num_iterations = loop counter / loop bound; T4: everything control-dependent on `verbose` is a "
                        "side-effect-free print and `verbose` flows nowhere else; T5: no self.* attribute is read before it is "
                        "assigned in the same call except the construction-time constants.")
    run_.trusted_base = ["call resolution by class hierarchy", "spsolve/print have no effect on graph state"]
    run_.assumptions = ["max_iter >= 1 (property quantifier)", "consecutive calls differ from one long call only in that no convergence "
                        "test is made at a call boundary (there is no previous chi^2 in a new call) -- stated, not flagged"]
    # premise of T1: the value the assembly routine stores in _chi2 (tagged CUR above) really is the graph's chi^2 of the current
    # poses -- all edges, also those between fixed vertices -- and equals Graph.calc_chi2()
    from ..assembly import SCENARIOS, assembly_obligation
    from ..algebra import run_tasks, record
    gfn = pkg.method("Graph", "_calc_chi2_gradient_hessian")
    tasks = []
    for scn in SCENARIOS:
        if scn.name in ("free", "fix-first", "fixed-two", "all-fixed", "parallel-only"):
            key = "C12-T1/chi2-of-assembly/%s" % scn.name
            if run_.wants(key):
                tasks.append((key, "C12-T1-chi2-is-graph-chi2", assembly_obligation(scn, chi2_only=True), "%s:%d" % (gfn._gs_module, gfn.lineno)))
    from .c03 import own_chi2_obligation
    efn = pkg.method("BaseEdge", "calc_chi2_gradient_hessian")
    for dims in ((2,), (2, 3)):
        key = "C12-T1/edge-chi2-is-its-calc_chi2/dims=%s" % "x".join(map(str, dims))
        if run_.wants(key):
            tasks.append((key, "C12-T1-chi2-is-graph-chi2", own_chi2_obligation(dims), "%s:%d" % (efn._gs_module, efn.lineno)))
    results = run_tasks(pkg, tasks)
    from ..algebra import across_thresholds
    from ..assembly import directed_assembly_tasks
    results, xt, xr = across_thresholds(run_, pkg, tasks, results, directed_assembly_tasks("C12-T1/chi2-of-assembly", "C12-T1-chi2-is-graph-chi2", "%s:%d" % (gfn._gs_module, gfn.lineno), chi2_only=True))
    record(run_, tasks, results)
    record(run_, xt, xr)
    oa = optim_rules.analyse(pkg)
    n = optim_rules.optimize_verdicts(run_, pkg, "C12", lambda f: (f.key, f.rule) if f.rule.startswith("C12-") else None)
    sem_ok = bool(oa.semantic) and all(x["status"] == "ok" for x in oa.semantic)
    run_.floor("C12 rule instances", n, 40 if not (oa.failed or sem_ok) else 10)
    if not oa.failed and not sem_ok:
        run_.floor("verbose-controlled statements", getattr(oa, "n_verbose", 0), 1)
        run_.floor("abstract exit states of optimize (converged exit, iteration limit)",
                   len({(n, s.phase) for n in oa.return_nodes for s in oa.states_at(n)}), 2)
    if not oa.failed:
        run_.extra["exposed_self_reads"] = oa.exposed_reads
        run_.extra["roles"] = {str(k): [v[0], getattr(v[1], "lineno", None)] for k, v in sorted(oa.role.items())}
        run_.samples.append(dict(node_roles=run_.extra["roles"], abstract_states_at_loop_header=[s._asdict() for s in list(oa.states_at(oa.main_header))[:3]]))
