"""C08 -- results do not depend on representation choices of the same physical graph."""
import ast

from .. import poly
from ..poly import Poly
from ..interp import Arr, PI
from ..algebra import (CONFIGS, cfg_name, run_obligation, run_tasks, record, ObFail, sym_config, make_edge, nterms)
from ..assembly import SCENARIOS, Scenario, assembly_obligation, BASE_E
from .c03 import contribution_tasks
from .c02 import chi2_obligation

LEVEL = "other"


# ------------------------------------------------------------------------------------------------ C08-d quaternion sign
def negated_edge(it, cfg, p1, p2, z, off, group):
    from ..interp import Pose

    def neg(p):
        return Pose(p.cls, list(p.data[:3]) + [-x for x in p.data[3:7]])
    ps = dict(p1=p1, p2=p2, z=z, off=off)
    ps[group] = neg(ps[group])
    return make_edge(it, cfg, ps["p1"], ps["p2"], ps["z"], ps["off"])


def parity_obligation(cfg, group):
    """chi^2 is invariant under q_g -> -q_g for every symmetric information matrix iff all error components have one parity."""
    def fn(it):
        p1, p2, z, off = sym_config(cfg, unit=True)
        e = make_edge(it, cfg, p1, p2, z, off)
        err = it.call_method(e, "calc_error", [])
        # the same edge with the quaternion of `group` negated is *re-interpreted* (not substituted into the result), so that
        # sign-dependent branches (canonicalisation by the sign of w, ...) take the branch they would really take for -q
        err_neg = it.call_method(negated_edge(it, cfg, p1, p2, z, off, group), "calc_error", [])
        par = []
        for comp, f in zip(err.data, err_neg.data):
            par.append("even" if f == comp else "odd" if f == -comp else "mixed")
        kinds = set(par)
        if "mixed" in kinds or len(kinds - {"even"}) and len(kinds) > 1:
            raise ObFail("negating the quaternion of %s (the same rotation) changes the sign of error components %s but not of %s: "
                         "chi^2, the gradient and the optimum change whenever the information matrix couples them" % (
                             group, [i for i, x in enumerate(par) if x == "odd"], [i for i, x in enumerate(par) if x != "odd"]))
        return dict(parity=par)
    return lambda pkg: run_obligation(pkg, fn)


def jacobian_parity_obligation(cfg, group):
    """For configurations whose error is even: the Jacobians w.r.t. the *other* vertex are even too, and w.r.t. the negated
    vertex the tangent parametrisation flips consistently (J(-q) = J(q) as the boxplus of -q moves the same way)."""
    def fn(it):
        p1, p2, z, off = sym_config(cfg, unit=True)
        e = make_edge(it, cfg, p1, p2, z, off)
        J = it.call_method(e, "calc_jacobians", [])
        Jn = it.call_method(negated_edge(it, cfg, p1, p2, z, off, group), "calc_jacobians", [])
        out = []
        for k in (0, 1):
            same = isinstance(Jn[k], Arr) and Jn[k].shape == J[k].shape and all(x == y for x, y in zip(Jn[k].flat(), J[k].flat()))
            out.append(same)
            if not same:
                raise ObFail("negating the quaternion of %s changes the Jacobian w.r.t. vertex %d" % (group, k))
        return dict(jacobians_even=out)
    return lambda pkg: run_obligation(pkg, fn)


def jacobian_follows_error_parity_obligation(cfg, group):
    """Whatever negating the quaternion of `group` does to each error component (e_i -> s_i e_i, s_i = +-1), it must do the same to
    that component's row of every Jacobian: the Jacobians are the derivative of the error *of the edge as it is*, so an edge whose
    measurement is stored as -q linearises the error it actually reports (otherwise gradient and error disagree for one of the
    two representations of the same rotation, and the optimum depends on the sign)."""
    def fn(it):
        p1, p2, z, off = sym_config(cfg, unit=True)
        e = make_edge(it, cfg, p1, p2, z, off)
        err = it.call_method(e, "calc_error", [])
        J = it.call_method(e, "calc_jacobians", [])
        en = negated_edge(it, cfg, p1, p2, z, off, group)
        err_n = it.call_method(en, "calc_error", [])
        Jn = it.call_method(en, "calc_jacobians", [])
        rows = 0
        for i, (a, b) in enumerate(zip(err.data, err_n.data)):
            sgn = 1 if b == a else (-1 if b == -a else None)
            if sgn is None:
                continue
            for k in (0, 1):
                if not (isinstance(J[k], Arr) and isinstance(Jn[k], Arr) and J[k].shape == Jn[k].shape):
                    raise ObFail("Jacobian shapes change when the quaternion of %s is negated" % group)
                if (group, k) in (("p1", 0), ("p2", 1)):
                    continue          # w.r.t. the negated vertex itself the tangent coordinates flip too: covered by C01 / C10
                if any(y != (x if sgn == 1 else -x) for x, y in zip(J[k].data[i], Jn[k].data[i])):
                    raise ObFail("negating the quaternion of %s multiplies error component %d by %+d but not row %d of the Jacobian w.r.t. "
                                 "vertex %d: for one of the two signs the Jacobian is not the derivative of the reported error" % (
                                     group, i, sgn, i, k))
                rows += 1
        return dict(rows=rows)
    return lambda pkg: run_obligation(pkg, fn)


def file_quaternion_sign_obligation(boundary=False):
    """A measurement read from a file: an EDGE_SE3:QUAT line and the same line with the four quaternion numbers negated describe the
    same measurement, and the reader gives both the same edge (whatever sign convention it normalises to).  boundary=False: scalar
    part w != 0; boundary=True: w == 0 exactly (a half turn), where a convention based on the sign of w alone cannot tell q from -q."""
    def hook(d):
        vs = d.variables()
        if vs == {"t8"} and len(d.t) == 1 and d.total_degree() == 1:
            return {0} if boundary else {-1, 1}
        return None

    def fn(it):
        from ..interp import ga, ClassRef
        from .c14 import tokens, make_line
        from ..g2o import mark_int
        vals = tokens(it, "t", 2 + 7 + 21, unit_quat=(5, 6, 7, 8))
        mark_int(it, vals[0], vals[1])
        neg = list(vals)
        for k in (5, 6, 7, 8):
            neg[k] = -vals[k]
        e1 = it.call_classmethod(ClassRef("EdgeOdometry"), "from_g2o", [make_line(it, "EDGE_SE3:QUAT", vals, " ", "\n"), {}])
        e2 = it.call_classmethod(ClassRef("EdgeOdometry"), "from_g2o", [make_line(it, "EDGE_SE3:QUAT", neg, " ", "\n"), {}])
        if e1 is None or e2 is None:
            raise ObFail("an EDGE_SE3:QUAT line is not read as an odometry edge")
        a, b = ga(e1, "estimate"), ga(e2, "estimate")
        from ..interp import Quot

        def same(x, y):
            if isinstance(x, Quot) or isinstance(y, Quot):
                xn, xd = (x.num, x.den) if isinstance(x, Quot) else (x, Poly.const(1))
                yn, yd = (y.num, y.den) if isinstance(y, Quot) else (y, Poly.const(1))
                return xn * yd == yn * xd
            return x == y
        if len(a.data) != len(b.data) or not all(same(x, y) for x, y in zip(a.data, b.data)):
            raise ObFail("the line with the negated quaternion (the same rotation) is read as a different measurement%s: with an information "
                         "matrix that couples translation and rotation, chi^2 and the optimum then depend on the sign written in the file" % (
                             (" on the path [%s]" % " and ".join(it.conds)[:200]) if it.conds else ""))
        return dict(components=len(a.data))
    return lambda pkg: run_obligation(pkg, fn, hook=hook)


# ------------------------------------------------------------------------------------------------ C08-b 2*pi periodicity
def periodicity_obligation(cfg):
    def fn(it):
        it.mark_wraps = "numbered"
        p1, p2, z, off = sym_config(cfg, unit=True)
        e = make_edge(it, cfg, p1, p2, z, off)
        err = it.call_method(e, "calc_error", [])
        wraps_after_err = list(it.wraps)
        closed = [e_ for e_ in it.events if e_[0] == "closed-wrap"]
        if closed and any(any(v_.startswith("WRAP") for v_ in c_.variables()) for c_ in err.data if hasattr(c_, "variables")):
            raise ObFail("the angle normalisation behind the error (%s) maps to the closed interval [-pi, pi]: +pi stays +pi and -pi stays "
                         "-pi, so adding 2*pi to an angle whose normalised value is the boundary flips the sign of the angular error" % closed[0][1])
        it.mark_wraps = False
        J = it.call_method(make_edge(it, cfg, p1, p2, z, off), "calc_jacobians", [])
        two_pi = PI() * 2
        angles = [n for n, p in (("p1", p1), ("p2", p2), ("z", z), ("off", off)) if p is not None and p.cls == "PoseSE2"]
        for a in angles:
            name = "%s[2]" % a
            shift = {name: Poly.var(name) + two_pi}
            for i, comp in enumerate(err.data):
                sh = comp.subs(shift)
                if sh == comp:
                    continue
                d = sh - comp
                if not any(d == two_pi * k for k in range(-4, 5)):
                    raise ObFail("adding 2*pi to the angle of %s changes error component %d by %s" % (a, i, d.short(80)))
                # a change by a multiple of 2*pi is harmless only if the component is itself the result of a final wrap
                pure = any(comp == val + Poly.var(mark) for mark, val in wraps_after_err)
                if not pure:
                    raise ObFail("error component %d depends on the raw angle of %s without a final wrap: adding 2*pi changes it" % (i, a))
            for k in (0, 1):
                for x in J[k].flat():
                    if x.subs(shift) != x:
                        raise ObFail("adding 2*pi to the angle of %s changes the Jacobian w.r.t. vertex %d" % (a, k))
        return dict(angles=angles, wraps=len(wraps_after_err))
    return lambda pkg: run_obligation(pkg, fn)


# ------------------------------------------------------------------------------------------------ C08-a ids are names
ORDER_OPS = (ast.Lt, ast.LtE, ast.Gt, ast.GtE)


def id_taint_rule(run_, pkg, informational=False):
    """Vertex ids (Vertex.id, elements of vertex_ids) are used only as names: equality, dictionary keys/lookups, int()/format
    arguments, stored or passed on -- never in arithmetic, ordering comparisons, or as a position in a sequence."""
    n_uses = 0
    for qual, fn in pkg.all_functions():
        if "g2o" in fn.name or "plot" in fn.name or fn.name.startswith("load"):
            continue      # file and plot output may be arranged by id; chi^2 and the optimizer never go through these functions
        parents = {}
        for node in ast.walk(fn):
            for ch in ast.iter_child_nodes(node):
                parents[ch] = node
        # local names bound to ids (flow-insensitive)
        tainted = set()
        dicts = set()
        notdicts = set()
        for _ in range(3):
            for node in ast.walk(fn):
                if isinstance(node, (ast.For, ast.comprehension)):
                    if is_id_seq(node.iter, tainted):
                        for t in ast.walk(node.target):
                            if isinstance(t, ast.Name):
                                tainted.add(t.id)
                    if isinstance(node.iter, ast.Call) and isinstance(node.iter.func, ast.Name) and node.iter.func.id == "zip":
                        tg = node.target.elts if isinstance(node.target, (ast.Tuple, ast.List)) else []
                        for a, t in zip(node.iter.args, tg):
                            if is_id_seq(a, tainted) and isinstance(t, ast.Name):
                                tainted.add(t.id)
                if isinstance(node, ast.Assign) and len(node.targets) == 1 and isinstance(node.targets[0], ast.Name):
                    if is_id_expr(node.value, tainted):
                        tainted.add(node.targets[0].id)
                    if isinstance(node.value, (ast.Dict, ast.DictComp)):
                        dicts.add(node.targets[0].id)
                    else:
                        notdicts.add(node.targets[0].id)
        for node in ast.walk(fn):
            if not is_id_expr(node, tainted) or not isinstance(getattr(node, "ctx", ast.Load()), ast.Load):
                continue
            par = parents.get(node)
            n_uses += 1
            bad = None
            if isinstance(par, ast.BinOp) and not (isinstance(par.op, ast.Mod) and isinstance(par.left, ast.Constant)):
                bad = "arithmetic `%s`" % ast.unparse(par)[:60]
            elif isinstance(par, ast.UnaryOp) and isinstance(par.op, (ast.USub, ast.UAdd, ast.Invert)):
                bad = "arithmetic `%s`" % ast.unparse(par)[:60]
            elif isinstance(par, ast.AugAssign) and par.value is node:
                bad = "arithmetic `%s`" % ast.unparse(par)[:60]
            elif isinstance(par, ast.Compare) and any(isinstance(o, ORDER_OPS) for o in par.ops):
                bad = "ordering comparison `%s`" % ast.unparse(par)[:60]
            elif isinstance(par, ast.Compare) and len(par.ops) == 1 and isinstance(par.ops[0], (ast.Eq, ast.NotEq)) and \
                    not is_id_expr(par.comparators[0] if par.left is node else par.left, tainted) and \
                    not (isinstance(par.comparators[0] if par.left is node else par.left, ast.Constant) and
                         (par.comparators[0] if par.left is node else par.left).value is None):
                other = par.comparators[0] if par.left is node else par.left
                bad = "comparison with a number `%s` (ids are names: they may only be compared with ids)" % ast.unparse(par)[:60]
            elif isinstance(par, ast.Subscript) and par.slice is node and not (isinstance(par.value, ast.Name) and par.value.id in (dicts - notdicts)) \
                    and not (is_dict_like(par.value) and not (isinstance(par.value, ast.Name) and par.value.id in notdicts)):
                bad = "position in a sequence `%s`" % ast.unparse(par)[:60]
            elif isinstance(par, ast.Call) and isinstance(par.func, ast.Name) and par.func.id in ("sorted", "min", "max", "range", "abs", "sum", "hash") and node in par.args:
                bad = "numeric use `%s`" % ast.unparse(par)[:60]
            else:
                # the body of a `key=` function of sorted / min / max / list.sort: ordering by id
                up, via = par, node
                while isinstance(up, (ast.Tuple, ast.List)):
                    up, via = parents.get(up), up
                if isinstance(up, ast.Lambda) and up.body is via:
                    kwd = parents.get(up)
                    if isinstance(kwd, ast.keyword) and kwd.arg == "key":
                        bad = "the sort key `%s`" % ast.unparse(parents.get(kwd))[:70]
                if isinstance(up, ast.Return):
                    # a named key function:  def by_id(v): return v.id   ...   sorted(xs, key=by_id)
                    f_ = up
                    while f_ is not None and not isinstance(f_, ast.FunctionDef):
                        f_ = parents.get(f_)
                    if f_ is not None and f_ is not fn:
                        for c_ in ast.walk(fn):
                            if isinstance(c_, ast.Call):
                                for k_ in c_.keywords:
                                    if k_.arg == "key" and isinstance(k_.value, ast.Name) and k_.value.id == f_.name:
                                        bad = "the sort key `%s`" % ast.unparse(c_)[:70]
            key = "C08-a/%s/id-use@%s" % (qual, ast.unparse(node)[:40])
            if bad and informational:
                run_.note("%s: lint hit not believed (relabelled scenarios hold): id used in %s" % (key, bad))
            elif bad:
                run_.violation(key, "C08-a-ids-are-names", "a vertex id is used in %s: results depend on how vertices are numbered" % bad,
                               where="%s:%d" % (fn._gs_module, node.lineno))
            else:
                run_.ok(key, "C08-a-ids-are-names")
        for node in ast.walk(fn):
            if isinstance(node, ast.keyword) and node.arg == "key" and isinstance(node.value, ast.Call) and \
                    ast.unparse(node.value.func).endswith("attrgetter") and \
                    any(isinstance(a, ast.Constant) and a.value in ("id", "vertex_ids") for a in node.value.args):
                if informational:
                    run_.note("C08-a/%s/id-use@attrgetter: lint hit not believed (relabelled scenarios hold)" % qual)
                    continue
                run_.violation("C08-a/%s/id-use@attrgetter" % qual, "C08-a-ids-are-names",
                               "a vertex id is used as the sort key `%s`: results depend on how vertices are numbered" % ast.unparse(node.value)[:60],
                               where="%s:%d" % (fn._gs_module, node.value.lineno))
    run_.floor("uses of vertex ids", n_uses, 4)


def is_id_seq(e, tainted):
    return isinstance(e, ast.Attribute) and e.attr == "vertex_ids"


def is_dict_like(e):
    return isinstance(e, ast.Attribute) and ("dict" in e.attr or "params" in e.attr) or isinstance(e, ast.Name) and ("dict" in e.id or "params" in e.id)


def is_id_expr(e, tainted):
    if isinstance(e, ast.Attribute) and e.attr == "id" and not (isinstance(e.value, ast.Name) and e.value.id in ("np", "ast")):
        return True
    if isinstance(e, ast.Subscript) and isinstance(e.value, ast.Attribute) and e.value.attr == "vertex_ids" and not isinstance(e.slice, ast.Slice):
        return True
    if isinstance(e, ast.Name) and e.id in tainted:
        return True
    return False


def gradient_index_rule(run_, pkg):
    """gradient_index (which depends on list order) is a position: it may be stored, used in slice bounds (g, g + dim), as a
    dictionary key / set member and compared for equality; its *order* may only be used by the accumulator's symmetric
    upper-triangular convention (proved symmetric by the assembly scenarios), never to scale or otherwise change values."""
    n = 0
    for qual, fn in pkg.all_functions():
        parents = {}
        for node in ast.walk(fn):
            for ch in ast.iter_child_nodes(node):
                parents[ch] = node
        tainted = set()
        for _ in range(2):
            for node in ast.walk(fn):
                if isinstance(node, ast.Assign) and len(node.targets) == 1 and isinstance(node.targets[0], ast.Name) and is_gi(node.value, tainted):
                    tainted.add(node.targets[0].id)
        for node in ast.walk(fn):
            if not is_gi(node, tainted) or not isinstance(getattr(node, "ctx", ast.Load()), ast.Load):
                continue
            n += 1
            par = parents.get(node)
            bad = None
            if isinstance(par, ast.BinOp) and isinstance(par.op, ast.Sub) and is_gi(par.left, tainted) and is_gi(par.right, tainted):
                bad = None      # the difference of two positions is a block size
            elif isinstance(par, ast.BinOp) and not isinstance(par.op, ast.Add):
                bad = "arithmetic `%s`" % ast.unparse(par)[:60]
            elif isinstance(par, ast.UnaryOp) and isinstance(par.op, (ast.USub, ast.Invert)):
                bad = "arithmetic `%s`" % ast.unparse(par)[:60]
            elif isinstance(par, ast.Compare) and any(isinstance(o, ORDER_OPS) for o in par.ops) and fn.name != "update":
                bad = "ordering comparison `%s`" % ast.unparse(par)[:60]
            elif isinstance(par, ast.Call) and isinstance(par.func, ast.Name) and par.func.id in ("sorted", "min", "max", "abs", "sum", "float") and node in par.args:
                bad = "numeric use `%s`" % ast.unparse(par)[:60]
            run_.check(bad is None, "C08-a/%s/gradient_index-use@%d" % (qual, n), "C08-a-gradient-index-use",
                       "gradient_index is used in %s" % bad, where="%s:%d" % (fn._gs_module, node.lineno))
    run_.floor("uses of gradient_index", n, 6)


def is_gi(e, tainted):
    if isinstance(e, ast.Attribute) and e.attr == "gradient_index":
        return True
    if isinstance(e, ast.BinOp) and isinstance(e.op, ast.Add) and (is_gi(e.left, tainted) or is_gi(e.right, tainted)):
        return True
    return isinstance(e, ast.Name) and e.id in tainted


def run(run_, pkg, tier):
    run_.explanation = ("a: taint rule -- vertex ids are used only as names (equality, dictionary keys, int()/format arguments), never in "
                        "arithmetic, ordering or as sequence positions; gradient_index only in slice bounds / set membership / the "
                        "accumulator's order test; assembly scenarios with different vertex-list orders equal the same per-vertex "
                        "reference; b: marker analysis -- adding 2*pi to any SE(2) angle leaves every error component unchanged or "
                        "changes only a component that is itself the result of a final wrap, and leaves the Jacobians unchanged; "
                        "c: every contribution and chi^2 is homogeneous of degree 1 in the information matrix and accumulation is "
                        "additive (parallel-edge scenario); d: parity analysis of calc_error under q -> -q for every quaternion group.")
    run_.trusted_base = ["gsverif.interp semantics", "real arithmetic instead of IEEE-754"]
    run_.assumptions = ["order-dependent floating-point rounding under permutation is not decided"]
    tasks = []
    for cfg in CONFIGS:
        if "PoseSE3" not in cfg:
            continue
        ec, t1, t2, tz, toff = cfg
        fn = pkg.method(ec, "calc_error")
        w = "%s:%d" % (fn._gs_module, fn.lineno)
        for name, t in (("p1", t1), ("p2", t2), ("z", tz), ("off", toff)):
            if t != "PoseSE3":
                continue
            key = "C08-d/%s/parity(%s.q)" % (cfg_name(cfg), name)
            if run_.wants(key):
                tasks.append((key, "C08-d-quaternion-sign", parity_obligation(cfg, name), w))
            key = "C08-d/%s/jacobian-follows-error-parity(%s.q)" % (cfg_name(cfg), name)
            if run_.wants(key):
                tasks.append((key, "C08-d-quaternion-sign", jacobian_follows_error_parity_obligation(cfg, name), w))
            if ec == "EdgeLandmark":
                key = "C08-d/%s/jacobian-parity(%s.q)" % (cfg_name(cfg), name)
                if run_.wants(key):
                    tasks.append((key, "C08-d-quaternion-sign", jacobian_parity_obligation(cfg, name), w))
    rfn = pkg.method("EdgeOdometry", "from_g2o")
    for key, bd in (("C08-d/from_g2o/EDGE_SE3:QUAT/sign-of-the-quaternion-in-the-file", False),
                    ("C08-d/from_g2o/EDGE_SE3:QUAT/sign-of-the-quaternion-in-the-file[w=0]", True)):
        if run_.wants(key):
            tasks.append((key, "C08-d-quaternion-sign", file_quaternion_sign_obligation(bd), "%s:%d" % (rfn._gs_module, rfn.lineno)))
    for cfg in CONFIGS:
        if "PoseSE2" in cfg:
            fn = pkg.method(cfg[0], "calc_error")
            key = "C08-b/%s/2pi-periodic" % cfg_name(cfg)
            if run_.wants(key):
                tasks.append((key, "C08-b-angle-periodicity", periodicity_obligation(cfg), "%s:%d" % (fn._gs_module, fn.lineno)))
    tasks += contribution_tasks(run_, pkg, "quick", prefix="C08-c")
    cfn = pkg.method("BaseEdge", "calc_chi2")
    for n in (2, 3, 6):
        key = "C08-c/BaseEdge.calc_chi2/n=%d" % n
        if run_.wants(key):
            tasks.append((key, "C08-c-linear-in-information", chi2_obligation("BaseEdge", n), "%s:%d" % (cfn._gs_module, cfn.lineno)))
    from .c02 import graph_parallel_sum_obligation
    cgfn = pkg.method("Graph", "calc_chi2")
    for k in (2, 3):
        key = "C08-c/Graph.calc_chi2/parallel-edges=%d" % k
        if run_.wants(key):
            tasks.append((key, "C08-c-edge-splitting", graph_parallel_sum_obligation(k), "%s:%d" % (cgfn._gs_module, cgfn.lineno)))
    # files: an edge listed twice (two identical half-information edges) is two edges; ids of any size are names and come back
    # exactly (they never travel through floating point) -- shared with C14's file scenario
    from .c14 import file_obligation
    ffn = pkg.method("Graph", "from_g2o")
    key = "C08-ac/from_g2o/duplicate-edge-lines-and-exact-ids"
    if run_.wants(key):
        tasks.append((key, "C08-ac-file-describes-the-same-graph", file_obligation("plain"), "%s:%d" % (ffn._gs_module, ffn.lineno)))
    gfn = pkg.method("Graph", "_calc_chi2_gradient_hessian")
    perms = [Scenario("order-reversed", ["PoseR2", "PoseSE2", "PoseR2"][::-1], [tuple(2 - k for k in e) for e in BASE_E], fixed=[2]),
             [s for s in SCENARIOS if s.name == "parallel-only"][0], [s for s in SCENARIOS if s.name == "parallel-free"][0],
             [s for s in SCENARIOS if s.name == "fixed-two"][0], [s for s in SCENARIOS if s.name == "same-edge-object-listed-twice"][0]]
    # relabelling: ids are opaque distinct names; every order relation between them is explored, and on each the prelude must fix
    # the same vertices and the assembly must produce the same system (in list order)
    perms += [Scenario("relabelled/fix-first", ["PoseR2", "PoseSE2", "PoseR2"], BASE_E, fix_first_pose=True, symbolic_ids=True),
              Scenario("relabelled/fixed-middle", ["PoseR2", "PoseSE2", "PoseR2"], BASE_E, fixed=[1], symbolic_ids=True)]
    for scn in perms:
        key = "C08-ac/assembly/%s" % scn.name
        if run_.wants(key):
            tasks.append((key, "C08-ac-assembly-order-independent", assembly_obligation(scn), "%s:%d" % (gfn._gs_module, gfn.lineno)))
    results = run_tasks(pkg, tasks)
    from ..algebra import across_thresholds
    from ..assembly import directed_assembly_tasks
    results, xt, xr = across_thresholds(run_, pkg, tasks, results, directed_assembly_tasks("C08-ac/assembly", "C08-ac-assembly-order-independent", "%s:%d" % (gfn._gs_module, gfn.lineno)))
    record(run_, tasks, results)
    record(run_, xt, xr)
    run_.floor("C08 algebraic obligations", len(tasks) if run_.only is None else 21, 21)
    if run_.only is None:
        # the id lint is a syntactic proxy; when the relabelled scenarios (ids = opaque symbols, every order relation explored,
        # through the real constructor / optimize() / assembly) are all decided and hold, a lint hit is recorded as a note only
        relabelled = [r["status"] for t, r in zip(tasks, results) if "/relabelled/" in t[0] or "duplicate-edge-lines-and-exact-ids" in t[0]]
        id_taint_rule(run_, pkg, informational=bool(relabelled) and all(x == "ok" for x in relabelled))
        gradient_index_rule(run_, pkg)
        # scaling all information matrices scales chi^2: the stopping rule must depend on chi^2 only through the scale-free ratio
        from .. import optim_rules
        optim_rules.optimize_verdicts(run_, pkg, "C08", lambda f: ("C08-c/stopping-rule-scale-free/" + f.key, "C08-c-stopping-rule-scale-free")
                                      if f.key.startswith(("C12-T2/early-return-predicate", "C12-T2/converged@post", "C12-T2/early-return@")) else None,
                                      rule_sem="C08-c-stopping-rule-scale-free")
