"""C01 -- analytic edge Jacobians are the exact derivative of the edge error (per configuration and vertex)."""
from ..poly import Poly
from ..interp import Arr, diff_at_zero
from ..algebra import snapshot, scribble
from ..algebra import (CONFIGS, CDIM, cfg_name, run_obligation, run_tasks, record, ObFail, require_same, nterms, delta_vec,
                       zero_hook, sym_config, make_edge, free_increment_columns, columns)

LEVEL = "proof"


def edge_jacobian_obligation(cfg, k, unit=True):
    ec, t1, t2, tz, toff = cfg

    def run(pkg):
        tk = (t1, t2)[k]
        names = ["d[%d]" % i for i in range(CDIM[tk])]

        def fn(it):
            p1, p2, z, off = sym_config(cfg, unit=unit)
            e = make_edge(it, cfg, p1, p2, z, off)
            J = it.call_method(e, "calc_jacobians", [])
            if not isinstance(J, (list, tuple)) or len(J) != 2:
                raise ObFail("calc_jacobians does not return one Jacobian per vertex")
            amp = [ev for ev in it.events if ev[0] == "amplification"]
            if amp:
                raise ObFail("%s: the Jacobian is not computed analytically -- %s at %s (a difference quotient: exact only in exact "
                             "arithmetic, its rounding error grows with the size of the coordinates)" % (cfg_name(cfg), amp[0][1], amp[0][2]))
            d = delta_vec(tk)
            moved = it.call_method((p1, p2)[k], "__iadd__", [d])
            e2 = make_edge(it, cfg, moved if k == 0 else p1, moved if k == 1 else p2, z, off)
            err = it.call_method(e2, "calc_error", [])
            if not isinstance(err, Arr) or err.ndim != 1:
                raise ObFail("calc_error does not return a vector")
            exp = Arr([[diff_at_zero(v, n, names) for n in names] for v in err.data], 2)
            got = J[k]
            if not isinstance(got, Arr):
                raise ObFail("Jacobian %d is %r" % (k, got))
            free = free_increment_columns(names)
            if len(free) < len(names):
                if not free or got.ndim != 2 or got.shape != exp.shape:
                    return dict(mode="the increment is zero on this path (value-level continuity is C02 / C09)")
                got, exp = columns(got, free), columns(exp, free)
            require_same(got, exp, "%s: Jacobian w.r.t. vertex %d is not d error / d(boxplus increment) at 0" % (cfg_name(cfg), k))
            return dict(shape=list(got.shape), terms=nterms(got), mode="manifold" if unit else "pure")
        return run_obligation(pkg, fn, hook=zero_hook(names, generic=True))
    return run


def stale_state_obligation(cfg):
    """History independence: evaluate the edge at one state, overwrite every pose / measurement / offset *in place* with new
    symbolic values (same objects), evaluate again: the second answer must be what a fresh edge gives at the new state."""
    from ..interp import Pose
    from ..poly import Poly as P

    def fn(it):
        p1, p2, z, off = sym_config(cfg, unit=True)
        e = make_edge(it, cfg, p1, p2, z, off)
        it.call_method(e, "calc_error", [])
        it.call_method(e, "calc_chi2", [])
        Ja = it.call_method(e, "calc_jacobians", [])
        seen = snapshot(Ja)
        scribble(Ja)                                   # the caller owns what it was handed (scaling a Jacobian in place, ...)
        Jb = it.call_method(e, "calc_jacobians", [])
        for k in (0, 1):
            require_same(Jb[k], seen[k], "%s: after a caller modified the arrays returned by calc_jacobians(), the next call returns "
                                         "different Jacobians (shared storage is handed out)" % cfg_name(cfg))
        scribble(Jb)
        # the derivative of the error does not depend on optimizer bookkeeping: marking the vertices fixed (as optimize() does
        # for the first vertex, permanently) must not change the Jacobians an edge reports
        from ..interp import ga, sa
        for v_ in ga(e, "vertices"):
            sa(v_, "fixed", True)
        Jf = it.call_method(e, "calc_jacobians", [])
        for k in (0, 1):
            require_same(Jf[k], seen[k], "%s: with its vertices marked fixed the edge reports a different Jacobian w.r.t. vertex %d" % (cfg_name(cfg), k))
        for v_ in ga(e, "vertices"):
            sa(v_, "fixed", False)
        q1, q2, zz, oo = sym_config(cfg, unit=True, names=("q1", "q2", "zz", "oo"))
        # in-place overwrite of the objects the edge and its vertices hold *now* (object identity preserved)
        vs_ = ga(e, "vertices")
        held = [(ga(vs_[0], "pose"), q1), (ga(vs_[1], "pose"), q2), (ga(e, "estimate", None), zz)]
        if off is not None:
            held.append((ga(e, "offset", None), oo))
        for old, new in held:
            if old is not None and new is not None:
                old.data[:] = list(new.data)
        J2 = it.call_method(e, "calc_jacobians", [])       # Jacobians first: nothing may rely on a preceding calc_error
        err2 = it.call_method(e, "calc_error", [])
        fresh = make_edge(it, cfg, q1, q2, zz, oo)
        err3 = it.call_method(fresh, "calc_error", [])
        J3 = it.call_method(fresh, "calc_jacobians", [])
        require_same(err2, err3, "%s: after the poses were modified in place calc_error still answers for the old state" % cfg_name(cfg))
        for k in (0, 1):
            require_same(J2[k], J3[k], "%s: after the poses were modified in place calc_jacobians()[%d] still answers for the old state "
                                       "(a cached intermediate result)" % (cfg_name(cfg), k))
        return dict(mode="history-independence")
    return lambda pkg: run_obligation(pkg, fn)


def run(run_, pkg, tier):
    run_.explanation = ("For each of the 8 well-typed built-in edge configurations and each of its 2 vertices, the normal form of "
                        "calc_jacobians()[k] (translated through every pose Jacobian method it multiplies) equals the formal "
                        "derivative at delta=0 of the normal form of calc_error() with vertex k's pose replaced by the translation "
                        "of pose.__iadd__(delta) (BasePose.__iadd__, the ndarray arm of __add__, the constructor and the angle wrap "
                        "are all translated from source).  Polynomial identities modulo the unit-quaternion and cos^2+sin^2 "
                        "relations, i.e. for every pose, measurement and offset (non-identity rotations included) at once.")
    run_.trusted_base = ["CPython ast", "gsverif.interp semantics of the modelled numpy subset", "real arithmetic instead of IEEE-754",
                         "uniqueness of normal forms modulo var^2 rules", "wrap is the identity on R/2piZ (rule W0, property C11)"]
    run_.assumptions = ["floating-point rounding is not modelled", "the SE(2) wrap discontinuity is excluded as in the property"]
    for c in ("EdgeOdometry", "EdgeLandmark", "BaseEdge", "Vertex"):
        pkg.require_class(c)
    tasks = []
    for cfg in CONFIGS:
        for k in (0, 1):
            key = "%s/vertex%d" % (cfg_name(cfg), k)
            fn = pkg.method(cfg[0], "calc_jacobians")
            if run_.wants(key):
                tasks.append((key, "C01-edge-jacobian", edge_jacobian_obligation(cfg, k, unit=True), "%s:%d" % (fn._gs_module, fn.lineno)))
            if tier == "thorough" and run_.wants(key + "/pure"):
                tasks.append((key + "/pure", "C01-edge-jacobian-pure", edge_jacobian_obligation(cfg, k, unit=False), "%s:%d" % (fn._gs_module, fn.lineno)))
    for cfg in CONFIGS:
        key = "%s/history-independent" % cfg_name(cfg)
        fn = pkg.method(cfg[0], "calc_jacobians")
        if run_.wants(key):
            tasks.append((key, "C01-history-independence", stale_state_obligation(cfg), "%s:%d" % (fn._gs_module, fn.lineno)))
    run_.floor("edge Jacobian obligations", sum(1 for t in tasks if t[1] == "C01-edge-jacobian") if run_.only is None else 16, 16)
    others = [c for c in pkg.subclasses("BaseEdge") if c not in ("EdgeOdometry", "EdgeLandmark") and pkg.own_method(c, "calc_jacobians")]
    for c in others:
        run_.error("new BaseEdge subclass %s overrides calc_jacobians; no configuration table for it" % c)
    results = run_tasks(pkg, tasks)
    # pure-mode results are reported as extra strength only: a failure there is not a violation of the property
    for t, res in zip(list(tasks), results):
        if t[1] == "C01-edge-jacobian-pure" and res["status"] != "ok":
            run_.note("pure-mode identity does not hold for %s (manifold-mode identity is the property): %s" % (t[0], res["detail"][:200]))
            res["status"], res["stats"] = "ok", dict(mode="pure identity FAILS (informational)")
    record(run_, tasks, results)
