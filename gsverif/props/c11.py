"""C11 -- manifold invariants: SE(2) angle range / congruence, SE(3) unit quaternions, normalize()."""
import ast

from .. import poly
from ..poly import Poly
from ..interp import Arr, Pose, Quot, Wrapped, sym_pose, sym_vec, PI, SignFacts, Interp, PathRaise, ga
from ..algebra import run_obligation, run_tasks, record, ObFail, require_same, nterms, delta_vec, ref_R_t
from .c09 import qnorm_le_one_hook

LEVEL = "proof"


def wrap_shape_obligation():
    """W0: util.neg_pi_to_pi(x) == ((x + a) mod 2pi) + b with b = -pi and a + b = 0 (mod 2pi)."""
    def fn(it):
        x = poly.register_angle("x")
        f = it.pkg.funcs.get("neg_pi_to_pi")
        if f is None:
            raise ObFail("util.neg_pi_to_pi vanished")
        r = it.call_function(f, [x])
        two_pi = PI() * 2
        if isinstance(r, Wrapped):
            if r.modulus != two_pi:
                raise ObFail("wrap modulus is %s, not 2*pi" % r.modulus.short(80))
            if r.offset != -PI():
                raise ObFail("wrap offset is %s, not -pi: range is not [-pi, pi)" % r.offset.short(80))
            d = r.inner + r.offset - x
            if not any(d == two_pi * k for k in range(-3, 4)):
                raise ObFail("wrap is not congruent to its argument modulo 2*pi (differs by %s)" % d.short(80))
            return dict(form="((x + %s) mod %s) + %s" % ((r.inner - x).short(30), r.modulus.short(30), r.offset.short(30)))
        if isinstance(r, Poly) and r == x and it.atan2_uses:
            return dict(form="atan2(sin x, cos x)")
        raise ObFail("neg_pi_to_pi does not reduce its argument modulo 2*pi (result %r)" % (r,))
    return lambda pkg: run_obligation(pkg, fn)


def se2_wrapped_obligation(opname):
    """W1: every SE(2) pose produced by the operation went through the wrap exactly once (marker analysis)."""
    def fn(it):
        it.mark_wraps = True
        a, b = sym_pose("PoseSE2", "a"), sym_pose("PoseSE2", "b")
        mark = Poly.var("WRAP")
        if opname == "constructor":
            t = poly.register_angle("t")
            res, exp = it.construct("PoseSE2", [sym_vec("x", 2), t]), t
        elif opname == "constructor[defaults]":
            # every shorter call form the signature admits: trailing parameters with defaults left out, the first argument
            # then carries the whole array
            full = sym_vec("x", 3)
            full.data[2] = poly.register_angle("t")
            try:
                res, exp = it.construct("PoseSE2", [full]), full.data[2]
            except PathRaise as e:
                if "TypeError" in str(e.exc):
                    return dict(op=opname, form="not admitted by the signature")
                raise
        elif opname.startswith("file:"):
            from .c13 import read_line
            from .c14 import tokens, make_line
            from ..g2o import VOCABULARY, mark_int
            tag = opname[5:]
            spec = VOCABULARY[tag]
            kind = spec[0]
            nid = {"vertex": 1, "odometry": 2}.get(kind, 1)
            ntok = nid + 3 + (6 if kind == "odometry" else 0)
            vals = tokens(it, "t", ntok)
            mark_int(it, *vals[:nid])
            poly.register_angle("t%d" % (nid + 2))
            line = make_line(it, tag, vals, " ", "\n")
            _, obj = read_line(it, line, {} if kind == "odometry" else None)
            res = ga(obj, {"vertex": "pose", "odometry": "estimate"}.get(kind, "value"), None)
            exp = vals[nid + 2]
        elif opname == "identity":
            res, exp = it.call_method(a, "identity", []), Poly()
        elif opname == "copy":
            res, exp = it.call_method(a, "copy", []), a.data[2]
        elif opname == "inverse":
            res, exp = it.call_method(a, "inverse", []), -a.data[2]
        elif opname == "oplus":
            res, exp = it.call_method(a, "__add__", [b]), a.data[2] + b.data[2]
        elif opname == "boxplus":
            d = delta_vec("PoseSE2")
            res, exp = it.call_method(a, "__add__", [d]), a.data[2] + d.data[2]
        elif opname == "iadd":
            d = delta_vec("PoseSE2")
            res, exp = it.call_method(a, "__iadd__", [d]), a.data[2] + d.data[2]
        elif opname == "ominus":
            res, exp = it.call_method(a, "__sub__", [b]), a.data[2] - b.data[2]
        elif opname == "from_matrix":
            it.mark_wraps = False
            m = it.call_method(a, "to_matrix", [])
            it.mark_wraps = True
            res, exp = it.call_classmethod(it.type_of(a, None), "from_matrix", [m]), a.data[2]
        else:
            raise ObFail("unknown op")
        if not isinstance(res, Pose) or res.cls != "PoseSE2" or len(res.data) != 3:
            raise ObFail("%s does not produce a PoseSE2 (got %r)" % (opname, res))
        ang = res.data[2]
        two_pi = PI() * 2
        import math as _math
        from ..interp import Interp as _I
        pv = _I.pi_value(ang) if isinstance(ang, Poly) else None
        if pv is not None and isinstance(exp, Poly) and ang == exp and -_math.pi - 1e-12 <= pv < _math.pi:
            return dict(op=opname, form="a constant inside [-pi, pi)")      # nothing to normalise
        d = ang - exp
        if any(d == two_pi * k for k in range(-3, 4)):
            raise ObFail("the angle produced by %s does not pass through the angle wrap (not normalised to [-pi, pi))" % opname)
        if not any(d == mark + two_pi * k for k in range(-3, 4)):
            raise ObFail("the angle produced by %s is not congruent to the exact angle modulo 2*pi (differs by %s)" % (opname, (d - mark).short(80)))
        bad = [e for e in it.events if e[0] == "noncongruent-wrap"]
        if bad:
            raise ObFail("angle wrap is not congruent modulo 2*pi (%s)" % bad[0][1])
        return dict(op=opname)
    return lambda pkg: run_obligation(pkg, fn)


def n2(q):
    return sum((x * x for x in q), Poly())


def quat_norm_obligation(opname):
    """Q1: |q(result)|^2 == product of operand norms, as a *pure* polynomial identity (Euler four-square)."""
    def fn(it):
        a, b = sym_pose("PoseSE3", "a", unit=False), sym_pose("PoseSE3", "b", unit=False)
        na, nb = n2(a.data[3:]), n2(b.data[3:])
        if opname == "oplus":
            res, exp = it.call_method(a, "__add__", [b]), na * nb
        elif opname == "ominus":
            res, exp = it.call_method(a, "__sub__", [b]), na * nb
        elif opname == "inverse":
            res, exp = it.call_method(a, "inverse", []), na
        elif opname == "copy":
            res, exp = it.call_method(a, "copy", []), na
        elif opname in ("boxplus", "iadd"):
            d = delta_vec("PoseSE3")
            res, exp = it.call_method(a, "__add__" if opname == "boxplus" else "__iadd__", [d]), na
        elif opname == "identity":
            res, exp = it.call_method(a, "identity", []), Poly.const(1)
        else:
            raise ObFail("unknown op")
        if not isinstance(res, Pose) or res.cls != "PoseSE3" or len(res.data) != 7:
            raise ObFail("%s does not produce a PoseSE3 (got %r)" % (opname, res))
        got = n2(res.data[3:])
        require_same(got, exp, "squared quaternion norm of the result of %s is not the product of the operands' squared norms" % opname)
        return dict(op=opname, terms=nterms(got))
    return lambda pkg: run_obligation(pkg, fn)


def normalize_obligation():
    def fn(it):
        a = sym_pose("PoseSE3", "a", unit=False)
        orig = list(a.data)
        r = it.call_method(a, "normalize", [])
        for i in range(3):
            if not isinstance(a.data[i], Poly) or a.data[i] != orig[i]:
                raise ObFail("normalize() changes position component %d" % i)
        q = a.data[3:]
        nq = n2(orig[3:])
        natom = poly.atom("norm", nq)

        def parts(x):
            # a component is a quotient num/den, or a plain value (den = 1: e.g. an early return where the divisor is exactly 1)
            if isinstance(x, Quot) and isinstance(x.num, Poly) and isinstance(x.den, Poly):
                return x.num, x.den
            if isinstance(x, Poly):
                return x, Poly.const(1)
            return None
        pq = [parts(x) for x in q]
        if any(x is None for x in pq):
            raise ObFail("normalize() leaves quaternion components that are not numbers (%r)" % ([type(x).__name__ for x in q],))
        sigma = None
        for s_ in (1, -1):
            # result_i = q_i / (sigma * |q|)   <=>   num_i * sigma * |q| == q_i * den_i   for every component (on this path)
            if all(num * natom.scale(s_) == orig[3 + i] * den for i, (num, den) in enumerate(pq)):
                sigma = s_
        if sigma is None:
            raise ObFail("normalize() does not map q to +-q/|q| (first component: (%s)/(%s))" % (pq[0][0].short(60), pq[0][1].short(60)))
        # sign of the scalar part: sigma * q_w >= 0 must be implied by the path condition
        key, orient = SignFacts.canon(orig[6])
        remaining = it.facts.get(key, {-1, 0, 1})
        signs = {x * orient for x in remaining}
        need = {0, 1} if sigma == 1 else {-1, 0}
        if not signs <= need:
            raise ObFail("normalize() can leave a negative scalar part: divisor sign %+d on a path where sign(q_w) in %s" % (sigma, sorted(signs)))
        return dict(divisor="%+d * |q|" % sigma, qw_sign=sorted(signs))
    return lambda pkg: run_obligation(pkg, fn)


def structural_view_rule(run_, pkg):
    """W1 (structural half): no `.view(<pose class>)` outside that class's own __new__; the only subscript store into
    a pose object is PoseSE3.normalize."""
    n_views = 0
    for qual, fn in pkg.all_functions():
        for node in ast.walk(fn):
            if isinstance(node, ast.Call) and isinstance(node.func, ast.Attribute) and node.func.attr == "view" and node.args:
                arg = node.args[0]
                cls_here = getattr(fn, "_gs_class", None)
                makes_se2 = (isinstance(arg, ast.Name) and arg.id == "PoseSE2") or \
                    (cls_here == "PoseSE2" and ast.unparse(arg) in ("cls", "type(self)", "self.__class__"))
                if not makes_se2:
                    continue      # only SE(2) poses carry a construction invariant (the wrapped angle)
                n_views += 1
                ok = fn.name == "__new__" and cls_here == "PoseSE2"
                run_.check(ok, "%s/view" % qual, "C11-W1-single-constructor",
                           "`.view(PoseSE2)` creates an SE(2) pose outside its constructor, bypassing the angle wrap",
                           where="%s:%d" % (fn._gs_module, node.lineno))
    run_.extra["se2_view_sites"] = n_views
    for cname in pkg.subclasses("BasePose", strict=False):
        ci = pkg.classes[cname]
        fns = [f for f, _, _ in ci.methods.values()] + list(ci.props.values())
        for fn in fns:
            for node in ast.walk(fn):
                tgt = None
                if isinstance(node, (ast.Assign,)):
                    tgt = [t for t in node.targets if isinstance(t, ast.Subscript)]
                elif isinstance(node, ast.AugAssign) and isinstance(node.target, ast.Subscript):
                    tgt = [node.target]
                for t in tgt or []:
                    base = t.value
                    if isinstance(base, ast.Name) and base.id in ("self", "other", "point"):
                        ok = cname == "PoseSE3" and fn.name == "normalize"
                        run_.check(ok, "%s.%s/subscript-store" % (cname, fn.name), "C11-W1-no-in-place-pose-write",
                                   "in-place write into a pose object outside PoseSE3.normalize",
                                   where="%s:%d" % (fn._gs_module, node.lineno))


def run(run_, pkg, tier):
    run_.explanation = ("W0: util.neg_pi_to_pi normalises in Q[pi] to ((x+a) mod 2pi) - pi with a = pi (mod 2pi), hence range [-pi,pi) and "
                        "congruence; W1: marker analysis -- every SE(2) pose produced by constructor/identity/copy/inverse/(+)/(-)/"
                        "boxplus/from_matrix carries exactly one wrap of the exact angle; Q1: quaternion norm multiplicativity of "
                        "(+), (-), inverse, copy, boxplus (both arms of the qnorm>1 branch) as pure polynomial identities; "
                        "N: normalize divides the quaternion by sigma*|q| with sigma*q_w >= 0 on each arm.")
    run_.trusted_base = ["CPython ast", "gsverif.interp semantics of the modelled numpy subset", "real arithmetic instead of IEEE-754",
                         "uniqueness of normal forms modulo var^2 rules"]
    run_.assumptions = ["drift of the norm under rounded operations and the closed end +pi produced by rounding are not decided",
                        "optimizer clause (vertices change only through boxplus) is decided under C03-d"]
    tasks = []
    anchor_wrap = pkg.funcs.get("neg_pi_to_pi")
    if anchor_wrap is None:
        run_.error("anchor vanished: util.neg_pi_to_pi")
        return
    w = "%s:%d" % (anchor_wrap._gs_module, anchor_wrap.lineno)
    se2 = pkg.method("PoseSE2", "__new__")
    se3 = pkg.method("PoseSE3", "__add__")
    cand = [("util.neg_pi_to_pi/wrap-shape", "C11-W0-wrap-shape", wrap_shape_obligation(), w)]
    ops2 = ["constructor", "identity", "copy", "inverse", "oplus", "boxplus", "iadd", "ominus"]
    if pkg.lookup("PoseSE2", "from_matrix"):
        ops2.append("from_matrix")
    from ..g2o import VOCABULARY
    ops2 += ["constructor[defaults]"] + ["file:" + t for t, spec in sorted(VOCABULARY.items()) if spec[1] == "PoseSE2" and spec[0] in ("vertex", "odometry", "param")]
    for op in ops2:
        cand.append(("PoseSE2/%s/wrapped" % op, "C11-W1-angle-wrapped", se2_wrapped_obligation(op), "%s:%d" % (se2._gs_module, se2.lineno)))
    for op in ["oplus", "ominus", "inverse", "copy", "boxplus", "iadd", "identity"]:
        cand.append(("PoseSE3/%s/norm" % op, "C11-Q1-norm-multiplicative", quat_norm_obligation(op), "%s:%d" % (se3._gs_module, se3.lineno)))
    nfn = pkg.method("PoseSE3", "normalize")
    cand.append(("PoseSE3.normalize", "C11-N-normalize", normalize_obligation(), "%s:%d" % (nfn._gs_module, nfn.lineno)))
    for c in cand:
        if run_.wants(c[0]):
            tasks.append(c)
    run_.floor("manifold-invariant obligations", len(tasks) if run_.only is None else 22, 22)
    record(run_, tasks, run_tasks(pkg, tasks))
    if run_.only is None:
        structural_view_rule(run_, pkg)
        # Q2: during optimization vertex poses change only through boxplus (pose += dx[...]) -- unit in, unit out by Q1
        from .. import optim_rules
        n = optim_rules.optimize_verdicts(run_, pkg, "C11", lambda f: ("C11-Q2/" + f.key, "C11-Q2-optimizer-updates-by-boxplus")
                                          if f.key.startswith(("C03-d/update-step", "C03-d/no-other-pose-write", "C03-d/update-loop-extra", "C03-d/update-present")) else None,
                                          rule_sem="C11-Q2-optimizer-updates-by-boxplus")
        run_.floor("C11-Q2 rule instances", n, 2)
