"""C18 -- graph construction binds edges by vertex id and rejects ill-typed edges (exhaustive type/shape table)."""
import itertools

from .. import poly
from ..poly import Poly
from ..interp import ga, sa, Arr, Pose, Obj, Interp, explore, PathRaise, sym_pose, sym_vec, sym_mat, Unsupported, LossyOperation
from ..algebra import custom_edge, POSES, CDIM, run_tasks, ObFail, run_obligation
from ..model import AnalysisError

LEVEL = "exploration"

LANDMARK_PAIRS = {("PoseSE2", "PoseR2"), ("PoseSE3", "PoseR3"), ("PoseR2", "PoseR2"), ("PoseR3", "PoseR3")}
EST_TYPES = POSES + ["ndarray", "float"]
OFF_TYPES = POSES + ["ndarray", "None"]
ID_STATES = ["matching", "mismatching", "unbound", "length-mismatch", "repeated", "matching-tuple"]
# "matching-tuple": the ids are given in a tuple instead of a list (any sequence of ids names the vertices)
# "repeated": the last id repeats the first one (and is bound to the same vertex object): the number of vertices an edge names
# is the length of its id list, not the number of distinct ids


def consistent(edge_cls, vtypes, est, off, shape, ids):
    """The checker's consistency table, taken from the property text."""
    if ids not in ("matching", "repeated", "matching-tuple") or len(vtypes) != 2:
        return False
    t1, t2 = vtypes
    if edge_cls == "EdgeOdometry":
        return t1 == t2 and est == t1 and shape == (CDIM[t1], CDIM[t1])
    return (t1, t2) in LANDMARK_PAIRS and off == t1 and est == t2 and shape == (CDIM[t2], CDIM[t2])


def distinct_names_hook(d):
    """ids are opaque, pairwise distinct names: the difference of two different id symbols is non-zero."""
    vs = d.variables()
    if len(vs) == 2 and len(d.t) == 2 and all(v.startswith(("id", "pid", "oid", "other_id", "unknown")) for v in vs) and \
            sorted(d.t.values()) == [-1, 1] and d.total_degree() == 1:
        return {-1, 1}
    return None


class Values:
    """Abstract values used for the finite type/shape domain: one symbolic representative per type / shape."""

    def __init__(self):
        self.pose = {t: sym_pose(t, "v_" + t) for t in POSES}
        self.nd = sym_vec("nd", 2)
        self.fl = Poly.var("fl")
        self.info = {(r, c): sym_mat("W%d%d" % (r, c), r, c) for r in range(1, 8) for c in range(1, 8)}

    def of(self, t, tag):
        if t == "ndarray":
            return self.nd
        if t == "float":
            return self.fl
        if t == "None":
            return None
        return sym_pose(t, tag)


def evaluate(pkg, vals, edge_cls, vtypes, est, off, shape, ids):
    """Interpret <edge_cls>.is_valid on one abstract configuration; returns True / False / 'raises:<exc>'."""
    n = len(vtypes)
    id_polys = [Poly.var("id%d" % k) for k in range(n)]       # opaque, pairwise distinct names
    if ids == "repeated":
        if n < 2 or vtypes[-1] != vtypes[0]:
            return "not-well-formed"          # one vertex has one type
        id_polys = id_polys[:-1] + [id_polys[0]]

    seq = tuple if ids == "matching-tuple" else list

    def run(it):
        verts = []
        for k, t in enumerate(vtypes):
            vid = id_polys[k] if ids != "mismatching" or k != n - 1 else Poly.var("other_id")
            if ids == "repeated" and k == n - 1:
                verts.append(verts[0])
                continue
            verts.append(it.construct("Vertex", [vid, vals.pose[t]]))
        vlist = verts
        if ids == "unbound":
            vlist = None
        elif ids == "length-mismatch":
            vlist = verts[:-1]
        e_est = vals.of(est, "est") if est not in POSES else vals.pose_est[est]
        if edge_cls == "EdgeOdometry":
            e = it.construct(edge_cls, [seq(id_polys), vals.info[shape], e_est, vlist])
        else:
            e_off = vals.of(off, "off") if off not in POSES else vals.pose_off[off]
            e = it.construct(edge_cls, [seq(id_polys), vals.info[shape], e_est, e_off], dict(vertices=vlist))
        return it.call_method(e, "is_valid", [])
    paths = explore(pkg, run, hook=distinct_names_hook, max_paths=64)
    outs = set()
    for p in paths:
        if p.raised is not None:
            outs.add("raises:%s" % p.raised.exc)
        else:
            outs.add(bool(p.value) if isinstance(p.value, bool) else "value:%r" % (p.value,))
    if len(outs) != 1:
        # the verdict depends on the *numbers* in the poses / matrices, not only on types, shapes and ids
        return ("data-dependent", frozenset(outs))
    return outs.pop()


def chunk_task(edge_cls, nverts, shapes, ids_states, first=None):
    def fn(pkg):
        vals = Values()
        vals.pose_est = {t: sym_pose(t, "est_" + t) for t in POSES}
        vals.pose_off = {t: sym_pose(t, "off_" + t) for t in POSES}
        n = 0
        accepted_ok = 0
        bad = []
        distinct = set()
        offs = OFF_TYPES if edge_cls == "EdgeLandmark" else [None]
        for vtypes in itertools.product(POSES, repeat=nverts):
            if first is not None and vtypes[0] != first:
                continue
            for est in EST_TYPES:
                for off in offs:
                    for shape in shapes:
                        for ids in ids_states:
                            got = evaluate(pkg, vals, edge_cls, vtypes, est, off, shape, ids)
                            if got == "not-well-formed":
                                continue
                            exp = consistent(edge_cls, vtypes, est, off, shape, ids)
                            n += 1
                            if exp:
                                distinct.add((vtypes, est, off, shape, ids))
                            if isinstance(got, tuple) and got[0] == "data-dependent":
                                outs = got[1]
                                if exp:
                                    bad.append(("rejects(for some pose / matrix values: %s)" % sorted(map(str, outs - {True})), vtypes, est, off, shape, ids))
                                elif True in outs:
                                    bad.append(("accepts", vtypes, est, off, shape, ids))
                                continue
                            if got is True and exp:
                                accepted_ok += 1
                            elif got is True and not exp:
                                bad.append(("accepts", vtypes, est, off, shape, ids))
                            elif exp and got is not True:
                                bad.append(("rejects(%s)" % got, vtypes, est, off, shape, ids))
                            elif isinstance(got, str) and got.startswith(("data-dependent", "value")):
                                bad.append(("undecided(%s)" % got, vtypes, est, off, shape, ids))
        return dict(status="ok", n=n, accepted=accepted_ok, bad=bad[:2000], nbad=len(bad))
    return fn


def _run_ob(pkg, fn):
    return run_obligation(pkg, fn, hook=distinct_names_hook)


def binding_obligation():
    """B1: Graph(...) attaches to each edge the vertices whose ids it names, whatever the list order; unknown id raises."""
    def fn(it):
        n_checked = 0
        ids = [Poly.var("ida"), Poly.var("idb"), Poly.var("idc")]
        for perm in itertools.permutations(range(3)):
            for pair in itertools.permutations(range(3), 2):
                verts = [it.construct("Vertex", [ids[k], sym_pose("PoseR2", "p%d" % k)]) for k in range(3)]
                vlist = [verts[k] for k in perm]
                edge = custom_edge(it, [ids[pair[0]], ids[pair[1]]], None, None, None)
                edge.stubs["is_valid"] = lambda: True
                g = it.construct("Graph", [[edge], vlist])
                bound = ga(edge, "vertices", None)
                if not isinstance(bound, list) or len(bound) != 2:
                    raise ObFail("after construction edge.vertices is %r" % (bound,))
                for k in (0, 1):
                    if bound[k] is not verts[pair[k]]:
                        raise ObFail("edge naming ids (%s, %s) is bound to a different vertex at position %d when the vertex list order is %s" % (pair[0], pair[1], k, perm))
                n_checked += 1
        return dict(bindings=n_checked)
    return lambda pkg: run_obligation(pkg, fn)


def concrete_ids_obligation(idset):
    """Binding with integer ids (0..N-1 in every list order; negative / sparse / huge ids): an id is a name, not a position."""
    def fn(it):
        n_checked = 0
        for perm in itertools.permutations(range(len(idset))):
            from ..interp import int_const
            ids = [int_const(it, idset[k]) for k in perm]            # list order = perm (Python ints)
            verts = [it.construct("Vertex", [ids[k], sym_pose("PoseR2", "p%d" % k)]) for k in range(len(ids))]
            edges = []
            for a in range(len(ids)):
                b = (a + 1) % len(ids)
                e = custom_edge(it, [ids[a], ids[b]], None, None, None)
                e.stubs["is_valid"] = (lambda e=e: all(ga(v, "id") == w for v, w in zip(ga(e, "vertices"), ga(e, "vertex_ids"))))
                edges.append((e, a, b))
            try:
                it.construct("Graph", [[e for e, _, _ in edges], verts])
            except PathRaise as ex:
                raise ObFail("a consistent graph whose vertex ids are %s in list order is rejected (%s)" % ([idset[k] for k in perm], ex.exc))
            for e, a, b in edges:
                bound = ga(e, "vertices", None)
                if not isinstance(bound, list) or len(bound) != 2 or bound[0] is not verts[a] or bound[1] is not verts[b]:
                    raise ObFail("with vertex ids %s in list order, the edge naming ids (%s, %s) is bound to other vertices" % (
                        [idset[k] for k in perm], idset[perm[a]], idset[perm[b]]))
                n_checked += 1
        return dict(bindings=n_checked, ids=list(idset))
    return lambda pkg: _run_ob(pkg, fn)


def prebound_obligation():
    """An edge that arrives already attached to vertex objects (e.g. re-used from another graph) is re-bound to *this* graph's
    vertices; a pre-attached vertex does not make an unknown id acceptable."""
    def fn(it):
        ids = [Poly.var("ida"), Poly.var("idb")]
        verts = [it.construct("Vertex", [ids[k], sym_pose("PoseR2", "p%d" % k)]) for k in range(2)]
        foreign = [it.construct("Vertex", [ids[k], sym_pose("PoseR2", "f%d" % k)]) for k in range(2)]
        edge = custom_edge(it, list(ids), None, None, list(foreign))
        edge.stubs["is_valid"] = lambda: True
        it.construct("Graph", [[edge], verts])
        bound = ga(edge, "vertices", None)
        for k in (0, 1):
            if not isinstance(bound, list) or len(bound) != 2 or bound[k] is not verts[k]:
                raise ObFail("an edge that was already attached to other vertex objects with the same ids stays attached to them "
                             "instead of being bound to the graph's own vertices")
        stray = it.construct("Vertex", [Poly.var("unknown"), sym_pose("PoseR2", "s")])
        edge2 = custom_edge(it, [ids[0], Poly.var("unknown")], None, None, [verts[0], stray])
        edge2.stubs["is_valid"] = lambda: True
        try:
            it.construct("Graph", [[edge2], verts])
        except PathRaise:
            return dict(rebinding=True)
        raise ObFail("an edge naming an id that no vertex of the graph has is accepted because it arrived pre-attached to a vertex object")
    return lambda pkg: _run_ob(pkg, fn)


def unknown_id_obligation():
    def fn(it):
        ids = [Poly.var("ida"), Poly.var("idb")]
        verts = [it.construct("Vertex", [ids[k], sym_pose("PoseR2", "p%d" % k)]) for k in range(2)]
        edge = custom_edge(it, [ids[0], Poly.var("unknown")], None, None, None)
        edge.stubs["is_valid"] = lambda: True
        try:
            it.construct("Graph", [[edge], verts])
        except PathRaise as e:
            return dict(raises=e.exc)
        raise ObFail("constructing a graph whose edge names an unknown vertex id does not raise")
    return lambda pkg: run_obligation(pkg, fn)


def unknown_id_any_size_obligation():
    """An edge naming ids that the graph's vertex list lacks raises for *every* size of that list, the empty one included."""
    def fn(it):
        ids = [Poly.var("ida"), Poly.var("idb"), Poly.var("idc")]
        n = 0
        for present in ([], [0], [1], [0, 2], [2, 1]):
            for pair in itertools.permutations(range(3), 2):
                if all(k in present for k in pair):
                    continue
                verts = [it.construct("Vertex", [ids[k], sym_pose("PoseR2", "p%d" % k)]) for k in present]
                edge = custom_edge(it, [ids[pair[0]], ids[pair[1]]], None, None, None)
                edge.stubs["is_valid"] = lambda: True
                try:
                    it.construct("Graph", [[edge], verts])
                except PathRaise:
                    n += 1
                    continue
                raise ObFail("a graph with %d vertices accepts an edge naming a vertex id that none of them has" % len(present))
        return dict(rejections=n)
    return lambda pkg: _run_ob(pkg, fn)


def history_obligation():
    """Construction is a function of its own arguments: an id known only to a graph built *earlier* is unknown to this one, and an id
    that both graphs use is bound to this graph's vertex."""
    def fn(it):
        ids = [Poly.var("ida"), Poly.var("idb"), Poly.var("idc")]
        first_verts = [it.construct("Vertex", [ids[k], sym_pose("PoseR2", "f%d" % k)]) for k in range(3)]
        e0 = custom_edge(it, [ids[0], ids[2]], None, None, None)
        e0.stubs["is_valid"] = lambda: True
        it.construct("Graph", [[e0], first_verts])
        verts = [it.construct("Vertex", [ids[k], sym_pose("PoseR2", "p%d" % k)]) for k in range(2)]
        e1 = custom_edge(it, [ids[1], ids[0]], None, None, None)
        e1.stubs["is_valid"] = lambda: True
        it.construct("Graph", [[e1], verts])
        bound = ga(e1, "vertices", None)
        if not isinstance(bound, list) or len(bound) != 2 or bound[0] is not verts[1] or bound[1] is not verts[0]:
            raise ObFail("after an earlier graph used the same ids, a new graph's edge is bound to vertices that are not the new graph's own")
        e2 = custom_edge(it, [ids[0], ids[2]], None, None, None)
        e2.stubs["is_valid"] = lambda: True
        try:
            it.construct("Graph", [[e2], [it.construct("Vertex", [ids[k], sym_pose("PoseR2", "q%d" % k)]) for k in range(2)]])
        except PathRaise:
            return dict(history_independent=True)
        raise ObFail("an edge naming an id that only a previously constructed graph knows is accepted (state shared between graphs)")
    return lambda pkg: _run_ob(pkg, fn)


def invalid_edge_obligation(result):
    def fn(it):
        ids = [Poly.var("ida"), Poly.var("idb")]
        verts = [it.construct("Vertex", [ids[k], sym_pose("PoseR2", "p%d" % k)]) for k in range(2)]
        good = custom_edge(it, list(ids), None, None, None)
        good.stubs["is_valid"] = lambda: True
        bad = custom_edge(it, list(ids), None, None, None)
        bad.stubs["is_valid"] = lambda: result
        for order in ([good, bad], [bad, good], [bad]):
            try:
                it.construct("Graph", [list(order), verts])
            except PathRaise as e:
                continue
            raise ObFail("constructing a graph with an edge whose is_valid() is %r does not raise" % (result,))
        return dict(invalid_result=repr(result))
    return lambda pkg: run_obligation(pkg, fn)


def run(run_, pkg, tier):
    run_.explanation = ("B2: is_valid of EdgeOdometry and EdgeLandmark is interpreted on the finite lattice of pose *types* and matrix "
                        "*shapes* (a pose is its class, the information matrix is its shape, ids are opaque distinct names) for every "
                        "combination of vertex count 1-3 x endpoint types x estimate type x offset type x information shape "
                        "(1..7)^2 x id state, and compared with the consistency table of the property text.  B1: Graph.__init__/"
                        "_initialize is interpreted for all orders of 3 vertices and all ordered id pairs.")
    run_.trusted_base = ["gsverif.interp semantics of isinstance/type/len/shape on abstract values"]
    run_.assumptions = ["rejection is by `assert`, which python -O removes (outside the property's quantifier)"]
    run_.rule_text = ("cases = abstract configurations (edge kind, vertex types, estimate type, offset type, information shape, id state); "
                      "a case is non-trivial when the consistency table accepts it (the predicate has to run to its last test)")
    for c in ("EdgeOdometry", "EdgeLandmark", "Graph", "Vertex"):
        pkg.require_class(c)
    all_shapes = [(r, c) for r in range(1, 8) for c in range(1, 8)]
    tasks = []
    for edge_cls in ("EdgeOdometry", "EdgeLandmark"):
        fn = pkg.method(edge_cls, "is_valid")
        where = "%s:%d" % (fn._gs_module, fn.lineno)
        for nverts in (1, 2, 3):
            if tier == "thorough":
                for ids in ID_STATES:
                    for r in range(1, 8):
                        tasks.append(("%s/is_valid/n=%d/ids=%s/rows=%d" % (edge_cls, nverts, ids, r), "C18-B2-validity-table",
                                      chunk_task(edge_cls, nverts, [(r, c) for c in range(1, 8)], [ids]), where))
            else:
                # quick: all shapes with matching ids for 2 vertices; the other id states / vertex counts are rejected before the
                # shape test, so one representative shape per true dimension plus a wrong one is enumerated
                if nverts == 2:
                    for r in range(1, 8):
                        tasks.append(("%s/is_valid/n=2/ids=matching/rows=%d" % (edge_cls, r), "C18-B2-validity-table",
                                      chunk_task(edge_cls, 2, [(r, c) for c in range(1, 8)], ["matching"]), where))
                    tasks.append(("%s/is_valid/n=2/ids=other" % edge_cls, "C18-B2-validity-table",
                                  chunk_task(edge_cls, 2, [(2, 2), (3, 3), (6, 6), (3, 2)], ID_STATES[1:]), where))
                else:
                    for first in POSES:
                        tasks.append(("%s/is_valid/n=%d/first=%s" % (edge_cls, nverts, first), "C18-B2-validity-table",
                                      chunk_task(edge_cls, nverts, [(2, 2), (3, 3), (6, 6), (3, 2)], ID_STATES, first), where))
    tasks = [t for t in tasks if run_.wants(t[0])]
    results = run_tasks(pkg, tasks)
    total = 0
    accepted = 0
    by_key = {}
    for t, res in zip(tasks, results):
        if res.get("status") != "ok":
            run_.error("%s: %s" % (t[0], res.get("detail")))
            continue
        total += res["n"]
        accepted += res["accepted"]
        for b in res["bad"]:
            kind, vtypes, est, off, shape, ids = b
            edge_cls = t[0].split("/")[0]
            if kind == "accepts" and len(vtypes) == 2 and ids == "matching":
                key = "C18-B2/%s.is_valid/accepts(%s,%s)" % (edge_cls, vtypes[0], vtypes[1])
            elif kind == "accepts":
                key = "C18-B2/%s.is_valid/accepts[n=%d,ids=%s]" % (edge_cls, len(vtypes), ids)
            elif kind.startswith("rejects"):
                key = "C18-B2/%s.is_valid/rejects(%s)" % (edge_cls, ",".join(vtypes))
            else:
                key = "C18-B2/%s.is_valid/undecided" % edge_cls
            by_key.setdefault(key, (t, []))[1].append(b)
    for key, (t, items) in sorted(by_key.items()):
        kind, vtypes, est, off, shape, ids = items[0]
        what = "%s %d inconsistent configuration(s), e.g. vertices=%s estimate=%s offset=%s information=%sx%s ids=%s" % (
            kind, len(items), "/".join(vtypes), est, off, shape[0], shape[1], ids) if kind == "accepts" else \
            "%s a consistent configuration: vertices=%s estimate=%s offset=%s information=%sx%s ids=%s" % (
                kind, "/".join(vtypes), est, off, shape[0], shape[1], ids)
        if "undecided" in key:
            run_.error("%s: %s" % (key, what))
        else:
            run_.violation(key, "C18-B2-validity-table", what, where=t[3])
    run_.instances.append(dict(key="C18-B2/table", rule="C18-B2-validity-table", ok=not by_key, detail="%d configurations" % total))
    run_.extra["evaluations_table"] = total
    run_.extra["evaluations"] = total
    run_.extra["distinct_nontrivial"] = accepted
    run_.extra["consistent_configurations_accepted"] = accepted
    run_.extra["exhaustive"] = tier == "thorough"
    run_.floor("consistent configurations accepted", accepted, 8)
    for i in range(min(accepted, 8)):
        run_.nontrivial_keys.add("consistent#%d" % i)
    run_.samples.append(dict(configuration=dict(edge="EdgeLandmark", vertices=["PoseSE3", "PoseR3"], estimate="PoseR3", offset="PoseSE3",
                                                information=[3, 3], ids="matching"), expected=True))
    run_.samples.append(dict(configuration=dict(edge="EdgeOdometry", vertices=["PoseSE2", "PoseSE2"], estimate="PoseSE2",
                                                information=[3, 2], ids="matching"), expected=False))
    # B1
    gfn = pkg.method("Graph", "_initialize")
    where = "%s:%d" % (gfn._gs_module, gfn.lineno)
    btasks = [("C18-B1/Graph._initialize/binding", "C18-B1-bind-by-id", binding_obligation(), where),
              ("C18-B1/Graph._initialize/unknown-id-raises", "C18-B1-bind-by-id", unknown_id_obligation(), where),
              ("C18-B1/Graph._initialize/prebound-edges-rebound", "C18-B1-bind-by-id", prebound_obligation(), where),
              ("C18-B1/Graph._initialize/unknown-id-raises[any-list-size]", "C18-B1-bind-by-id", unknown_id_any_size_obligation(), where),
              ("C18-B1/Graph._initialize/independent-of-earlier-graphs", "C18-B1-bind-by-id", history_obligation(), where),
              ("C18-B1/Graph._initialize/integer-ids-0..3", "C18-B1-bind-by-id", concrete_ids_obligation([0, 1, 2, 3]), where),
              ("C18-B1/Graph._initialize/integer-ids-sparse", "C18-B1-bind-by-id", concrete_ids_obligation([-5, 0, 7, 10 ** 12]), where),
              ("C18-B1/Graph._initialize/integer-ids-contiguous-from--1", "C18-B1-bind-by-id", concrete_ids_obligation([-1, 0, 1, 2]), where),
              ("C18-B1/Graph._initialize/integer-ids-all-negative", "C18-B1-bind-by-id", concrete_ids_obligation([-3, -2, -1]), where),
              ("C18-B1/Graph._initialize/integer-ids-contiguous-from-1", "C18-B1-bind-by-id", concrete_ids_obligation([1, 2, 3]), where),
              ("C18-B1/Graph._initialize/invalid-edge-raises[False]", "C18-B1-validity-asserted", invalid_edge_obligation(False), where),
              ("C18-B1/Graph._initialize/invalid-edge-raises[None]", "C18-B1-validity-asserted", invalid_edge_obligation(None), where)]
    btasks = [t for t in btasks if run_.wants(t[0])]
    from ..algebra import record
    record(run_, btasks, run_tasks(pkg, btasks))
