"""C14 -- .g2o import is faithful to the file (readers vs. the checker's vocabulary table, on the text model)."""
import ast

from .. import poly
from ..poly import Poly
from ..interp import ga, gp, sa, Arr, Pose, Obj, ClassRef, VFile, PathRaise, PI
from ..algebra import custom_edge, run_obligation, run_tasks, record, ObFail, CDIM
from ..g2o import VOCABULARY, eq_poly, same_vertex, same_edge, same_param, mark_int, no_int_through_float
from .c13 import read_line, READERS
from .c18 import distinct_names_hook

LEVEL = "other"

SEPARATORS = {
    "single-space": (" ", "\n"),
    "runs-and-tabs-crlf": ("  \t ", " \r\n"),
}


def tokens(it, prefix, n, unit_quat=None):
    vals = [Poly.var("%s%d" % (prefix, i)) for i in range(n)]
    if unit_quat is not None:
        poly.unit_quaternion(tuple("%s%d" % (prefix, i) for i in unit_quat))
    return vals


def make_line(it, tag, vals, sep, end):
    return tag + " " + sep.join(it.placeholder(v) for v in vals) + end


def expected_info(vals, n):
    """upper-triangular row-major tokens -> symmetric matrix"""
    idx = {}
    k = 0
    for i in range(n):
        for j in range(i, n):
            idx[(i, j)] = vals[k]
            k += 1
    return [[idx[(min(i, j), max(i, j))] for j in range(n)] for i in range(n)]


def check_pose(it, p, cls, comps, what, allow_neg=False):
    if not isinstance(p, Pose) or p.cls != cls or len(p.data) != len(comps):
        raise ObFail("%s is %r, expected a %s built from %d numbers of the line" % (what, p, cls, len(comps)))
    for i, (a, b) in enumerate(zip(p.data, comps)):
        if cls == "PoseSE2" and i == 2:
            d = a - b
            if not any(it.known_zero(d - PI() * 2 * k) for k in range(-3, 4)):
                raise ObFail("%s: angle is not the number on the line (mod 2pi)" % what)
            continue
        if cls == "PoseSE3" and i >= 3 and allow_neg:
            continue
        if not eq_poly(it, a, b):
            raise ObFail("%s: component %d is %s, the line says %s" % (what, i, a.short(40) if isinstance(a, Poly) else a, b.short(40)))
    if cls == "PoseSE3" and allow_neg:
        qa, qb = p.data[3:], comps[3:]
        if not (all(eq_poly(it, a, b) for a, b in zip(qa, qb)) or all(eq_poly(it, a, -b) for a, b in zip(qa, qb))):
            raise ObFail("%s: quaternion is not the (renormalised) quaternion on the line" % what)


def reader_obligation(tag, sepname):
    spec = VOCABULARY[tag]
    sep, end = SEPARATORS[sepname]

    def fn(it):
        kind = spec[0]
        params = {}
        if kind == "vertex":
            _, cls, n = spec
            vals = tokens(it, "t", 1 + n, unit_quat=(4, 5, 6, 7) if cls == "PoseSE3" else None)
            mark_int(it, vals[0])
            line = make_line(it, tag, vals, sep, end)
            rcls, obj = read_line(it, line, expect="Vertex")
            if not eq_poly(it, ga(obj, "id", None), vals[0]):
                raise ObFail("vertex id is not the first number of the line")
            check_pose(it, ga(obj, "pose", None), cls, vals[1:], "%s pose" % tag)
            if ga(obj, "fixed", None) not in (False,):
                raise ObFail("imported vertex is marked fixed")
        elif kind == "odometry":
            _, cls, npose, ninfo = spec
            nt = ninfo * (ninfo + 1) // 2
            vals = tokens(it, "t", 2 + npose + nt, unit_quat=(5, 6, 7, 8) if cls == "PoseSE3" else None)
            mark_int(it, vals[0], vals[1])
            line = make_line(it, tag, vals, sep, end)
            rcls, obj = read_line(it, line, params, expect="EdgeOdometry")
            check_edge_common(it, obj, vals, 2, cls, npose, ninfo, tag)
        elif kind == "landmark":
            _, cls, npose, ninfo, ptag = spec
            nt = ninfo * (ninfo + 1) // 2
            nid = 3 if ptag else 2
            vals = tokens(it, "t", nid + npose + nt)
            mark_int(it, *vals[:nid])
            offset = None
            if ptag:
                offset = Pose("PoseSE3", [Poly.var("off%d" % i) for i in range(7)])
                par = it.construct("G2OParameterSE3Offset", [(ptag, vals[2]), offset])
                params[it.hashable((ptag, vals[2]), None)] = par
                other = it.construct("G2OParameterSE3Offset", [(ptag, Poly.var("another_id")), Pose("PoseSE3", [Poly.var("x%d" % i) for i in range(7)])])
                params[it.hashable((ptag, Poly.var("another_id")), None)] = other
            line = make_line(it, tag, vals, sep, end)
            rcls, obj = read_line(it, line, params, expect="EdgeLandmark")
            check_edge_common(it, obj, vals, nid, cls, npose, ninfo, tag)
            off = ga(obj, "offset", None)
            if ptag:
                if off is not offset:
                    raise ObFail("%s: the offset is not the value of the parameter whose id is on the line" % tag)
                if not eq_poly(it, ga(obj, "offset_id", None), vals[2]):
                    raise ObFail("%s: offset_id is not the parameter id on the line" % tag)
            else:
                ident = it.call_classmethod(ClassRef("PoseSE2"), "identity", [])
                check_pose(it, off, "PoseSE2", ident.data, "%s offset (the format has none: identity expected)" % tag)
        else:
            _, cls, n = spec
            vals = tokens(it, "t", 1 + n, unit_quat=(4, 5, 6, 7) if cls == "PoseSE3" else None)
            mark_int(it, vals[0])
            line = make_line(it, tag, vals, sep, end)
            rcls, obj = read_line(it, line)
            key = ga(obj, "key", None)
            if not (isinstance(key, tuple) and len(key) == 2 and key[0] == tag and eq_poly(it, key[1], vals[0])):
                raise ObFail("%s: key is %r, expected (%r, <id on the line>)" % (tag, key, tag))
            check_pose(it, ga(obj, "value", None), cls, vals[1:], "%s value" % tag)
        return dict(tag=tag, separators=sepname, numbers=len(vals))
    return lambda pkg: run_obligation(pkg, fn)


def check_edge_common(it, obj, vals, nid, cls, npose, ninfo, tag):
    ids = ga(obj, "vertex_ids", None)
    if not isinstance(ids, list) or len(ids) != 2 or not all(eq_poly(it, a, b) for a, b in zip(ids, vals[:2])):
        raise ObFail("%s: vertex_ids are not the first two numbers of the line, in order" % tag)
    check_pose(it, ga(obj, "estimate", None), cls, vals[nid:nid + npose], "%s estimate" % tag, allow_neg=True)
    info = ga(obj, "information", None)
    exp = expected_info(vals[nid + npose:], ninfo)
    if not isinstance(info, Arr) or info.shape != (ninfo, ninfo):
        raise ObFail("%s: information has shape %s, expected %dx%d" % (tag, getattr(info, "shape", None), ninfo, ninfo))
    for i in range(ninfo):
        for j in range(ninfo):
            if not eq_poly(it, info.data[i][j], exp[i][j]):
                raise ObFail("%s: information[%d,%d] is not the upper-triangular entry (%d,%d) of the line" % (tag, i, j, min(i, j), max(i, j)))
    if ga(obj, "vertices", None) is not None:
        raise ObFail("%s: a freshly read edge already has vertices" % tag)


def file_obligation(variant, final_newline=True):
    """P4: one object per supported line, in file order; blank and unrecognised lines are skipped (with a warning).  With
    final_newline=False the last line of the file has no line terminator (a file cut off by an editor / `printf`)."""
    def fn(it):
        it.vfs = {}
        sep, end = SEPARATORS["runs-and-tabs-crlf" if variant == "messy" else "single-space"]
        lines, exp_v, exp_e = [], [], []
        counter = [0]

        def toks(n, unit=None):
            base = counter[0]
            counter[0] += n
            if unit:
                poly.unit_quaternion(tuple("f%d" % (base + i) for i in unit))
            return [Poly.var("f%d" % (base + i)) for i in range(n)]

        def vtoks(n, unit=None):
            """tokens of a vertex / parameter line: the first one is an id (an opaque, distinct name)"""
            t = toks(n, unit)
            t[0] = Poly.var("id%d" % counter[0])
            mark_int(it, t[0])
            return t

        def junk(s):
            lines.append(s)
        junk_count = 0
        pvals = vtoks(8, unit=(4, 5, 6, 7))
        p2vals = vtoks(4)
        v_se2a, v_xy, v_se3, v_xyz, v_se2b = vtoks(4), vtoks(3), vtoks(8, unit=(4, 5, 6, 7)), vtoks(4), vtoks(4)
        v_lonely1, v_lonely2 = vtoks(3), vtoks(8, unit=(4, 5, 6, 7))       # vertices that no edge refers to
        half = [v_se2b[0], v_se2a[0]] + toks(3 + 6)      # an edge that the file lists twice (two identical half-information edges)
        # the same parameter id is defined a second time further down: an edge is given the definition in force *at its line*
        pvals2 = [pvals[0]] + toks(7, unit=(3, 4, 5, 6))
        seq = [("PARAMS_SE3OFFSET", pvals), ("junk", "# a comment line" + end), ("junk", "# another comment line" + end), ("VERTEX_SE2", v_se2a), ("blank", end),
               ("VERTEX_XY", v_xy), ("junk", "FIX 0" + end), ("VERTEX_SE3:QUAT", v_se3), ("blank", "   " + end), ("VERTEX_XY", v_lonely1),
               ("VERTEX_TRACKXYZ", v_xyz), ("EDGE_SE2", [v_se2b[0], v_se2a[0]] + toks(3 + 6)), ("junk", "VERTEX_SE2_EXTRA 1 2 3 4" + end), ("junk", "FIX 7" + end),
               ("EDGE_SE3_TRACKXYZ", [v_se3[0], v_xyz[0], pvals[0]] + toks(3 + 6)), ("PARAMS_SE2OFFSET", p2vals),
               ("EDGE_SE2_XY", [v_se2a[0], v_xy[0]] + toks(2 + 3)), ("junk", "EDGE_SE2X 1 2" + end),
               ("EDGE_SE3:QUAT", [v_se3[0], v_se3[0]] + toks(7 + 21, unit=(3, 4, 5, 6))), ("VERTEX_SE2", v_se2b), ("EDGE_SE2", half),
               ("VERTEX_SE3:QUAT", v_lonely2), ("EDGE_SE2", half), ("PARAMS_SE3OFFSET", pvals2),
               ("EDGE_SE3_TRACKXYZ", [v_se3[0], v_xyz[0], pvals[0]] + toks(3 + 6))]
        order = []
        for tag, vals in seq:
            if tag == "junk":
                lines.append(vals)
                junk_count += 1
                continue
            if tag == "blank":
                lines.append(vals)
                continue
            lines.append(make_line(it, tag, vals, sep, end))
            order.append((tag, vals))
        if not final_newline and lines[-1].endswith(end):
            lines[-1] = lines[-1][:-len(end)]
        it.vfs["in.g2o"] = VFile("in.g2o", lines)
        g = it.call_classmethod(ClassRef("Graph"), "from_g2o", ["in.g2o"])
        vs, es, ps = gp(g, "_vertices"), gp(g, "_edges"), gp(g, "_g2o_params")
        want_v = [(t, v) for t, v in order if t.startswith("VERTEX")]
        want_e = [(t, v) for t, v in order if t.startswith("EDGE")]
        if len(vs) != len(want_v):
            raise ObFail("%d vertex lines in the file, %d vertices in the graph" % (len(want_v), len(vs)))
        if len(es) != len(want_e):
            raise ObFail("%d edge lines in the file, %d edges in the graph" % (len(want_e), len(es)))
        for k, ((tag, vals), v) in enumerate(zip(want_v, vs)):
            if not eq_poly(it, ga(v, "id", None), vals[0]):
                raise ObFail("vertex #%d of the graph is not the %d-th vertex line of the file" % (k, k))
            check_pose(it, ga(v, "pose", None), VOCABULARY[tag][1], vals[1:], "vertex #%d (%s)" % (k, tag))
        for k, ((tag, vals), e) in enumerate(zip(want_e, es)):
            ids = ga(e, "vertex_ids", None)
            if not all(eq_poly(it, a, b) for a, b in zip(ids, vals[:2])):
                raise ObFail("edge #%d of the graph is not the %d-th edge line of the file" % (k, k))
            want_cls = "EdgeOdometry" if VOCABULARY[tag][0] == "odometry" else "EdgeLandmark"
            if e.cls != want_cls:
                raise ObFail("edge #%d (%s) is read as %s" % (k, tag, e.cls))
        if not isinstance(ps, dict) or len(ps) != 2:
            raise ObFail("2 parameter lines in the file, %r parameters in the graph" % (len(ps) if isinstance(ps, dict) else ps))
        lm = [e for e in es if e.cls == "EdgeLandmark" and isinstance(ga(e, "offset", None), Pose) and ga(e, "offset").cls == "PoseSE3"]
        if len(lm) != 2:
            raise ObFail("2 SE(3) landmark edge lines in the file, %d such edges in the graph" % len(lm))
        if ga(lm[1], "offset") is not ga(ps[it.hashable(("PARAMS_SE3OFFSET", pvals[0]), None)], "value"):
            raise ObFail("the SE(3) landmark edge is not linked to the offset parameter it names")
        for e_, pv, what in ((lm[0], pvals, "first"), (lm[1], pvals2, "second")):
            off = ga(e_, "offset")
            if not all(eq_poly(it, a, b) for a, b in zip(off.data[:3], pv[1:4])):
                raise ObFail("the landmark edge that follows the %s definition of its offset parameter does not carry that definition's "
                             "offset (a parameter id defined twice: each edge gets the definition in force at its own line)" % what)
        warnings = [e for e in it.events if e[0] == "log"]
        if len(warnings) != junk_count:
            raise ObFail("%d unrecognised lines, %d warnings" % (junk_count, len(warnings)))
        no_int_through_float(it)
        return dict(lines=len(lines), vertices=len(vs), edges=len(es), parameters=len(ps), junk=junk_count, variant=variant)
    return lambda pkg: run_obligation(pkg, fn, hook=distinct_names_hook, max_paths=256)


def custom_types_obligation():
    """Registered custom edge types: each is consulted for a line (not only the first one), they are tried before the built-ins,
    and each accepted line yields exactly one edge, in file order."""
    def fn(it):
        it.vfs = {}
        ida, idb = Poly.var("ida"), Poly.var("idb")
        mark_int(it, ida, idb)
        made = []

        def make_type(tag):
            t = Obj("CustomEdgeType[%s]" % tag, __subclass_of__=["BaseEdge"])

            def from_g2o(line, params=None):
                if isinstance(line, str) and line.startswith(tag + " "):
                    e = custom_edge(it, [ida, idb], None, None, None, custom_tag=tag)
                    e.stubs["is_valid"] = lambda: True
                    made.append(e)
                    return e
                return None
            t.stubs["from_g2o"] = from_g2o
            return t
        types = [make_type("CUSTOM_A"), make_type("CUSTOM_B"), make_type("EDGE_SE2")]   # the third one shadows a built-in tag
        va = [ida] + [Poly.var("a%d" % i) for i in range(3)]
        vb = [idb] + [Poly.var("b%d" % i) for i in range(3)]
        lines = [make_line(it, "VERTEX_SE2", va, " ", "\n"), make_line(it, "VERTEX_SE2", vb, " ", "\n"),
                 "CUSTOM_B 1 2\n", "CUSTOM_A 3 4\n", "CUSTOM_B 5 6\n",
                 make_line(it, "EDGE_SE2", [ida, idb] + [Poly.var("w%d" % i) for i in range(9)], " ", "\n")]
        it.vfs["c.g2o"] = VFile("c.g2o", lines)
        g = it.call_classmethod(ClassRef("Graph"), "from_g2o", ["c.g2o"], dict(custom_edge_types=types))
        es = gp(g, "_edges")
        tags = [ga(e, "custom_tag", None) for e in es]
        want = ["CUSTOM_B", "CUSTOM_A", "CUSTOM_B", "EDGE_SE2"]
        if tags != want:
            raise ObFail("lines of registered custom edge types %s were read as %s (each registered type must be consulted, in file order, "
                         "before the built-in readers)" % (want, tags))
        warnings = [e for e in it.events if e[0] == "log"]
        if warnings:
            raise ObFail("%d supported lines were reported as unsupported" % len(warnings))
        # custom and built-in edge lines interleaved: one edge list, in file order
        odo = lambda k: make_line(it, "EDGE_SE2", [ida, idb] + [Poly.var("u%d_%d" % (k, i)) for i in range(9)], " ", "\n")
        lines2 = lines[:2] + ["CUSTOM_B 1 2\n", odo(0), "CUSTOM_A 3 4\n", odo(1), "CUSTOM_B 5 6\n"]
        it.vfs["d.g2o"] = VFile("d.g2o", lines2)
        g2 = it.call_classmethod(ClassRef("Graph"), "from_g2o", ["d.g2o"], dict(custom_edge_types=types[:2]))
        kinds = [ga(e, "custom_tag", None) if isinstance(e, Obj) and "custom_tag" in e.fields else it.type_of(e, None).name for e in gp(g2, "_edges")]
        want2 = ["CUSTOM_B", "EdgeOdometry", "CUSTOM_A", "EdgeOdometry", "CUSTOM_B"]
        if kinds != want2:
            raise ObFail("custom and built-in edge lines interleaved in the file %s come out as %s (one edge per line, in file order)" % (want2, kinds))
        return dict(custom_types=3, edges=len(es) + len(kinds))
    return lambda pkg: run_obligation(pkg, fn, hook=distinct_names_hook)


def loaders_obligation():
    """P6: every function of load.py returns Graph.from_g2o(<its argument>)."""
    def fn(it):
        it.vfs = {}
        vals = [Poly.var("t%d" % i) for i in range(4)]
        vals2 = [Poly.var("u%d" % i) for i in range(4)]
        evals = [vals[0], vals2[0]] + [Poly.var("w%d" % i) for i in range(9)]
        lines = [make_line(it, "VERTEX_SE2", vals, " ", "\n"), make_line(it, "VERTEX_SE2", vals2, " ", "\n"),
                 make_line(it, "EDGE_SE2", evals, " ", "\n")]
        it.vfs["a.g2o"] = VFile("a.g2o", lines)
        ref = it.call_classmethod(ClassRef("Graph"), "from_g2o", ["a.g2o"])
        loaders = sorted(n for n, f in it.pkg.funcs.items() if it.pkg.func_module[n].endswith("load.py") and not n.startswith("_")
                         and len(f.args.args) - len(f.args.defaults) == 1)
        if len(loaders) < 5:
            raise ObFail("only %d loader wrappers found in load.py" % len(loaders))
        for name in loaders:
            g = it.call_function(it.pkg.funcs[name], ["a.g2o"])
            if not isinstance(g, Obj) or g.cls != "Graph":
                raise ObFail("%s returns %r" % (name, g))
            for a, b in zip(gp(g, "_vertices"), gp(ref, "_vertices")):
                same_vertex(it, a, b, "%s vs Graph.from_g2o" % name)
            for a, b in zip(gp(g, "_edges"), gp(ref, "_edges")):
                same_edge(it, a, b, "%s vs Graph.from_g2o" % name)
            if len(gp(g, "_vertices")) != 2 or len(gp(g, "_edges")) != 1:
                raise ObFail("%s loads %d vertices / %d edges from a file with 2 / 1" % (name, len(gp(g, "_vertices")), len(gp(g, "_edges"))))
        return dict(loaders=loaders)
    return lambda pkg: run_obligation(pkg, fn)


def prefix_rule(run_, pkg):
    """P1 (structural): the tag literals used by the readers' startswith tests end in one space, none is a prefix of another,
    and each equals the literal whose length is sliced off."""
    lits = []
    fn_of = dict(pkg.all_functions())
    for qual, fn in pkg.all_functions():
        if fn.name != "from_g2o":
            continue
        for node in ast.walk(fn):
            if isinstance(node, ast.Call) and isinstance(node.func, ast.Attribute) and node.func.attr == "startswith" and node.args and \
                    isinstance(node.args[0], ast.Constant) and isinstance(node.args[0].value, str):
                lits.append((node.args[0].value, qual, node))
    # (no floor: readers may be table-driven; unambiguity itself is decided by the `exactly one reader accepts` obligations)
    for lit, qual, node in lits:
        w = "%s:%d" % (fn_of[qual]._gs_module, node.lineno)
        run_.check(lit.endswith(" ") and not lit[:-1].endswith(" "), "C14-P1/%s/tag-ends-with-space" % lit.strip(), "C14-P1-unambiguous-dispatch",
                   "reader tag literal %r does not end in exactly one space: it also matches longer tags" % lit, where=w)
        clash = [o for o, _, _ in lits if o != lit and (o.startswith(lit) or lit.startswith(o))]
        run_.check(not clash, "C14-P1/%s/prefix-free" % lit.strip(), "C14-P1-unambiguous-dispatch",
                   "reader tag literal %r is a prefix of / has as prefix %r" % (lit, clash[:1]), where=w)




def run(run_, pkg, tier):
    run_.explanation = ("For each of the ten supported line types the repo's readers are translated on the text model for a generic "
                        "line `TAG n0 n1 ...` (numbers are opaque tokens; separators: single spaces, and runs of spaces/tabs with CRLF): "
                        "exactly one reader accepts the line and the object carries exactly the numbers of the checker's vocabulary "
                        "table -- id(s), pose / measurement components in order, upper-triangular information expanded to the symmetric "
                        "matrix, landmark offset resolved through the parameter id on the line.  Graph.from_g2o is translated on virtual "
                        "files mixing all line types with blank, comment and junk lines: one object per supported line in file order, "
                        "one warning per unrecognised line.  All loader wrappers of load.py equal Graph.from_g2o.  Structural: reader tag "
                        "literals end in one space and are prefix-free.")
    run_.trusted_base = ["python str.split()/startswith()/float()/int() semantics (applied concretely to the text around the tokens)",
                         "gsverif.interp semantics incl. the text model"]
    run_.assumptions = ["custom edge types are tried before the built-ins by design (noted, not flagged)"]
    tasks = []
    for tag in VOCABULARY:
        kind = VOCABULARY[tag][0]
        cls = {"vertex": "Vertex", "odometry": "EdgeOdometry", "landmark": "EdgeLandmark"}.get(kind) or \
            ("G2OParameterSE2Offset" if "SE2" in tag else "G2OParameterSE3Offset")
        anchor = pkg.method(cls, "from_g2o")
        for sepname in SEPARATORS:
            key = "C14-P23/%s/%s" % (tag, sepname)
            if run_.wants(key):
                tasks.append((key, "C14-P23-reader-slots", reader_obligation(tag, sepname), "%s:%d" % (anchor._gs_module, anchor.lineno)))
    gfn = pkg.method("Graph", "from_g2o")
    for variant in ("plain", "messy"):
        key = "C14-P4/Graph.from_g2o/%s" % variant
        if run_.wants(key):
            tasks.append((key, "C14-P4-one-object-per-line", file_obligation(variant), "%s:%d" % (gfn._gs_module, gfn.lineno)))
    for variant in ("plain", "messy"):
        key = "C14-P4/Graph.from_g2o/%s/no-final-newline" % variant
        if run_.wants(key):
            tasks.append((key, "C14-P4-one-object-per-line", file_obligation(variant, final_newline=False), "%s:%d" % (gfn._gs_module, gfn.lineno)))
    key = "C14-P4/Graph.from_g2o/custom-edge-types"
    if run_.wants(key):
        tasks.append((key, "C14-P4-custom-edge-types", custom_types_obligation(), "%s:%d" % (gfn._gs_module, gfn.lineno)))
    key = "C14-P6/load.py"
    if run_.wants(key):
        lf = pkg.funcs.get("load_g2o")
        if lf is None:
            run_.error("anchor vanished: load.load_g2o")
        else:
            tasks.append((key, "C14-P6-sibling-loaders", loaders_obligation(), "%s:%d" % (lf._gs_module, lf.lineno)))
    record(run_, tasks, run_tasks(pkg, tasks))
    run_.floor("C14 obligations", len(tasks) if run_.only is None else 24, 24)
    if run_.only is None:
        prefix_rule(run_, pkg)
