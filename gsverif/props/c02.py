"""C02 -- edge errors and chi^2 implement the documented measurement model (vs. the checker's reference model)."""
from ..poly import Poly
from ..interp import ga, sa, Arr, Pose, Obj, sym_vec, sym_mat, PI, sym_pose
from ..algebra import (CONFIGS, CDIM, cfg_name, run_obligation, run_tasks, record, ObFail, require_same, nterms, sym_config,
                       make_edge, ref_R_t, ref_rot, ham, conj, matvec, transpose, matmul, no_bad_wrap)

LEVEL = "proof"


def ref_compose(it, a, b):
    """(R, t, rot) of a*b in the reference model, rot = angle or quaternion or None."""
    Ra, ta = ref_R_t(it, a)
    Rb, tb = ref_R_t(it, b)
    return matmul(Ra, Rb), [x + y for x, y in zip(matvec(Ra, tb), ta)]


def rot_of(p):
    if p.cls == "PoseSE2":
        return ("angle", p.data[2])
    if p.cls == "PoseSE3":
        return ("quat", list(p.data[3:7]))
    return ("none", None)


def angle_same(a, b):
    d = a - b
    two_pi = PI() * 2
    return any(d == two_pi * k for k in range(-4, 5))


def odometry_obligation(cfg):
    def fn(it):
        p1, p2, z, _ = sym_config(cfg, unit=True)
        e = make_edge(it, cfg, p1, p2, z, None)
        got = it.call_method(e, "calc_error", [])
        R1, t1 = ref_R_t(it, p1)
        R2, t2 = ref_R_t(it, p2)
        Rz, tz = ref_R_t(it, z)
        # rel = M(p1)^-1 M(p2)
        R1t = transpose(R1)
        Rrel = matmul(R1t, R2)
        trel = matvec(R1t, [a - b for a, b in zip(t2, t1)])
        # error pose = rel^-1 * z ; compact form = [translation ; rotation compact]
        et = matvec(transpose(Rrel), [a - b for a, b in zip(tz, trel)])
        kind, _ = rot_of(z)
        if kind == "none":
            exp = et
            alt = None
        elif kind == "angle":
            exp = et + [z.data[2] - (p2.data[2] - p1.data[2])]
            alt = None
        else:
            qrel = ham(conj(list(p1.data[3:7])), list(p2.data[3:7]))
            qe = ham(conj(qrel), list(z.data[3:7]))
            exp = et + qe[:3]
            alt = et + [-x for x in qe[:3]]
        if not isinstance(got, Arr) or got.ndim != 1 or len(got.data) != len(exp):
            raise ObFail("calc_error returns %r, expected a vector of length %d" % (got, len(exp)))
        n = len(et)
        for i in range(n):
            if got.data[i] != exp[i]:
                raise ObFail("translational error component %d differs from R_rel^T (t_z - t_rel) by %s" % (i, (got.data[i] - exp[i]).short(200)))
        if kind == "angle":
            if not angle_same(got.data[2], exp[2]):
                raise ObFail("angular error differs from theta_z - (theta_2 - theta_1) by %s" % (got.data[2] - exp[2]).short(200))
        elif kind == "quat":
            ok = all(g == x for g, x in zip(got.data[n:], exp[n:])) or all(g == x for g, x in zip(got.data[n:], alt[n:]))
            if not ok:
                k = [i for i in range(n, len(exp)) if got.data[i] != exp[i]][0]
                raise ObFail("rotational error component %d differs from vec(conj(q_rel) (x) q_z) by %s" % (k, (got.data[k] - exp[k]).short(200)))
        no_bad_wrap(it)
        return dict(terms=nterms(got), components=len(exp))
    return lambda pkg: run_obligation(pkg, fn)


def principal_angle_obligation():
    """chi^2 squares the angular error, so the error angle has to be the *principal* value of theta_z - (theta_2 - theta_1): the last
    thing that happens to that component must be the reduction to [-pi, pi) (a modulo-2*pi wrap or arctan2), whatever range the
    operands' angles were given in.  Marker analysis: every wrap adds its own marker; the result must be `value + marker_k` for the
    value that went into wrap k, i.e. the untouched output of a wrap."""
    cfg = [c for c in CONFIGS if c[0] == "EdgeOdometry" and c[1] == "PoseSE2"][0]

    def fn(it):
        it.mark_wraps = "numbered"
        p1, p2, z, _ = sym_config(cfg, unit=True)
        e = make_edge(it, cfg, p1, p2, z, None)
        got = it.call_method(e, "calc_error", [])
        if not isinstance(got, Arr) or len(got.data) != 3:
            raise ObFail("calc_error of an SE(2) odometry edge returns %r" % (got,))
        ang = got.data[2]
        if hasattr(ang, "modulus"):
            return dict(form="wrapped value")           # still a wrapped value: nothing was done to it after the wrap
        for name, before in it.wraps:
            if isinstance(ang, Poly) and ang == before + Poly.var(name):
                return dict(form="output of wrap %s" % name, wraps=len(it.wraps))
        raise ObFail("the angular component of the SE(2) odometry error is not the output of an angle normalisation: it is congruent "
                     "to theta_z - (theta_2 - theta_1) but not reduced to [-pi, pi) on every path (chi^2 squares it, so a multiple of "
                     "2*pi matters)%s" % ((" on the path [%s]" % " and ".join(it.conds)[:300]) if it.conds else ""))
    return lambda pkg: run_obligation(pkg, fn)


def history_obligation(cfg):
    """The error and chi^2 are functions of the edge's *current* measurement, offset and vertex poses: after the caller assigns
    edge.estimate / edge.offset / vertex.pose (and after earlier evaluations), they answer for the new values."""
    def fn(it):
        p1, p2, z, off = sym_config(cfg, unit=True)
        q1, q2, zz, off2 = sym_config(cfg, unit=True, names=("q1", "q2", "zz", "off2"))
        from ..assembly import sym_symmetric
        W = sym_symmetric("W", CDIM[cfg[3]])
        e = make_edge(it, cfg, q1, q2, zz, off2, info=W)
        e_first = it.call_method(e, "calc_error", [])
        it.call_method(e, "calc_chi2", [])
        # an export in between is a query too: the error afterwards is the error before
        from ..interp import PathRaise
        try:
            it.call_method(e, "to_g2o", [])
        except PathRaise:
            pass                      # kinds the format cannot express are refused (C13)
        e_again = it.call_method(e, "calc_error", [])
        if isinstance(e_first, Arr) and isinstance(e_again, Arr) and not e_first.same(e_again):
            raise ObFail("%s: calc_error changes after the edge was exported with to_g2o (the export modified the edge)" % cfg_name(cfg))
        sa(e, "estimate", z)
        if off is not None:
            sa(e, "offset", off)
        for v, p in zip(ga(e, "vertices"), (p1, p2)):
            sa(v, "pose", p)
        got = it.call_method(e, "calc_error", [])
        ref = make_edge(it, cfg, Pose(p1.cls, list(p1.data)), Pose(p2.cls, list(p2.data)), Pose(z.cls, list(z.data)),
                        Pose(off.cls, list(off.data)) if off is not None else None, info=W)
        exp = it.call_method(ref, "calc_error", [])
        if cfg[3] == "PoseSE2" and isinstance(got, Arr) and isinstance(exp, Arr) and len(got.data) == 3 == len(exp.data):
            if not angle_same(got.data[2], exp.data[2]):
                raise ObFail("after re-assigning the measurement / vertex poses the angular error is that of the old values")
            got, exp = Arr(got.data[:2], 1), Arr(exp.data[:2], 1)
        require_same(got, exp, "%s: after the caller assigned a new measurement%s and new vertex poses, calc_error still answers for "
                               "(some of) the old values" % (cfg_name(cfg), " / offset" if off is not None else ""))
        c1, c2 = it.call_method(e, "calc_chi2", []), it.call_method(ref, "calc_chi2", [])
        if cfg[3] != "PoseSE2":
            require_same(c1, c2, "%s: after re-assignment calc_chi2 answers for the old values" % cfg_name(cfg))
        no_bad_wrap(it)
        return dict(terms=nterms(got))
    return lambda pkg: run_obligation(pkg, fn)


def landmark_obligation(cfg):
    def fn(it):
        p1, p2, z, off = sym_config(cfg, unit=True)
        e = make_edge(it, cfg, p1, p2, z, off)
        got = it.call_method(e, "calc_error", [])
        Rs, ts = ref_compose(it, p1, off)
        local = matvec(transpose(Rs), [a - b for a, b in zip(list(p2.data), ts)])
        exp = [a - b for a, b in zip(local, list(z.data))]
        require_same(got, Arr(exp, 1), "landmark error is not R(p1 off)^T (l - t(p1 off)) - z")
        no_bad_wrap(it)
        return dict(terms=nterms(got), components=len(exp))
    return lambda pkg: run_obligation(pkg, fn)


def generic_instance(it, cls, W):
    """An instance of edge class `cls` whose error is supplied by the harness: built by the class's own constructor when that is
    BaseEdge's (user-defined edge kinds), otherwise an object of the class with BaseEdge.__init__ applied (the chi^2 code is
    inherited and only reads what that constructor stores)."""
    from ..algebra import custom_edge
    ids = [Poly.const(100), Poly.const(107)]
    init = it.pkg.lookup(cls, "__init__")
    if init is None or init == it.pkg.lookup("BaseEdge", "__init__"):
        return custom_edge(it, ids, W, sym_vec("zc", 2), None, cls=cls)
    fn = init[1][0]
    known = dict(vertex_ids=ids, information=W)
    n_def = len(fn.args.defaults)
    params = [a.arg for a in fn.args.args[1:]]
    required = params[:len(params) - n_def] if n_def else params
    return it.construct(cls, [], {k: known.get(k) for k in required})


def chi2_obligation(cls, n):
    def fn(it):
        e = it.pkg  # noqa
        err = sym_vec("e", n)
        W = sym_mat("W", n, n)   # generic full matrix: n*n independent atoms (cross terms, asymmetry all visible)
        edge = generic_instance(it, cls, W)
        edge.stubs["calc_error"] = lambda: err
        got = it.call_method(edge, "calc_chi2", [])
        exp = Poly()
        for i in range(n):
            for j in range(n):
                exp = exp + err.data[i] * W.data[i][j] * err.data[j]
        require_same(got, exp, "%s.calc_chi2 is not e^T Omega e" % cls)
        wn = [v for v in got.variables() if v.startswith("W[")]
        if got.degree_in(wn) != 1:
            raise ObFail("chi^2 is not linear in the information matrix")
        return dict(terms=nterms(got), n=n)
    return lambda pkg: run_obligation(pkg, fn)


def scalar_chi2_obligation(cls):
    def fn(it):
        err = Poly.var("e")
        W = Poly.var("W")
        edge = generic_instance(it, cls, W)
        edge.stubs["calc_error"] = lambda: err
        got = it.call_method(edge, "calc_chi2", [])
        require_same(got, err * W * err, "%s.calc_chi2 (scalar error) is not e * Omega * e" % cls)
        return dict(terms=1, n=1)
    return lambda pkg: run_obligation(pkg, fn)


def graph_sum_obligation(k, directed=False):
    def fn(it):
        from ..algebra import custom_edge
        from ..interp import sym_pose
        # a chain built by the real constructors: vertices 0..k, edge i joins i and i+1
        # the first two vertices are fixed: chi^2 is the sum over *all* edges, also those that join two fixed vertices
        verts = [it.construct("Vertex", [Poly.const(j), sym_pose("PoseR2", "x%d" % j)], dict(fixed=(j < 2))) for j in range(k + 1)]
        edges = []
        for i in range(k):
            o = custom_edge(it, [Poly.const(i), Poly.const(i + 1)], None, None, None)
            o.stubs["calc_chi2"] = (lambda i=i: Poly.var("chi2_%d" % i))
            o.stubs["is_valid"] = lambda: True
            edges.append(o)
        g = it.construct("Graph", [edges, verts])
        got = it.call_method(g, "calc_chi2", [])
        exp = sum((Poly.var("chi2_%d" % i) for i in range(k)), Poly())
        require_same(got, exp, "Graph.calc_chi2 over %d edges is not the sum of the edges' chi^2" % k)
        cached = ga(g, "_chi2", None)
        if cached is not None and (not isinstance(cached, Poly) or cached != exp):
            raise ObFail("Graph.calc_chi2 stores something else than the returned value in _chi2")
        return dict(edges=k)
    return lambda pkg: run_obligation(pkg, fn, allow_size_thresholds=directed)


def graph_parallel_sum_obligation(k):
    """A real Graph (built by its constructor) with k edges between the *same* two vertices: chi^2 is the sum over all k of them."""
    def fn(it):
        from ..algebra import custom_edge
        from ..interp import sym_pose
        ids = [Poly.const(100), Poly.const(107)]
        verts = [it.construct("Vertex", [ids[j], sym_pose("PoseR2", "x%d" % j)]) for j in range(2)]
        edges = []
        for i in range(k):
            e = custom_edge(it, list(ids) if i % 2 == 0 or k < 3 else list(reversed(ids)), None, None, None)
            e.stubs["calc_chi2"] = (lambda i=i: Poly.var("chi2_%d" % i))
            e.stubs["is_valid"] = lambda: True
            edges.append(e)
        g = it.construct("Graph", [edges, verts])
        got = it.call_method(g, "calc_chi2", [])
        exp = sum((Poly.var("chi2_%d" % i) for i in range(k)), Poly())
        require_same(got, exp, "Graph.calc_chi2 over %d parallel edges (same vertex ids) is not the sum of all of them" % k)
        return dict(edges=k, parallel=True)
    return lambda pkg: run_obligation(pkg, fn)


def graph_own_vertices_obligation(cls="PoseR2"):
    """The graph's chi^2 is evaluated at the estimates of *its own* vertices: edges that arrive already bound to other vertex
    objects with the same ids (copies, a previous graph's vertices) are bound to the graph's vertices by the constructor."""
    def fn(it):
        from ..interp import sym_pose
        from ..assembly import sym_symmetric
        from ..algebra import CDIM
        ids = [Poly.const(100), Poly.const(107)]
        own = [it.construct("Vertex", [ids[j], sym_pose(cls, "own%d" % j, unit=True)]) for j in range(2)]
        foreign = [it.construct("Vertex", [ids[j], sym_pose(cls, "foreign%d" % j, unit=True)]) for j in range(2)]
        W, z = sym_symmetric("W", CDIM[cls]), sym_pose(cls, "z", unit=True)
        e = it.construct("EdgeOdometry", [list(ids), W, z, list(foreign)])
        g = it.construct("Graph", [[e], own])
        got = it.call_method(g, "calc_chi2", [])
        ref = it.construct("EdgeOdometry", [list(ids), W, z, list(own)])
        exp = it.call_method(ref, "calc_chi2", [])
        require_same(got, exp, "the chi^2 of a graph whose edge was created with other vertex objects (same ids) is not evaluated at the "
                               "graph's own vertices")
        return dict(pose=cls)
    return lambda pkg: run_obligation(pkg, fn)


def run(run_, pkg, tier):
    run_.explanation = ("calc_error of the 8 built-in configurations equals, as polynomial normal forms modulo the unit-quaternion "
                        "and trigonometric relations, the checker's reference model built from homogeneous matrices and Hamilton "
                        "products (no code shared with the repo's expanded formulas); BaseEdge.calc_chi2 with a generic full "
                        "symbolic information matrix equals sum_ij e_i W_ij e_j (hence linear in W and a quadratic form in e); "
                        "Graph.calc_chi2 folds exactly the edges' chi^2 for lists of length 0..3.")
    run_.trusted_base = ["CPython ast", "gsverif.interp semantics of the modelled numpy subset", "real arithmetic instead of IEEE-754",
                         "uniqueness of normal forms modulo var^2 rules", "the checker's reference model in gsverif.algebra"]
    run_.assumptions = ["floating-point rounding / summation order is not modelled", "q and -q are the same rotation (either sign of the "
                        "vector part of the error quaternion is accepted as the reference)"]
    tasks = []
    for cfg in CONFIGS:
        key = "%s/calc_error" % cfg_name(cfg)
        fn = pkg.method(cfg[0], "calc_error")
        ob = odometry_obligation(cfg) if cfg[0] == "EdgeOdometry" else landmark_obligation(cfg)
        if run_.wants(key):
            tasks.append((key, "C02-error-model", ob, "%s:%d" % (fn._gs_module, fn.lineno)))
    key = "EdgeOdometry[PoseSE2]/error-angle-is-principal-value"
    if run_.wants(key):
        fn = pkg.method("EdgeOdometry", "calc_error")
        tasks.append((key, "C02-error-model", principal_angle_obligation(), "%s:%d" % (fn._gs_module, fn.lineno)))
    for cfg in CONFIGS:
        key = "%s/calc_error/current-values" % cfg_name(cfg)
        fn = pkg.method(cfg[0], "calc_error")
        if run_.wants(key):
            tasks.append((key, "C02-error-model-current-values", history_obligation(cfg), "%s:%d" % (fn._gs_module, fn.lineno)))
    edge_classes = ["BaseEdge"] + pkg.subclasses("BaseEdge")
    for cls in edge_classes:
        fn = pkg.method(cls, "calc_chi2")
        for n in ((2, 3, 6) if tier == "quick" else (1, 2, 3, 4, 6)):
            key = "%s.calc_chi2/n=%d" % (cls, n)
            if run_.wants(key):
                tasks.append((key, "C02-chi2-quadratic-form", chi2_obligation(cls, n), "%s:%d" % (fn._gs_module, fn.lineno)))
        key = "%s.calc_chi2/scalar" % cls
        if run_.wants(key):
            tasks.append((key, "C02-chi2-quadratic-form", scalar_chi2_obligation(cls), "%s:%d" % (fn._gs_module, fn.lineno)))
    gfn = pkg.method("Graph", "calc_chi2")
    for k in (0, 1, 2, 3):
        key = "Graph.calc_chi2/edges=%d" % k
        if run_.wants(key):
            tasks.append((key, "C02-graph-sum", graph_sum_obligation(k), "%s:%d" % (gfn._gs_module, gfn.lineno)))
    for k in (2, 3):
        key = "Graph.calc_chi2/parallel-edges=%d" % k
        if run_.wants(key):
            tasks.append((key, "C02-graph-sum", graph_parallel_sum_obligation(k), "%s:%d" % (gfn._gs_module, gfn.lineno)))
    for cls in ("PoseR2", "PoseSE2"):
        key = "Graph.calc_chi2/own-vertices/%s" % cls
        if run_.wants(key):
            tasks.append((key, "C02-graph-chi2-at-own-vertices", graph_own_vertices_obligation(cls), "%s:%d" % (gfn._gs_module, gfn.lineno)))
    run_.floor("error-model obligations", sum(1 for t in tasks if t[1] == "C02-error-model") if run_.only is None else 8, 8)
    results = run_tasks(pkg, tasks)
    record(run_, tasks, results)
    # the code tests the number of edges against constants (chunking, thresholds): aim scenarios at exactly those sizes
    from ..algebra import size_constants
    consts = size_constants([r for t, r in zip(tasks, results) if t[1] == "C02-graph-sum"])
    if consts:
        extra = []
        for c in consts[:3]:
            for k in sorted({max(c - 1, 1), c, c + 1, 2 * c}):
                key = "Graph.calc_chi2/edges=%d (directed at the size constant %d in the code)" % (k, c)
                extra.append((key, "C02-graph-sum", graph_sum_obligation(k, directed=True), "%s:%d" % (gfn._gs_module, gfn.lineno)))
        record(run_, extra, run_tasks(pkg, extra))
