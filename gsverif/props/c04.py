"""C04 -- linear (R^2/R^3) graphs reach the global optimum: the premises from which that follows in exact arithmetic."""
from ..poly import Poly
from ..interp import Arr
from ..algebra import CONFIGS, cfg_name, run_obligation, run_tasks, record, ObFail, sym_config, make_edge, nterms
from .. import optim_rules
from ..assembly import SCENARIOS, assembly_obligation
from .c01 import edge_jacobian_obligation
from .c03 import contribution_tasks

LEVEL = "other"

RN = [c for c in CONFIGS if c[1] in ("PoseR2", "PoseR3") and c[2] in ("PoseR2", "PoseR3")]


def affine_obligation(cfg):
    def fn(it):
        p1, p2, z, off = sym_config(cfg, unit=False)
        e = make_edge(it, cfg, p1, p2, z, off)
        err = it.call_method(e, "calc_error", [])
        J = it.call_method(e, "calc_jacobians", [])
        vnames = ["p1[%d]" % i for i in range(len(p1.data))] + ["p2[%d]" % i for i in range(len(p2.data))]
        if not isinstance(err, Arr):
            raise ObFail("calc_error does not return a vector")
        for i, c in enumerate(err.data):
            if c.degree_in(vnames) > 1:
                raise ObFail("error component %d has degree %d in the vertex coordinates: chi^2 is not quadratic" % (i, c.degree_in(vnames)))
            others = c.variables() - set(vnames)
            for m in c.t:
                pass
        for k in (0, 1):
            for x in J[k].flat():
                if x.const_value() is None:
                    raise ObFail("Jacobian %d of a linear edge is not constant (entry %s)" % (k, x.short(80)))
        return dict(error_degree=max(c.degree_in(vnames) for c in err.data), terms=nterms(err))
    return lambda pkg: run_obligation(pkg, fn)


def run(run_, pkg, tier):
    run_.explanation = ("The numeric optimum is the output of a sparse solve and cannot be bounded statically.  Decided are the premises "
                        "from which `one Gauss-Newton step from any initial guess lands on the unique minimiser` follows in exact "
                        "arithmetic: (i) for the four R^n configurations the error is affine in the vertex coordinates, the Jacobians are "
                        "constant and equal the derivative, so chi^2 is exactly quadratic and H, b are its exact Hessian/gradient; "
                        "(ii) one iteration is the Gauss-Newton step on the reduced system (C03 a-d, C06 c); (iii) on the CFG of "
                        "optimize(): the first iteration always performs a full step before any convergence test, the test of the next "
                        "iteration sees rel_diff = 0 < tol for any tol > 0, and final_chi2 is chi^2 of the returned state.")
    run_.trusted_base = ["scipy.sparse.linalg.spsolve solves the (positive definite) reduced system", "real arithmetic"]
    run_.assumptions = ["conditioning / rounding not decided", "tol > 0 and max_iter >= 2 for the `converged` flag; with max_iter = 1 the "
                        "optimum is still reached and reported through final_chi2"]
    tasks = []
    for cfg in RN:
        fn = pkg.method(cfg[0], "calc_error")
        w = "%s:%d" % (fn._gs_module, fn.lineno)
        key = "C04-i/%s/affine-error-constant-jacobian" % cfg_name(cfg)
        if run_.wants(key):
            tasks.append((key, "C04-i-linear-residual", affine_obligation(cfg), w))
        for k in (0, 1):
            key = "C04-i/%s/jacobian-vertex%d" % (cfg_name(cfg), k)
            if run_.wants(key):
                tasks.append((key, "C04-i-linear-residual", edge_jacobian_obligation(cfg, k, unit=False), w))
    tasks += contribution_tasks(run_, pkg, "quick", prefix="C04-ii")
    gfn = pkg.method("Graph", "_calc_chi2_gradient_hessian")
    for scn in SCENARIOS:
        if scn.name in ("free", "fix-first", "fixed-two", "parallel-only"):
            key = "C04-ii/assembly/%s" % scn.name
            if run_.wants(key):
                tasks.append((key, "C04-ii-gauss-newton-step", assembly_obligation(scn), "%s:%d" % (gfn._gs_module, gfn.lineno)))
    from ..assembly import real_edges_obligation
    for kind in ("R2", "R3"):
        for nm, fx, ffp in (("fix-first", (), True), ("fixed-last", (2,), False)):
            key = "C04-ii/assembly/real-edges-%s/%s" % (kind, nm)
            if run_.wants(key):
                tasks.append((key, "C04-ii-gauss-newton-step", real_edges_obligation(kind, fx, ffp), "%s:%d" % (gfn._gs_module, gfn.lineno)))
    from .c02 import graph_own_vertices_obligation
    cfn = pkg.method("Graph", "calc_chi2")
    for cls in ("PoseR2", "PoseR3"):
        key = "C04-i/graph-works-on-its-own-vertices/%s" % cls
        if run_.wants(key):
            tasks.append((key, "C04-i-own-vertices", graph_own_vertices_obligation(cls), "%s:%d" % (cfn._gs_module, cfn.lineno)))
    results = run_tasks(pkg, tasks)
    from ..algebra import across_thresholds
    from ..assembly import directed_assembly_tasks
    results, xt, xr = across_thresholds(run_, pkg, tasks, results, directed_assembly_tasks("C04-ii/assembly", "C04-ii-gauss-newton-step", "%s:%d" % (gfn._gs_module, gfn.lineno)))
    record(run_, tasks, results)
    record(run_, xt, xr)
    run_.floor("C04 obligations", len(tasks) if run_.only is None else 24, 24)
    if run_.only is None:
        def sel(f):
            relevant = f.rule.startswith("C03-d") or f.key.startswith(("C12-T2/first-iteration-solves", "C12-T2/test-before-solve",
                                                                       "C12-T2/early-return", "C12-T1/return", "C12-T1/final_chi2",
                                                                       "C12-T3/one-update-per-iteration"))
            if not relevant:
                return None
            key = "C04-iii/" + f.key if not f.rule.startswith("C03-d") else "C04-ii/" + f.key
            return key, ("C04-iii-one-step-then-report" if key.startswith("C04-iii") else "C04-ii-gauss-newton-step")
        n = optim_rules.optimize_verdicts(run_, pkg, "C04", sel)
        run_.floor("C04 optimize rule instances", n, 10)
