"""C15 -- queries are pure; optimize changes only vertex poses (effect analysis, Engine B + C)."""
import ast

from ..effects import (Analysis, path_str, touches_protected, last_attr, is_fresh, PROTECTED_ATTRS, numerical_jacobian_functions,
                       is_numjac_perturbation)
from ..cfg import CFG
from ..model import fn_label, AnalysisError

LEVEL = "other"

EDGE_QUERIES = ["calc_error", "calc_chi2", "calc_jacobians", "calc_chi2_gradient_hessian", "is_valid", "_is_valid", "equals",
                "to_g2o", "_calc_jacobian"]
POSE_MUTATORS_ALLOWED = {"normalize"}
IMPURE_ROOTS = {"time", "random", "os", "sys", "open", "input", "datetime", "uuid", "secrets", "socket", "subprocess"}
QUERY_PROTECTED = PROTECTED_ATTRS | {"vertices"}


def where(ev):
    return ev.where()


_PKG = [None]


def is_jacobian_perturbation(ev):
    return is_numjac_perturbation(_PKG[0], ev)


def query_entry_points(pkg, an):
    out = []
    for cname in ["BaseEdge"] + pkg.subclasses("BaseEdge"):
        for m in EDGE_QUERIES:
            fn = pkg.own_method(cname, m)
            if fn is not None:
                out.append(("%s.%s" % (cname, m), fn, "edge"))
    for cname, ms in (("Vertex", ["equals", "to_g2o"]), ("Graph", ["calc_chi2", "equals", "to_g2o"])):
        for m in ms:
            fn = pkg.own_method(cname, m)
            if fn is None:
                raise AnalysisError("anchor vanished: %s.%s" % (cname, m))
            out.append(("%s.%s" % (cname, m), fn, "graph"))
    for cname in pkg.subclasses("BaseG2OParameter", strict=False):
        fn = pkg.own_method(cname, "to_g2o")
        if fn is not None:
            out.append(("%s.to_g2o" % cname, fn, "param"))
    for cname in pkg.subclasses("BasePose", strict=False):
        ci = pkg.classes[cname]
        for m, (fn, is_cm, is_sm) in sorted(ci.methods.items()):
            if m in POSE_MUTATORS_ALLOWED or m == "__new__":
                continue
            out.append(("%s.%s" % (cname, m), fn, "pose"))
        for m, fn in sorted(ci.props.items()):
            out.append(("%s.%s" % (cname, m), fn, "pose"))
    return out


def reachable_functions(an, fn):
    seen, todo = {fn}, [fn]
    while todo:
        f = todo.pop()
        facts = an.get(f)
        if facts is None:
            continue
        for c, callees in facts.calls:
            for callee, _ in callees:
                if callee not in seen:
                    seen.add(callee)
                    todo.append(callee)
    return seen


def impure_calls(fn):
    out = []
    for node in ast.walk(fn):
        if isinstance(node, ast.Call):
            f = node.func
            root = f
            while isinstance(root, ast.Attribute):
                root = root.value
            if isinstance(root, ast.Name):
                dotted = ast.unparse(f)
                if root.id in IMPURE_ROOTS or dotted.startswith(("np.random", "numpy.random")):
                    out.append((node, dotted))
    return out


def rule_E1_E6(run_, pkg, an):
    entries = query_entry_points(pkg, an)
    run_.floor("query entry points", len(entries), 100)
    for name, fn, family in entries:
        evs = an.effects(fn)
        bad = []
        for ev in evs:
            if is_jacobian_perturbation(ev):
                continue  # decided by the perturb/restore pairing rule E2
            sels_ = list(ev.path[1:])
            while sels_ and sels_[-1] == "[]":
                sels_.pop()
            protected = bool(sels_) and sels_[-1].startswith(".") and sels_[-1][1:] in QUERY_PROTECTED
            on_pose_operand = family == "pose" and ev.kind in ("ElemStore", "MutCall", "AugName") and not ev.path[0].startswith("<global") \
                and ".__dict__" not in ev.path      # an entry of the instance dictionary is a memo, not pose data (see E7)
            if ev.kind == "AttrStore" and last_attr(ev.path) in QUERY_PROTECTED:
                bad.append(ev)
            elif ev.kind in ("ElemStore", "MutCall", "AugName") and (protected or on_pose_operand):
                bad.append(ev)
            # (an attribute stored on a pose object -- a memo -- is not a change of the pose; whether answers stay right is E7)
        # E7: queries keep no state at all -- a cache written by a query makes later answers depend on the call history
        # (stale after an in-place change of a pose), so "repeated calls return identical values" no longer follows from purity
        stateful = [ev for ev in evs if ev.kind == "AttrStore" and not ev.path[0].startswith("<global") and not is_jacobian_perturbation(ev)
                    and not (family == "graph" and path_str(ev.path) in ("self._chi2",))]
        key7 = "C15-E7/%s" % name
        if stateful:
            # a query that keeps state (a cache) is not by itself a violation: whether its answers can depend on earlier calls is
            # decided semantically by the history-independence obligations below (rule_E7); recorded as a note
            ev = stateful[0]
            run_.note("query %s stores %s (state kept by a query; see C15-E7 history-independence obligations)" % (name, ev.describe()))
        run_.ok(key7, "C15-E7-queries-stateless-scan", nontrivial=False)
        key = "C15-E1/%s" % name
        if bad:
            ev = bad[0]
            run_.violation(key, "C15-E1-query-purity", "query %s writes caller-visible state: %s" % (name, ev.describe()), where=ev.where())
        else:
            run_.ok(key, "C15-E1-query-purity", nontrivial=bool(evs) or True,
                    sample=dict(entry=name, events_examined=len(evs), callees=len(reachable_functions(an, fn)) - 1))
        # E6 determinism
        imp = []
        for f in reachable_functions(an, fn):
            for node, dotted in impure_calls(f):
                if dotted == "open" and name in ("Graph.to_g2o",):
                    continue  # exporting writes the output file by definition
                imp.append((f, node, dotted))
        key = "C15-E6/%s" % name
        if imp:
            f, node, dotted = imp[0]
            run_.violation(key, "C15-E6-query-determinism", "query %s reaches a call of %s in %s" % (name, dotted, fn_label(f)),
                           where="%s:%d" % (f._gs_module, node.lineno))
        else:
            run_.ok(key, "C15-E6-query-determinism")


def snapshot_info(fn, cfg):
    """Locate snapshot / perturbation / restore stores in BaseEdge._calc_jacobian."""
    pose_stores = []
    for n in cfg.nodes_where(lambda s, k: k == "stmt" and isinstance(s, (ast.Assign, ast.AugAssign))):
        st = cfg.stmt[n]
        targets = st.targets if isinstance(st, ast.Assign) else [st.target]
        for t in targets:
            if isinstance(t, ast.Attribute) and t.attr == "pose":
                pose_stores.append((n, st, t))
    return pose_stores


def names_in(e):
    return {x.id for x in ast.walk(e) if isinstance(x, ast.Name)}


def rule_E2(run_, pkg, an):
    """Decided semantically (translated code, uninterpreted error function); the CFG rule below is the fallback when the
    translation is impossible."""
    from .c16 import perturb_restore_obligation, SHAPES
    from ..algebra import run_tasks
    fn0 = pkg.method("BaseEdge", "_calc_jacobian")
    w0 = "%s:%d" % (fn0._gs_module, fn0.lineno)
    tasks = [("C15-E2/perturb-restore/%s" % "+".join(vt), "C15-E2-perturb-restore", perturb_restore_obligation(vt), w0) for vt in SHAPES]
    tasks = [t for t in tasks if run_.wants(t[0])]
    results = run_tasks(pkg, tasks)
    undecided = [t[0] for t, r in zip(tasks, results) if r["status"] == "error"]
    for t, r in zip(tasks, results):
        if r["status"] == "ok":
            run_.ok(t[0], t[1], sample=dict(obligation=t[0], paths=r["paths"], **r["stats"]))
        elif r["status"] == "violation":
            run_.violation(t[0], t[1], r["detail"], where=w0)
    run_.extra["E2_semantic"] = dict(decided=len(tasks) - len(undecided), undecided=undecided)
    if not undecided:
        return
    run_.note("C15-E2: %d scenario(s) could not be translated (%s); falling back to the control-flow rule" % (len(undecided), results[[t[0] for t in tasks].index(undecided[0])]["detail"][:200]))
    rule_E2_syntactic(run_, pkg, an)


def rule_E2_syntactic(run_, pkg, an):
    fn, _parts = numerical_jacobian_functions(pkg)     # private helpers of _calc_jacobian are inlined
    if fn is None:
        run_.error("anchor vanished: BaseEdge._calc_jacobian")
        return
    cfg = CFG(fn)
    w = "%s:%d" % (fn._gs_module, fn.lineno)
    stores = snapshot_info(fn, cfg)
    # snapshot variables: locals assigned from an expression that reads `.pose`
    snaps = {}
    for n in cfg.nodes_where(lambda s, k: k == "stmt" and isinstance(s, ast.Assign)):
        st = cfg.stmt[n]
        if len(st.targets) == 1 and isinstance(st.targets[0], ast.Name):
            reads_pose = any(isinstance(x, ast.Attribute) and x.attr == "pose" for x in ast.walk(st.value))
            if reads_pose:
                is_copy = isinstance(st.value, ast.Call) and isinstance(st.value.func, ast.Attribute) and st.value.func.attr == "copy"
                snaps[st.targets[0].id] = (n, st, is_copy)
    perturb, restore = [], []
    for n, st, t in stores:
        if isinstance(st, ast.Assign) and names_in(st.value) & set(snaps):
            restore.append((n, st, t))
        else:
            perturb.append((n, st, t))
    run_.floor("_calc_jacobian pose stores (perturb + restore)", len(perturb) + len(restore), 2)
    key = "C15-E2/BaseEdge._calc_jacobian"
    if not perturb:
        run_.ok(key + "/no-perturbation", "C15-E2-perturb-restore")
        return
    if not snaps or not restore:
        run_.violation(key + "/restore", "C15-E2-perturb-restore",
                       "the vertex pose is perturbed but never restored from a snapshot taken before the perturbation",
                       where="%s:%d" % (fn._gs_module, perturb[0][1].lineno))
        return
    dom = cfg.dominators()
    iadd = pkg.lookup("BasePose", "__iadd__")
    iadd_fresh = iadd is not None and an.returns_fresh(iadd[1][0]) and not any(
        pkg.own_method(c, "__iadd__") is not None and not an.returns_fresh(pkg.own_method(c, "__iadd__")) for c in pkg.subclasses("BasePose"))
    for n, st, t in perturb:
        k = "%s/perturb@%s" % (key, ast.unparse(t))
        # (a) a snapshot dominates the perturbation
        good_snaps = [(name, sn, s, cp) for name, (sn, s, cp) in snaps.items() if sn in dom[n]]
        run_.check(bool(good_snaps), k + "/snapshot-before", "C15-E2-perturb-restore",
                   "pose perturbed at line %d without a snapshot taken on every path before it" % st.lineno,
                   where="%s:%d" % (fn._gs_module, st.lineno))
        # snapshot validity: a copy, or an alias while every pose write is a rebinding through a fresh-returning __iadd__
        for name, sn, s, cp in good_snaps:
            rebinding = all(isinstance(ps, ast.Assign) or (isinstance(ps, ast.AugAssign) and iadd_fresh) for _, ps, _ in perturb)
            run_.check(cp or rebinding, k + "/snapshot-valid", "C15-E2-perturb-restore",
                       "snapshot `%s` aliases the pose and the perturbation is in place, so the restore would restore nothing" % name,
                       where="%s:%d" % (fn._gs_module, s.lineno))
        # (b) every path from the perturbation to the normal exit passes a restoring store of the same target
        same_target = [rn for rn, rs, rt in restore if ast.dump(rt) == ast.dump(t)]
        leaks = cfg.paths_exist_avoiding(n, cfg.exit, set(same_target))
        run_.check(not leaks, k + "/restored-on-all-paths", "C15-E2-perturb-restore",
                   "a path from the perturbation at line %d reaches the function exit without restoring %s" % (st.lineno, ast.unparse(t)),
                   where="%s:%d" % (fn._gs_module, st.lineno))
        # (c) and before the next perturbation (loop back edge)
        again = cfg.paths_exist_avoiding(n, n, set(same_target))
        run_.check(not again, k + "/restored-before-next-perturbation", "C15-E2-perturb-restore",
                   "the pose can be perturbed again (next column) before it was restored", where="%s:%d" % (fn._gs_module, st.lineno))
    for n, st, t in restore:
        # the restored value must be the snapshot itself or a copy / re-construction of it -- not an arithmetic expression
        v = st.value
        ok = isinstance(v, ast.Name) or (isinstance(v, ast.Call) and not any(isinstance(x, ast.BinOp) for x in ast.walk(v)))
        run_.check(ok, "%s/restore-value@%d" % (key, st.lineno), "C15-E2-perturb-restore",
                   "the value written back is computed from the snapshot by arithmetic, not the snapshot itself",
                   where="%s:%d" % (fn._gs_module, st.lineno))


def rule_E3(run_, pkg, an):
    ops = ["__add__", "__sub__", "__iadd__", "inverse", "copy", "to_array", "to_compact", "position", "orientation", "identity",
           "to_matrix", "from_matrix"]
    n = 0
    for cname in pkg.subclasses("BasePose", strict=False):
        for m in ops:
            k_ = pkg.lookup(cname, m)          # the method that instances of this class really run (own or inherited)
            if k_ is None or k_[0] not in ("method", "prop"):
                continue
            fn = k_[1][0] if k_[0] == "method" else k_[1]
            body = [s for s in fn.body if not (isinstance(s, ast.Expr) and isinstance(s.value, ast.Constant))]
            if len(body) == 1 and isinstance(body[0], ast.Raise):
                continue  # abstract placeholder
            n += 1
            facts = an.get(fn)
            nonfresh = sorted(path_str(p) for p in facts.returns if not is_fresh(p))
            run_.check(not nonfresh, "C15-E3/%s.%s" % (cname, m), "C15-E3-operators-return-fresh",
                       "%s.%s may return (a view of) %s instead of a new object" % (cname, m, ", ".join(nonfresh)),
                       where="%s:%d" % (fn._gs_module, fn.lineno))
    run_.floor("pose operators", n, 40)


def rule_E4(run_, pkg, an):
    for cname in ["BaseEdge"] + pkg.subclasses("BaseEdge"):
        for m in ("calc_chi2_gradient_hessian", "calc_jacobians"):
            fn = pkg.own_method(cname, m)
            if fn is None:
                continue
            facts = an.get(fn)
            bad = sorted(path_str(p) for p in facts.returns if not is_fresh(p) and last_attr(p) != "gradient_index")
            run_.check(not bad, "C15-E4/%s.%s" % (cname, m), "C15-E4-contributions-fresh",
                       "%s.%s hands out %s by reference; the accumulator adds into the first contribution in place" % (cname, m, ", ".join(bad)),
                       where="%s:%d" % (fn._gs_module, fn.lineno))
    # the accumulator must only mutate what it was given (its own dictionaries)
    # decided on the translated code (however the accumulation is organised): assembling the linear system of a graph of the
    # package's own edge kinds -- twice, and again after re-weighting -- leaves every edge's measurement, offset and information
    # matrix as it was and yields the reference system each time
    from ..assembly import real_edges_obligation
    from ..algebra import run_tasks, record
    gfn = pkg.method("Graph", "_calc_chi2_gradient_hessian") if pkg.lookup("Graph", "_calc_chi2_gradient_hessian") else pkg.method("Graph", "optimize")
    tasks = [("C15-E4/assembly-leaves-edges-unchanged/%s" % kind, "C15-E4-accumulator-footprint", real_edges_obligation(kind, (), True),
              "%s:%d" % (gfn._gs_module, gfn.lineno)) for kind in ("R2", "SE2")]
    tasks = [t for t in tasks if run_.wants(t[0])]
    record(run_, tasks, run_tasks(pkg, tasks))
    upd = pkg.own_method_alias("_Chi2GradientHessian", "update")
    if upd is None:
        run_.note("no method _Chi2GradientHessian.update: the syntactic footprint rule is skipped (the accumulation is decided by the "
                  "translated assembly above)")
        return
    for ev in an.effects(upd):
        ok = ev.path[0] == an.get(upd).params[0]
        run_.check(ok, "C15-E4/update/%s" % path_str(ev.path), "C15-E4-accumulator-footprint",
                   "the accumulator writes %s, which is not part of the accumulator object" % path_str(ev.path), where=ev.where())


def rule_E5(run_, pkg, an):
    fn = pkg.own_method("Graph", "optimize")
    if fn is None:
        run_.error("anchor vanished: Graph.optimize")
        return
    evs = an.effects(fn)
    n = 0
    seen = set()
    for ev in evs:
        if not touches_protected(ev.path) and last_attr(ev.path) not in PROTECTED_ATTRS:
            continue
        if is_jacobian_perturbation(ev):
            continue
        sig = (ev.kind, path_str(ev.path), ev.node.lineno, ev.fn.name)
        if sig in seen:
            continue
        seen.add(sig)
        n += 1
        import re as _re
        p = _re.sub(r"(\[\])+", "[]", path_str(ev.path))     # elements reached through zip/enumerate/list copies are still vertices
        ok = ev.kind == "AttrStore" and p in ("self._vertices[].pose", "self._vertices[].fixed") and getattr(ev.fn, "_gs_class", None) == "Graph"
        if ok and p.endswith(".pose"):
            ok = isinstance(ev.node, ast.AugAssign) and isinstance(ev.node.op, ast.Add)
        run_.check(ok, "C15-E5/optimize/%s@%s" % (p, ev.fn.name), "C15-E5-optimize-footprint",
                   "optimize() modifies %s (%s)" % (p, ev.describe()), where=ev.where())
    run_.floor("protected writes of optimize", n, 2)
    # the fixed flag may only be written for the first vertex, to True, exactly under `if fix_first_pose` (shared with C06-a)
    from .. import optim_rules
    optim_rules.optimize_verdicts(run_, pkg, "C15", lambda f: ("C15-E5/" + f.key, "C15-E5-optimize-footprint") if f.rule == "C06-a-who-may-fix" else None,
                                  rule_sem="C15-E5-optimize-footprint")


def export_purity_obligation():
    """Exports are queries: writing a whole graph (3-D landmark edges that share the offset of a parameter, odometry measurements and
    poses whose quaternions may have a negative scalar part) to a virtual file and exporting each object on its own leaves every
    pose, measurement, offset, information matrix and parameter value exactly as it was (decided on the translated writers, whatever
    they call)."""
    def fn(it):
        from ..g2o import build_vertex, build_odometry, build_landmark, build_param
        from ..interp import ga, sa, gp, Arr, Pose, ClassRef
        from ..poly import Poly
        from ..algebra import ObFail
        it.vfs = {}
        vs = [build_vertex(it, c, "v%d" % k) for k, c in enumerate(["PoseSE3", "PoseR3", "PoseSE3", "PoseSE2", "PoseR2"])]
        p3 = build_param(it, "G2OParameterSE3Offset", "p3")
        ident = it.call_classmethod(ClassRef("PoseSE2"), "identity", [])
        edges = [build_landmark(it, "PoseSE3", "e0", vs[0], vs[1], ga(p3, "value"), ga(p3, "key")[1]),
                 build_landmark(it, "PoseSE3", "e1", vs[2], vs[1], ga(p3, "value"), ga(p3, "key")[1]),
                 build_odometry(it, "PoseSE3", "e2", vs[0], vs[2]),
                 build_landmark(it, "PoseSE2", "e3", vs[3], vs[4], ident, Poly.const(0))]
        given_e, given_v = list(edges), list(vs)         # the caller's lists: the graph may keep them, an export may not reorder them
        g = it.construct("Graph", [given_e, given_v])
        sa(g, "_g2o_params", {it.hashable(ga(p3, "key"), None): p3})
        order0 = ([id(x) for x in it.iterate(gp(g, "_edges"), None)], [id(x) for x in it.iterate(gp(g, "_vertices"), None)])

        def state():
            out = []
            for k, v in enumerate(vs):
                out.append(("pose of vertex %d" % k, list(ga(v, "pose").data)))
            for k, e in enumerate(edges):
                for f in ("estimate", "offset"):
                    x = ga(e, f, None)
                    if isinstance(x, (Pose, Arr)):
                        out.append(("%s of edge %d" % (f, k), list(x.flat()) if isinstance(x, Arr) and x.ndim == 2 else list(x.data)))
                out.append(("information of edge %d" % k, list(ga(e, "information").flat())))
            out.append(("value of the offset parameter", list(ga(p3, "value").data)))
            return out

        def unchanged(before, what):
            for (label, a), (_, b) in zip(before, state()):
                if len(a) != len(b) or any(x != y for x, y in zip(a, b)):
                    raise ObFail("%s changes the %s" % (what, label))
            if [id(x) for x in given_e] != [id(x) for x in edges] or [id(x) for x in given_v] != [id(x) for x in vs]:
                raise ObFail("%s reorders / edits the list of edges or vertices the caller handed to the graph" % what)
            now = ([id(x) for x in it.iterate(gp(g, "_edges"), None)], [id(x) for x in it.iterate(gp(g, "_vertices"), None)])
            if now != order0:
                raise ObFail("%s changes the graph's own list of edges / vertices (order or membership)" % what)
        s0 = state()
        it.call_method(g, "to_g2o", ["out.g2o"])
        unchanged(s0, "Graph.to_g2o")
        for k, o in enumerate(vs + edges + [p3]):
            it.call_method(o, "to_g2o", [])
            unchanged(s0, "%s.to_g2o" % o.cls)
        return dict(objects=len(vs) + len(edges) + 1)
    from ..algebra import run_obligation
    from .c18 import distinct_names_hook
    return lambda pkg: run_obligation(pkg, fn, hook=distinct_names_hook, max_paths=256)


def rule_E7(run_, pkg):
    """Repeated calls return identical values / no dependence on the call history: the edge queries and the pose Jacobian methods
    are evaluated, every operand is overwritten *in place*, and they are evaluated again -- the answers must be those of fresh
    objects at the new state (shared with C01 / C10)."""
    from ..algebra import CONFIGS, cfg_name, run_tasks, record, POSES
    from .c01 import stale_state_obligation as edge_history
    from .c10 import stale_state_obligation as pose_history
    tasks = []
    gto = pkg.method("Graph", "to_g2o")
    tasks.append(("C15-E1/exports-leave-all-state-unchanged", "C15-E1-query-purity", export_purity_obligation(), "%s:%d" % (gto._gs_module, gto.lineno)))
    for cfg in CONFIGS:
        fn = pkg.method(cfg[0], "calc_error")
        tasks.append(("C15-E7/%s/history-independent" % cfg_name(cfg), "C15-E7-repeatable-queries", edge_history(cfg), "%s:%d" % (fn._gs_module, fn.lineno)))
    for cls in POSES:
        fn = pkg.method(cls, "jacobian_boxplus")
        tasks.append(("C15-E7/%s/history-independent" % cls, "C15-E7-repeatable-queries", pose_history(cls), "%s:%d" % (fn._gs_module, fn.lineno)))
    tasks = [t for t in tasks if run_.wants(t[0])]
    record(run_, tasks, run_tasks(pkg, tasks))


def positive_fixture(run_, pkg):
    """Zero-expected rules carry a positive example that must match on every run."""
    import textwrap
    from ..model import Package
    src = textwrap.dedent('''
        class BaseEdge:
            def calc_error(self):
                self.estimate[0] = 0.0
                return self.helper()
            def helper(self):
                self.vertices[0].pose = None
    ''')
    fake = Package.from_source("fixture.py", src)
    an = Analysis(fake)
    evs = an.effects(fake.own_method("BaseEdge", "calc_error"))
    kinds = {(e.kind, path_str(e.path)) for e in evs}
    ok = ("ElemStore", "self.estimate[]") in kinds and ("AttrStore", "self.vertices[].pose") in kinds
    if not ok:
        run_.error("effect engine self-test failed: positive fixture not matched (%s)" % sorted(kinds))
    else:
        run_.ok("C15/positive-fixture", "C15-selftest", nontrivial=False)


def run(run_, pkg, tier):
    run_.explanation = ("Interprocedural write-effect summaries (access paths rooted at parameters; freshness of allocating "
                        "expressions; views and aliases followed; call resolution by class hierarchy) show that no query entry point "
                        "(edge error/chi2/Jacobians/contributions/validity/equals/to_g2o, vertex and graph queries, every pose method "
                        "except normalize) can store into a pose, measurement, information matrix, id or fixed flag; the only "
                        "exception, the numerical-Jacobian perturbation, is paired with a restore on every path (CFG post-dominance); "
                        "pose operators return fresh objects; contribution arrays handed to the in-place accumulator are fresh; "
                        "optimize()'s protected footprint is {vertex poses (+=), first vertex's fixed flag}.")
    run_.trusted_base = ["numpy functions outside the view/in-place tables allocate their result", "no monkey-patching / __setattr__ tricks"]
    run_.assumptions = ["bit-exactness of restoring an SE(2) pose through copy() (wrap idempotence) is a floating-point fact, not decided",
                        "repeated calls return identical values: follows from purity + determinism (no time/random/io reachable)"]
    an = Analysis(pkg)
    _PKG[0] = pkg
    positive_fixture(run_, pkg)
    rule_E1_E6(run_, pkg, an)
    rule_E2(run_, pkg, an)
    rule_E3(run_, pkg, an)
    rule_E4(run_, pkg, an)
    rule_E5(run_, pkg, an)
    rule_E7(run_, pkg)
