"""Engine B: interprocedural write-effect / alias / freshness summaries.

For every function of the package a syntax-directed walk records *events*:
  AttrStore(path)   obj.attr = v / obj.attr op= v     where obj is not a fresh local object
  ElemStore(path)   x[i] = v / x[i] op= v             where x is not a fresh local array/container
  AugName(path)     x op= v                           where local x may alias caller-visible state (in place for ndarrays)
  MutCall(path)     a mutating method / numpy in-place function applied to non-fresh state
  Call(callees, arg paths)                            for the transitive closure

Access paths are  root + selectors,  root = parameter name (or "<global:n>"), selectors ".attr" and "[]".
A value is FRESH if it is the result of an allocating expression (arithmetic, np.dot, np.array, constructor, .copy(), ...);
np.transpose(x), x.T, np.asarray(x), x.view(..), slices and subscripts are *views of* x; attribute reads are aliases.
Local variables are tracked flow-insensitively (union over all their assignments).
"""
import ast

from .model import fn_label

FRESH = ("<fresh>",)
IN = "<in>"      # trailing selector: "a fresh container whose *contents* may alias this path" ([self.id, x], list(xs), zip(...))


def elem(p):
    """Path of an element of the value with path p."""
    if p == FRESH:
        return p
    if p[-1] == IN:
        return p[:-1]
    return p + ("[]",)


def contents(p):
    """Path of a fresh container holding the value with path p."""
    if p == FRESH:
        return p
    return p if p[-1] == IN else p + (IN,)


def extend(q, sels):
    """Append selectors to path q, resolving the contents marker."""
    for sel in sels:
        if q == FRESH:
            return FRESH
        if q[-1] == IN:
            if sel == "[]":
                q = q[:-1]
            elif sel == IN:
                pass
            else:
                return FRESH       # an attribute of the fresh container itself
        else:
            q = q + (sel,)
    return q

VIEW_FUNCS = {"transpose", "asarray", "asanyarray", "atleast_1d", "atleast_2d", "ravel", "reshape", "squeeze", "swapaxes",
              "ascontiguousarray", "real", "diagonal", "broadcast_to", "expand_dims", "moveaxis"}
VIEW_METHODS = {"view", "reshape", "ravel", "transpose", "squeeze", "swapaxes", "diagonal", "values", "items", "keys", "get",
                "setdefault", "__iter__", "flat"}
def _immutable_literal(e):
    if isinstance(e, ast.Constant):
        return not isinstance(e.value, (bytes,)) or True
    if isinstance(e, ast.UnaryOp) and isinstance(e.operand, ast.Constant):
        return True
    if isinstance(e, ast.Tuple):
        return all(_immutable_literal(x) for x in e.elts)
    return False


MUTATOR_METHODS = {"append", "extend", "insert", "pop", "remove", "clear", "sort", "reverse", "update", "setdefault", "fill",
                   "put", "itemset", "resize", "partition", "setfield", "setflags", "popitem", "add", "discard", "normalize",
                   "byteswap", "__setitem__", "__delitem__", "__iadd__", "__isub__", "__imul__", "__itruediv__"}
NP_INPLACE_FUNCS = {"copyto", "put", "place", "putmask", "fill_diagonal", "put_along_axis"}
PROTECTED_ATTRS = {"pose", "fixed", "id", "estimate", "information", "vertex_ids", "offset", "offset_id"}


class Event:
    def __init__(self, kind, path, node, fn, op=None, value=None, via=None):
        self.kind, self.path, self.node, self.fn, self.op, self.value, self.via = kind, path, node, fn, op, value, via

    def where(self):
        return "%s:%d" % (getattr(self.fn, "_gs_module", "?"), getattr(self.node, "lineno", 0))

    def describe(self):
        s = "%s %s in %s" % (self.kind, path_str(self.path), fn_label(self.fn))
        if self.via:
            s += " (reached via %s)" % " -> ".join(self.via)
        return s


def path_str(p):
    return p[0] + "".join(p[1:]) if p else "?"


def is_fresh(p):
    return p == FRESH


class FunctionFacts:
    """Intraprocedural facts of one function."""

    def __init__(self, pkg, fn, analysis):
        self.pkg, self.fn, self.an = pkg, fn, analysis
        a = fn.args
        self.params = [x.arg for x in a.posonlyargs + a.args + a.kwonlyargs]
        if a.vararg:
            self.params.append(a.vararg.arg)
        if a.kwarg:
            self.params.append(a.kwarg.arg)
        self.env = {}            # local name -> set of paths
        self.events = []
        self.calls = []          # (call node, [callee fns], [arg path sets], receiver path set or None)
        self.returns = set()     # paths (param-rooted or FRESH) of returned values
        self.nested = {}
        self._collect_locals()
        # iterate env to a fixpoint (assignments may refer to later ones in loops)
        for _ in range(6):
            before = {k: set(v) for k, v in self.env.items()}
            self._bind_all()
            if before == self.env:
                break
        self._events()

    # ------------------------------------------------------------------ locals
    def _collect_locals(self):
        self.assigned = set()
        for node in self._walk(self.fn):
            if isinstance(node, ast.Name) and isinstance(node.ctx, (ast.Store, ast.Del)):
                self.assigned.add(node.id)
            elif isinstance(node, ast.FunctionDef) and node is not self.fn:
                self.nested[node.name] = node
        for n in self.assigned:
            if n not in self.params:
                self.env.setdefault(n, set())

    def _walk(self, root):
        """ast.walk that does not descend into nested function definitions (they are analysed separately)."""
        todo = list(ast.iter_child_nodes(root))
        while todo:
            n = todo.pop()
            yield n
            if isinstance(n, (ast.FunctionDef, ast.Lambda, ast.ClassDef)):
                continue
            todo.extend(ast.iter_child_nodes(n))

    def _bind(self, target, paths):
        if isinstance(target, ast.Name):
            if target.id in self.params:
                # re-assigned parameter: treat as local from now on (flow-insensitive union with the parameter itself)
                self.env.setdefault(target.id, {(target.id,)}).update(paths)
            else:
                self.env.setdefault(target.id, set()).update(paths)
        elif isinstance(target, (ast.Tuple, ast.List)):
            cls = getattr(self.fn, "_gs_class", None)
            in_pose = bool(cls) and self.pkg.is_subclass(cls, "BasePose")

            def elem_of(p):
                if is_fresh(p):
                    return p
                if in_pose and p[0] in self.params and all(s_ == "[]" for s_ in p[1:]):
                    return FRESH      # unpacking a (slice of a) 1-D pose array yields immutable scalars
                return elem(p)
            elems = {elem_of(p) for p in paths}
            for t in target.elts:
                self._bind(t.value if isinstance(t, ast.Starred) else t, elems)

    def _bind_all(self):
        for node in self._walk(self.fn):
            if isinstance(node, ast.Assign):
                ps = self.paths(node.value)
                for t in node.targets:
                    self._bind(t, ps)
            elif isinstance(node, ast.AnnAssign) and node.value is not None:
                self._bind(node.target, self.paths(node.value))
            elif isinstance(node, ast.AugAssign) and isinstance(node.target, ast.Name):
                # x op= v : for ndarrays x keeps its identity; for immutable values it is rebound to a fresh value
                self._bind(node.target, self.paths(node.target) | {FRESH})
            elif isinstance(node, (ast.For, ast.comprehension)):
                it = self.paths(node.iter)
                self._bind(node.target, {elem(p) for p in it})
            elif isinstance(node, ast.With):
                for item in node.items:
                    if item.optional_vars is not None:
                        self._bind(item.optional_vars, {FRESH})
            elif isinstance(node, ast.NamedExpr):
                self._bind(node.target, self.paths(node.value))

    # ------------------------------------------------------------------ paths of expressions
    def paths(self, e):
        """Set of access paths the value of expression e may alias (FRESH if newly allocated / immutable)."""
        if isinstance(e, ast.Name):
            if e.id in self.env:
                r = set(self.env[e.id])
                if e.id in self.params:
                    r.add((e.id,))
                return r or {FRESH}
            if e.id in self.params:
                return {(e.id,)}
            if e.id in self.pkg.classes or e.id in self.pkg.funcs or e.id in self.nested:
                return {FRESH}
            modc = self.pkg.module_consts.get(getattr(self.fn, "_gs_module", None), {})
            if e.id in modc and _immutable_literal(modc[e.id]):
                return {FRESH}           # a module-level number / string / tuple of such: nothing can be changed through it
            return {("<global:%s>" % e.id,)}
        if isinstance(e, ast.Attribute):
            if e.attr in ("T", "real", "flat"):
                return self.paths(e.value)
            if e.attr in ("shape", "ndim", "size", "dtype", "__class__", "__name__"):
                return {FRESH}
            base = self.paths(e.value)
            out = set()
            for p in base:
                # attributes of fresh objects stay fresh; properties of pose classes are resolved through their summaries
                out.add(FRESH if (is_fresh(p) or p[-1] == IN) else p + ("." + e.attr,))
            # a property of a package class: use its return summary when every definition is fresh
            props = [ci.props[e.attr] for ci in self.pkg.classes.values() if e.attr in ci.props]
            if props and all(self.an.returns_fresh(f) for f in props):
                return {FRESH}
            return out
        if isinstance(e, ast.Subscript):
            cls = getattr(self.fn, "_gs_class", None)
            if cls and self.pkg.is_subclass(cls, "BasePose") and isinstance(e.value, ast.Name) and e.value.id in self.params \
                    and e.value.id not in self.env and not isinstance(e.slice, (ast.Slice, ast.Tuple)):
                return {FRESH}  # a single element of a 1-D pose array is an immutable scalar
            base = self.paths(e.value)
            if isinstance(e.slice, ast.Slice):
                return {p if (is_fresh(p) or p[-1] == IN) else p + ("[]",) for p in base}    # a slice of a list is a new list of the same contents
            return {elem(p) for p in base}
        if isinstance(e, ast.Starred):
            return self.paths(e.value)
        if isinstance(e, ast.IfExp):
            return self.paths(e.body) | self.paths(e.orelse)
        if isinstance(e, ast.BoolOp):
            out = set()
            for v in e.values:
                out |= self.paths(v)
            return out
        if isinstance(e, ast.NamedExpr):
            return self.paths(e.value)
        if isinstance(e, (ast.List, ast.Tuple, ast.Set)):
            out = {FRESH}
            for x in e.elts:
                if isinstance(x, ast.Starred):
                    out |= {contents(elem(p)) for p in self.paths(x.value) if not is_fresh(p)}
                else:
                    out |= {contents(p) for p in self.paths(x) if not is_fresh(p)}
            return out
        if isinstance(e, (ast.ListComp, ast.SetComp, ast.GeneratorExp)):
            return {FRESH} | {contents(p) for p in self.paths(e.elt) if not is_fresh(p)}
        if isinstance(e, ast.DictComp):
            return {FRESH} | {contents(p) for p in self.paths(e.value) if not is_fresh(p)}
        if isinstance(e, ast.Dict):
            out = {FRESH}
            for x in e.values:
                if x is not None:
                    out |= {contents(p) for p in self.paths(x) if not is_fresh(p)}
            return out
        if isinstance(e, ast.Call):
            return self.call_paths(e)
        # arithmetic, comparisons, constants, f-strings, lambdas ... produce new values
        return {FRESH}

    def call_paths(self, c):
        f = c.func
        # numpy view functions: np.transpose(x) etc.
        if isinstance(f, ast.Attribute) and isinstance(f.value, ast.Name) and f.value.id in ("np", "numpy"):
            if f.attr in VIEW_FUNCS and c.args:
                return self.paths(c.args[0])
            return {FRESH}
        callees = self.an.resolve(c, self)
        if callees:
            out = set()
            for callee, bound in callees:
                out |= self.an.map_returns(callee, bound, c, self)
            return out or {FRESH}
        if isinstance(f, ast.Attribute):
            if f.attr in VIEW_METHODS:
                return self.paths(f.value)
            if f.attr == "copy":
                return {FRESH}
            return {FRESH}
        if isinstance(f, ast.Name):
            if f.id == "reduce" and len(c.args) >= 2:
                # reduce(fn, iterable[, init]) returns whatever fn returns
                tgt = self.an.resolve_expr_callable(c.args[0], self)
                out = set()
                for callee, bound in tgt:
                    out |= self.an.map_returns_args(callee, [self.paths(c.args[2]) if len(c.args) > 2 else {FRESH},
                                                             {elem(p) for p in self.paths(c.args[1])}])
                return out or {FRESH}
            if f.id == "next" and c.args:
                return {elem(p) for p in self.paths(c.args[0])} | ({p for p in self.paths(c.args[1])} if len(c.args) > 1 else set())
            if f.id in ("iter", "reversed", "sorted", "list", "tuple", "zip", "enumerate", "dict", "set", "frozenset", "filter", "map"):
                # a new container / iterator over the elements of the arguments
                out = {FRESH}
                args = c.args[1:] if f.id in ("filter", "map") else c.args
                for a in args:
                    out |= {contents(elem(p)) for p in self.paths(a) if not is_fresh(p)}
                return out
        return {FRESH}

    # ------------------------------------------------------------------ events
    def _events(self):
        for node in self._walk(self.fn):
            if isinstance(node, (ast.Assign, ast.AugAssign, ast.AnnAssign)):
                targets = node.targets if isinstance(node, ast.Assign) else [node.target]
                op = type(node.op).__name__ if isinstance(node, ast.AugAssign) else "="
                val = getattr(node, "value", None)
                for t in targets:
                    self._store_event(t, node, op, val)
            elif isinstance(node, ast.Delete):
                for t in node.targets:
                    self._store_event(t, node, "del", None)
            elif isinstance(node, ast.Call):
                self._call_event(node)
            elif isinstance(node, ast.Return) and node.value is not None:
                self.returns |= self.paths(node.value)
            elif isinstance(node, (ast.For, ast.comprehension)) and isinstance(node.target, (ast.Attribute, ast.Subscript)):
                self._store_event(node.target, node, "=", None)

    def _store_event(self, t, node, op, val):
        if isinstance(t, (ast.Tuple, ast.List)):
            for x in t.elts:
                self._store_event(x, node, op, val)
            return
        if isinstance(t, ast.Attribute):
            for p in self.paths(t.value):
                if not is_fresh(p) and p[-1] != IN:
                    self.events.append(Event("AttrStore", p + ("." + t.attr,), node, self.fn, op, val))
        elif isinstance(t, ast.Subscript):
            for p in self.paths(t.value):
                if not is_fresh(p) and p[-1] != IN:
                    self.events.append(Event("ElemStore", p + ("[]",), node, self.fn, op, val))
        elif isinstance(t, ast.Name) and op not in ("=", "del"):
            for p in self.paths(t):
                if not is_fresh(p) and p[-1] != IN:
                    self.events.append(Event("AugName", p, node, self.fn, op, val))

    def _call_event(self, c):
        f = c.func
        if isinstance(f, ast.Attribute):
            if f.attr in MUTATOR_METHODS and not self.an.resolve(c, self):
                for p in self.paths(f.value):
                    if not is_fresh(p) and not p[0].startswith("<global:") and p[-1] != IN:
                        self.events.append(Event("MutCall", p, c, self.fn, f.attr))
            if isinstance(f.value, ast.Name) and f.value.id in ("np", "numpy") and f.attr in NP_INPLACE_FUNCS and c.args:
                for p in self.paths(c.args[0]):
                    if not is_fresh(p) and p[-1] != IN:
                        self.events.append(Event("MutCall", p, c, self.fn, "np." + f.attr))
            # np.add.at(x, idx, v) and friends
            if f.attr == "at" and isinstance(f.value, ast.Attribute) and isinstance(f.value.value, ast.Name) and \
                    f.value.value.id in ("np", "numpy") and c.args:
                for p in self.paths(c.args[0]):
                    if not is_fresh(p) and p[-1] != IN:
                        self.events.append(Event("MutCall", p, c, self.fn, "np.%s.at" % f.value.attr))
        for k in c.keywords:
            if k.arg == "out":
                for p in self.paths(k.value):
                    if not is_fresh(p) and p[-1] != IN:
                        self.events.append(Event("MutCall", p, c, self.fn, "out="))
        callees = self.an.resolve(c, self)
        if callees:
            self.calls.append((c, callees))
        elif isinstance(f, ast.Name) and f.id == "reduce" and len(c.args) >= 2:
            tgt = self.an.resolve_expr_callable(c.args[0], self)
            if tgt:
                self.calls.append((c, [(cal, ("reduce", b)) for cal, b in tgt]))


class Analysis:
    """Whole-package effect analysis with name-based (class-hierarchy) call resolution."""

    def __init__(self, pkg):
        self.pkg = pkg
        self.fns = {}           # qualified name -> FunctionDef
        self.by_name = {}       # simple method/function name -> [FunctionDef]
        for q, fn in pkg.all_functions():
            self.fns[q] = fn
            self.by_name.setdefault(fn.name, []).append(fn)
        self._fresh_cache = {}
        self._in_progress = set()
        self.facts = {}
        # nested functions
        for q, fn in list(self.fns.items()):
            for node in ast.walk(fn):
                if isinstance(node, ast.FunctionDef) and node is not fn:
                    node._gs_module = getattr(fn, "_gs_module", None)
                    node._gs_class = None
                    node._gs_nested_in = fn
                    self.fns[q + ".<locals>." + node.name] = node
        for q, fn in self.fns.items():
            self.get(fn)
        self._summaries = None

    def get(self, fn):
        if fn not in self.facts:
            if fn in self._in_progress:
                return None
            self._in_progress.add(fn)
            self.facts[fn] = FunctionFacts(self.pkg, fn, self)
            self._in_progress.discard(fn)
        return self.facts[fn]

    # ------------------------------------------------------------------ resolution
    def resolve(self, c, facts):
        """[(callee FunctionDef, binding)] where binding tells how arguments map: 'method' (receiver = self),
        'function', 'ctor' (self is fresh), 'unbound' (explicit self as first arg)."""
        f = c.func
        pkg = self.pkg
        if isinstance(f, ast.Name):
            if f.id in facts.nested:
                return [(facts.nested[f.id], "function")]
            fk_ = pkg.func_key(f.id, getattr(facts.fn, "_gs_module", None))
            if fk_ is not None:
                return [(pkg.funcs[fk_], "function")]
            if f.id in pkg.classes or f.id == "cls":
                names = [f.id] if f.id in pkg.classes else ([facts.fn._gs_class] if getattr(facts.fn, "_gs_class", None) else [])
                out = []
                for n in names:
                    for m in ("__new__", "__init__"):
                        k = pkg.lookup(n, m)
                        if k and k[0] == "method":
                            out.append((k[1][0], "ctor"))
                return out
            return []
        if isinstance(f, ast.Attribute):
            # super().m(...)
            if isinstance(f.value, ast.Call) and isinstance(f.value.func, ast.Name) and f.value.func.id == "super":
                cls = getattr(facts.fn, "_gs_class", None)
                out = []
                if cls:
                    for base in pkg.mro(cls)[1:]:
                        ci = pkg.classes[base]
                        if f.attr in ci.methods:
                            out.append((ci.methods[f.attr][0], "super"))
                            break
                return out
            # Class.m(...)  (unbound / classmethod / staticmethod) incl. nested classes A.B.m
            dotted = _dotted(f.value)
            if dotted is not None:
                cname = dotted if dotted in pkg.classes else (dotted.split(".")[-1] if dotted.split(".")[-1] in pkg.classes else None)
                if dotted == "cls" and getattr(facts.fn, "_gs_class", None):
                    cname = facts.fn._gs_class
                if cname is not None and dotted not in facts.env and dotted not in facts.params or dotted == "cls":
                    if cname is not None:
                        k = pkg.lookup(cname, f.attr)
                        if k and k[0] == "method":
                            fn, is_cm, is_sm = k[1]
                            return [(fn, "function" if is_sm else ("classmethod" if is_cm else "unbound"))]
                        if cname in pkg.classes and f.attr in pkg.classes[cname].inner:
                            inner = pkg.classes[cname].inner[f.attr]
                            out = []
                            for m in ("__new__", "__init__"):
                                kk = pkg.lookup(inner, m)
                                if kk and kk[0] == "method":
                                    out.append((kk[1][0], "ctor"))
                            return out
                        return []
            # obj.m(...): every method of that name in the package (class-hierarchy analysis by name), narrowed to the
            # receiver's class family when that is evident (self, or a path through a typed attribute)
            fam = self.receiver_family(f.value, facts)
            out = []
            for fn in self.by_name.get(f.attr, []):
                if getattr(fn, "_gs_class", None) is None:
                    continue
                if fam is not None and not (pkg.is_subclass(fn._gs_class, fam) or pkg.is_subclass(fam, fn._gs_class)):
                    continue
                ci = pkg.classes[fn._gs_class]
                if f.attr in ci.methods:
                    _, is_cm, is_sm = ci.methods[f.attr]
                    out.append((fn, "function" if is_sm else ("classmethod" if is_cm else "method")))
            return out
        return []

    FAMILY_OF_ATTR = {"pose": "BasePose", "estimate": "BasePose", "offset": "BasePose", "inverse": "BasePose", "value": "BasePose",
                      "_edges": "BaseEdge", "edges": "BaseEdge", "_vertices": "Vertex", "vertices": "Vertex"}

    def receiver_family(self, recv, facts):
        cls = getattr(facts.fn, "_gs_class", None)
        if isinstance(recv, ast.Name) and recv.id == "self" and cls:
            return cls
        fams = set()
        for p in facts.paths(recv):
            if is_fresh(p):
                return None
            if p == ("self",) and cls:
                fams.add(cls)
                continue
            attrs = [x[1:] for x in p[1:] if x.startswith(".")]
            if not attrs or attrs[-1] not in self.FAMILY_OF_ATTR:
                return None
            fams.add(self.FAMILY_OF_ATTR[attrs[-1]])
        if len(fams) == 1:
            f = fams.pop()
            return f if f in self.pkg.classes else None
        return None

    def resolve_expr_callable(self, e, facts):
        """A callable passed as a value (reduce(f, ...))."""
        fake = ast.Call(func=e, args=[], keywords=[])
        return self.resolve(fake, facts)

    # ------------------------------------------------------------------ return summaries
    def returns_fresh(self, fn):
        if fn in self._fresh_cache:
            return self._fresh_cache[fn]
        self._fresh_cache[fn] = False   # recursion guard: assume not fresh
        facts = self.get(fn)
        res = facts is not None and all(is_fresh(p) for p in facts.returns)
        self._fresh_cache[fn] = res
        return res

    def arg_paths(self, callee, binding, c, facts):
        """Map callee parameter names to caller path sets."""
        cf = self.get(callee)
        params = list(cf.params) if cf else [a.arg for a in callee.args.args]
        m = {}
        pos = list(c.args)
        if binding in ("method", "super"):
            recv = c.func.value if binding == "method" else ast.Name(id="self", ctx=ast.Load())
            m[params[0]] = facts.paths(recv) if params else set()
            rest = params[1:]
        elif binding == "ctor":
            m[params[0]] = {FRESH} if params else set()
            rest = params[1:]
        elif binding == "classmethod":
            m[params[0]] = {FRESH} if params else set()
            rest = params[1:]
        else:
            rest = params
        for p, a in zip(rest, pos):
            m[p] = facts.paths(a)
        for k in c.keywords:
            if k.arg in params:
                m[k.arg] = facts.paths(k.value)
        return m

    def map_returns(self, callee, binding, c, facts):
        if isinstance(binding, tuple):
            return {FRESH}
        cf = self.get(callee)
        if cf is None:
            return {FRESH}
        if binding == "ctor":
            if callee.name != "__new__":
                return {FRESH}
        m = self.arg_paths(callee, binding, c, facts)
        return self._subst(cf.returns, m)

    def map_returns_args(self, callee, argsets):
        cf = self.get(callee)
        if cf is None:
            return {FRESH}
        m = {p: s for p, s in zip(cf.params, argsets)}
        return self._subst(cf.returns, m)

    @staticmethod
    def _subst(paths, m):
        out = set()
        for p in paths:
            if is_fresh(p):
                out.add(FRESH)
            elif p[0] in m:
                for q in m[p[0]]:
                    out.add(FRESH if is_fresh(q) else extend(q, p[1:]))
            else:
                out.add(p)
        return out

    # ------------------------------------------------------------------ transitive effects
    def effects(self, fn, _stack=None, max_depth=12):
        """All events reachable from fn, with paths expressed in terms of fn's own parameters."""
        if self._summaries is None:
            self._summaries = {}
        if fn in self._summaries:
            return self._summaries[fn]
        _stack = _stack or []
        if fn in _stack or len(_stack) > max_depth:
            return []
        facts = self.get(fn)
        if facts is None:
            return []
        out = list(facts.events)
        for c, callees in facts.calls:
            for callee, binding in callees:
                if isinstance(binding, tuple) and binding[0] == "reduce":
                    cf = self.get(callee)
                    argsets = [facts.paths(c.args[2]) if len(c.args) > 2 else {FRESH},
                               {elem(p) for p in facts.paths(c.args[1])}]
                    # the accumulator is also whatever the function returns
                    argsets[0] = argsets[0] | self.map_returns_args(callee, argsets)
                    m = {p: s for p, s in zip(cf.params, argsets)} if cf else {}
                else:
                    m = self.arg_paths(callee, binding, c, facts)
                for ev in self.effects(callee, _stack + [fn]):
                    for p in self._subst({ev.path}, m):
                        if not is_fresh(p) and p[-1] != IN:
                            out.append(Event(ev.kind, p, ev.node, ev.fn, ev.op, ev.value,
                                             via=[fn_label(fn)] + (ev.via or [fn_label(ev.fn)])))
        if not _stack:
            self._summaries[fn] = out
        return out


def _dotted(e):
    if isinstance(e, ast.Name):
        return e.id
    if isinstance(e, ast.Attribute):
        b = _dotted(e.value)
        return None if b is None else b + "." + e.attr
    return None


def touches_protected(path):
    """Is the written location a protected attribute itself or an element of the array it holds
    (x.pose, x.pose[], x.information[][]) -- not some other object merely reached through one (x.pose._cache)?"""
    sels = [x for x in path[1:] if x != IN]
    while sels and sels[-1] == "[]":
        sels.pop()
    return bool(sels) and sels[-1].startswith(".") and sels[-1][1:] in PROTECTED_ATTRS


def last_attr(path):
    for s in reversed(path[1:]):
        if s.startswith("."):
            return s[1:]
    return None


_PERTURB_CACHE = {}


def numerical_jacobian_functions(pkg):
    """(BaseEdge._calc_jacobian with its private helpers inlined, the set of original FunctionDefs that make it up).
    Stores to `.pose` inside these functions are the perturb/restore pair of numerical differentiation (rule C15-E2)."""
    key = id(pkg)
    if key not in _PERTURB_CACHE:
        from .inline import inline_helpers
        fn = pkg.own_method("BaseEdge", "_calc_jacobian")
        if fn is None:
            _PERTURB_CACHE[key] = (None, set())
        else:
            keep = ("calc_error", "calc_chi2", "calc_jacobians", "calc_chi2_gradient_hessian", "is_valid", "_is_valid")
            new, inl = inline_helpers(pkg, fn, keep=keep)
            # plus every private helper it reaches (generators, context managers, module functions): stores to `.pose` in them are
            # the perturbation / restoration too.  Whether they pair up correctly is decided by rule C15-E2, not here.
            reach, todo = {fn} | set(inl), [fn] + list(inl)
            while todo:
                f = todo.pop()
                for c in ast.walk(f):
                    if not isinstance(c, ast.Call):
                        continue
                    g = None
                    if isinstance(c.func, ast.Attribute) and isinstance(c.func.value, ast.Name) and c.func.value.id == "self" and c.func.attr not in keep:
                        k = pkg.lookup("BaseEdge", c.func.attr)
                        if k is not None and k[0] == "method":
                            g = k[1][0]
                    elif isinstance(c.func, ast.Name) and pkg.func_key(c.func.id, getattr(f, "_gs_module", None)) is not None and c.func.id not in keep:
                        g = pkg.funcs[pkg.func_key(c.func.id, getattr(f, "_gs_module", None))]
                    if g is not None and g not in reach and getattr(g, "_gs_module", "").endswith("base_edge.py"):
                        reach.add(g)
                        todo.append(g)
            _PERTURB_CACHE[key] = (new, reach)
    return _PERTURB_CACHE[key]


def is_numjac_perturbation(pkg, ev):
    _, fns = numerical_jacobian_functions(pkg)
    return ev.kind == "AttrStore" and last_attr(ev.path) == "pose" and ev.fn in fns
