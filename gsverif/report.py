"""Verdict protocol, evidence files, known-findings handling (DESIGN 1.7)."""
import json
import os
import sys
import time
import traceback

VERIF = os.path.dirname(os.path.dirname(os.path.abspath(__file__)))
KNOWN_FILE = os.path.join(VERIF, "known_findings.txt")


def load_known():
    """known: property=<id> key=<key> <what>   /   fixed: property=<id> <commit> <what>  (fixed suppresses nothing)"""
    known = {}
    if os.path.exists(KNOWN_FILE):
        for line in open(KNOWN_FILE, encoding="utf-8"):
            line = line.strip()
            if not line.startswith("known:"):
                continue
            parts = line[len("known:"):].split(None, 2)
            if len(parts) < 2 or not parts[0].startswith("property=") or not parts[1].startswith("key="):
                continue
            known[(parts[0][len("property="):], parts[1][len("key="):])] = parts[2] if len(parts) > 2 else ""
    return known


class Run:
    def __init__(self, prop, tier, repo, level, pkg=None, only=None):
        self.prop, self.tier, self.repo, self.level = prop, tier, repo, level
        self.pkg = pkg
        self.only = only
        self.t0 = time.time()
        self.instances = []      # every rule instance / obligation examined: dict(key, rule, ok, ...)
        self.violations = []     # dict(key, rule, construct, where, what, detail)
        self.known_hits = []
        self.notes = []
        self.samples = []
        self.extra = {}
        self.assumptions = []
        self.trusted_base = []
        self.explanation = ""
        self.rule_text = ""
        self.known = load_known()
        self.analysis_errors = []
        self.floors = []         # (what, found, minimum)
        self.nontrivial_keys = set()

    # ------------------------------------------------------------------ recording
    def wants(self, key):
        return self.only is None or self.only == key or key.startswith(self.only)

    def ok(self, key, rule, detail=None, nontrivial=True, sample=None):
        self.instances.append(dict(key=key, rule=rule, ok=True, detail=detail))
        if nontrivial:
            self.nontrivial_keys.add(key)
        if sample is not None and len(self.samples) < 12:
            self.samples.append(sample)

    def violation(self, key, rule, what, where=None, detail=None):
        self.instances.append(dict(key=key, rule=rule, ok=False, detail=what))
        self.nontrivial_keys.add(key)
        v = dict(key=key, rule=rule, what=what, where=where, detail=detail)
        if (self.prop, key) in self.known:
            self.known_hits.append(v)
        else:
            self.violations.append(v)

    def check(self, cond, key, rule, what, where=None, detail=None, sample=None):
        if cond:
            self.ok(key, rule, sample=sample)
        else:
            self.violation(key, rule, what, where, detail)
        return cond

    def error(self, msg):
        self.analysis_errors.append(msg)

    def floor(self, what, found, minimum):
        self.floors.append((what, found, minimum))
        if found < minimum:
            self.error("anchor vanished: %s: found %d, confirmed minimum %d" % (what, found, minimum))

    def note(self, msg):
        self.notes.append(msg)

    # ------------------------------------------------------------------ finishing
    def finish(self):
        wall = time.time() - self.t0
        os.makedirs(os.path.join(VERIF, "out"), exist_ok=True)
        os.makedirs(os.path.join(VERIF, "evidence"), exist_ok=True)
        n_inst = len(self.instances)
        n_ok = sum(1 for i in self.instances if i["ok"])
        for v in self.known_hits:
            print("KNOWN-FINDING: property=%s %s -- %s" % (self.prop, v["key"], v["what"]))
        code = 0
        if self.analysis_errors:
            for e in self.analysis_errors:
                print("ANALYSIS-ERROR property=%s %s" % (self.prop, e))
            code = 2
        replay_paths = []
        for i, v in enumerate(self.violations):
            safe = "".join(ch if ch.isalnum() or ch in "-_." else "_" for ch in v["key"])[:120]
            path = os.path.join(VERIF, "out", "%s-%s.json" % (self.prop, safe))
            with open(path, "w") as f:
                json.dump(dict(property=self.prop, tier=self.tier, repo=self.repo, **v), f, indent=1, default=str)
            replay_paths.append(path)
            print("  rule=%s construct=%s where=%s\n    %s" % (v["rule"], v["key"], v.get("where"), v["what"]))
            print("VIOLATION property=%s replay=%s" % (self.prop, path))
            code = 1 if code == 0 else code
        if self.violations and code == 2:
            code = 1  # a found violation is a violation even if another part of the analysis gave up
        if self.only is None and not getattr(self, "no_evidence", False):
            self.write_evidence(wall, n_inst, n_ok)
        status = {0: "HOLDS", 1: "VIOLATED", 2: "UNDECIDED"}[code]
        print("%s %s tier=%s instances=%d ok=%d violations=%d known=%d wall=%.2fs" % (
            self.prop, status, self.tier, n_inst, n_ok, len(self.violations), len(self.known_hits), wall))
        return code

    def write_evidence(self, wall, n_inst, n_ok):
        cov = dict(self.extra)
        units = self.pkg.units_summary() if self.pkg is not None else []
        cov["parsed_units"] = units
        cov["rule_instances"] = n_inst
        cov["rule_instances_ok"] = n_ok
        cov["floors"] = [dict(what=w, found=f, minimum=m) for w, f, m in self.floors]
        cov["known_findings_matched"] = [v["key"] for v in self.known_hits]
        cov["notes"] = self.notes
        samples = self.samples or [i for i in self.instances[:5]]
        if self.level == "proof":
            cov["obligations"] = n_inst
            cov["discharged"] = n_ok
            cov["checker_cmd"] = "./check %s --tier %s" % (self.prop, self.tier)
            cov["trusted_base"] = self.trusted_base
            cov["samples"] = samples
            cov["explanation"] = self.explanation
        else:
            cov["evaluations"] = int(self.extra.get("evaluations", n_inst))
            cov["distinct_nontrivial"] = int(self.extra.get("distinct_nontrivial", len(self.nontrivial_keys)))
            cov["rule"] = self.rule_text or ("rule instances are keyed by (rule, construct); an instance is non-trivial "
                                             "when the rule matched an actual construct of the source (non-vacuous)")
            cov["samples"] = samples
            cov["explanation"] = self.explanation
            cov["trusted_base"] = self.trusted_base
            if self.level == "exploration":
                cov["exhaustive"] = bool(self.extra.get("exhaustive", False))
        ev = dict(property_id=self.prop, tier=self.tier, seed=int(os.environ.get("VERIF_SEED", "0") or 0),
                  level=self.level,
                  coverage=cov, assumptions=self.assumptions, wall_s=round(wall, 3),
                  violations=len(self.violations))
        path = os.path.join(VERIF, "evidence", "%s.json" % self.prop)
        tmp = path + ".tmp"
        with open(tmp, "w") as f:
            json.dump(ev, f, indent=1, default=str)
        os.replace(tmp, path)


def guarded(fn):
    """Map any unexpected exception to ANALYSIS-ERROR / exit 2 (a traceback must never look like a violation)."""
    try:
        return fn()
    except SystemExit:
        raise
    except BaseException as e:  # noqa
        traceback.print_exc(file=sys.stderr)
        print("ANALYSIS-ERROR %s: %s" % (type(e).__name__, e))
        return 2
