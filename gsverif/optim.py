"""CFG / typestate / effect analysis of Graph.optimize (serves C03-d, C04-iii, C06-a/b/d, C11-Q2, C12).

The optimizer loop is *not* interpreted: it is analysed as a control-flow graph with a finite abstract state that is
propagated to a fixpoint.  The state is a set of records (a small powerset domain, so the correlation between
"first iteration" and the `i > 0` test is kept):

  phase      pre | first | later | post      position relative to the main `for i in range(max_iter)` loop
  pristine   no pose has been written yet in this call
  sweeps     number of pose-update sweeps executed in the current iteration (0, 1, 2 = many)
  appends    number of `iteration_results.append` executed in the current iteration
  since      number of appends since the last sweep
  tested     no | false | true               outcome of the convergence test in the current iteration
  tags       {(variable, tag)}  tag in INIT (chi^2 of the entry state), CUR (chi^2 of the current poses), PREV (chi^2 of the
             poses before the last sweep)
  written    self.* attributes definitely assigned so far in this call
"""
import ast
from collections import namedtuple

from . import poly
from .poly import Poly
from .cfg import CFG, enclosing_guards
from .effects import Analysis, last_attr, path_str
from .model import AnalysisError, fn_label

State = namedtuple("State", "phase pristine sweeps appends since tested tags written")

ALLOWED_EXPOSED_READS = {"_vertices", "_edges", "_len_gradient"}


class Finding:
    def __init__(self, key, rule, ok, what="", where=None, undecided=False):
        self.key, self.rule, self.ok, self.what, self.where = key, rule, ok, what, where
        self.undecided = undecided       # the recogniser does not know this way of writing the code: no verdict, not a violation


def unp(e):
    return ast.unparse(e)


class OptimizeAnalysis:
    def __init__(self, pkg):
        self.pkg = pkg
        self.an = Analysis(pkg)
        self.fn_orig = pkg.method("Graph", "optimize")
        from .inline import inline_helpers
        # private helpers that optimize() was split into are inlined; the two chi^2-computing methods keep their role as calls
        self.fn, self.inlined = inline_helpers(pkg, self.fn_orig, keep=("_calc_chi2_gradient_hessian", "calc_chi2", "_initialize"))
        self.an.fns["Graph.optimize<inlined>"] = self.fn
        self.findings = []
        self.mod = self.fn._gs_module
        a = self.fn.args
        self.params = [x.arg for x in a.args]
        for need in ("tol", "max_iter", "fix_first_pose", "verbose"):
            if need not in self.params:
                raise AnalysisError("anchor vanished: Graph.optimize has no parameter %s" % need)
        self.guards = enclosing_guards(self.fn)
        self._roles()
        self.cfg = CFG_atomic(self.fn, self.sweep_loops)
        self.cfg_full = CFG(self.fn)
        self._node_roles()

    # ------------------------------------------------------------------ helpers
    def w(self, node):
        return "%s:%d" % (self.mod, getattr(node, "lineno", 0))

    def add(self, key, rule, ok, what="", node=None, undecided=False):
        self.findings.append(Finding(key, rule, bool(ok), what, self.w(node) if node is not None else None, undecided=undecided and not ok))
        return ok

    def is_results_list(self, e):
        if isinstance(e, ast.Attribute) and e.attr == "iteration_results" and isinstance(e.value, ast.Name) and e.value.id == self.ret_var:
            return True
        return isinstance(e, ast.Name) and e.id in self.results_aliases

    def resolve(self, expr, stmt, depth=0):
        """Copy propagation: replace local names in `expr` (evaluated at statement `stmt`) by their unique reaching definitions."""
        import copy
        n = self.cfg_full.node_of(stmt)
        if n is None or depth > 4:
            return expr
        oa = self

        class R(ast.NodeTransformer):
            def visit_Name(self, node):
                if isinstance(node.ctx, ast.Load) and node.id not in oa.params and node.id != "self":
                    d = unique_reaching_def(oa.cfg_full, node.id, n)
                    if d is not None and not any(isinstance(x, ast.Call) and "solve" in ast.unparse(x.func) for x in ast.walk(d)):
                        dn = None
                        for m in oa.cfg_full.reachable():
                            st = oa.cfg_full.stmt[m]
                            if isinstance(st, ast.Assign) and st.value is d:
                                dn = st
                        return oa.resolve(copy.deepcopy(d), dn, depth + 1) if dn is not None else copy.deepcopy(d)
                return node
        return R().visit(copy.deepcopy(expr))

    # ------------------------------------------------------------------ roles located by effect / shape, not by line
    def _roles(self):
        fn = self.fn
        self.ret_var = None
        self.main_loop = None
        self.sweep_loops = []
        for st in ast.walk(fn):
            if isinstance(st, ast.Assign) and isinstance(st.value, ast.Call) and isinstance(st.value.func, ast.Name) and \
                    st.value.func.id == "OptimizationResult" and len(st.targets) == 1 and isinstance(st.targets[0], ast.Name):
                self.ret_var = st.targets[0].id
        if self.ret_var is None:
            raise AnalysisError("anchor vanished: Graph.optimize does not create an OptimizationResult")
        def top_level(stmts):
            for st in stmts:
                yield st
                if isinstance(st, ast.With):
                    yield from top_level(st.body)
                elif isinstance(st, ast.Try):
                    yield from top_level(st.body)
                    yield from top_level(st.finalbody)
        for st in top_level(fn.body):
            if isinstance(st, ast.For) and isinstance(st.iter, ast.Call) and isinstance(st.iter.func, ast.Name) and \
                    st.iter.func.id == "range" and len(st.iter.args) == 1 and isinstance(st.target, ast.Name):
                if self.main_loop is not None:
                    raise AnalysisError("Graph.optimize has more than one top-level range() loop")
                self.main_loop = st
        if self.main_loop is None:
            raise AnalysisError("anchor vanished: Graph.optimize has no top-level `for <i> in range(<n>)` loop")
        # local aliases of the result list:  results = ret.iteration_results
        self.results_aliases = set()
        for st in ast.walk(fn):
            if isinstance(st, ast.Assign) and len(st.targets) == 1 and isinstance(st.targets[0], ast.Name) and \
                    isinstance(st.value, ast.Attribute) and st.value.attr == "iteration_results" and \
                    isinstance(st.value.value, ast.Name) and st.value.value.id == self.ret_var:
                self.results_aliases.add(st.targets[0].id)
        self.loop_var = self.main_loop.target.id
        self.loop_bound = self.main_loop.iter.args[0]
        # pose-update sweeps: loops whose body stores `<x>.pose`
        for st in ast.walk(fn):
            if isinstance(st, (ast.For, ast.While)) and st is not self.main_loop and self._stores_pose(st):
                self.sweep_loops.append(st)

    def _stores_pose(self, node):
        for x in ast.walk(node):
            if isinstance(x, ast.Attribute) and isinstance(x.ctx, ast.Store) and x.attr == "pose":
                return True
            # element writes into a pose:  v.pose[...] = / op=
            if isinstance(x, ast.Subscript) and isinstance(x.ctx, ast.Store):
                b = x.value
                while isinstance(b, (ast.Subscript, ast.Attribute)):
                    if isinstance(b, ast.Attribute) and b.attr == "pose":
                        return True
                    b = b.value
        return False

    def _call_effects(self, call):
        """(stores_chi2, stores_pose, must-written self attrs, exposed self reads) of a `self.m(...)` call."""
        f = call.func
        if not (isinstance(f, ast.Attribute) and isinstance(f.value, ast.Name) and f.value.id == "self"):
            return None
        k = self.pkg.lookup("Graph", f.attr)
        if k is None or k[0] != "method":
            return None
        callee = k[1][0]
        evs = self.an.effects(callee)
        stores_chi2 = any(e.kind == "AttrStore" and path_str(e.path) == "self._chi2" for e in evs)
        from .effects import is_numjac_perturbation
        def writes_pose_value(e):
            sels = list(e.path[1:])
            if e.kind == "AttrStore":
                return bool(sels) and sels[-1] == ".pose"
            # element / in-place writes directly into a pose array: ... .pose [] []
            while sels and sels[-1] == "[]":
                sels.pop()
            return bool(sels) and sels[-1] == ".pose" and e.kind in ("ElemStore", "MutCall", "AugName")
        stores_pose = any(writes_pose_value(e) and not is_numjac_perturbation(self.pkg, e) for e in evs)
        written, exposed = self_reads_writes(self.pkg, callee)
        return callee, stores_chi2, stores_pose, written, exposed

    def _node_roles(self):
        cfg = self.cfg
        self.role = {}
        self.main_header = cfg.node_of(self.main_loop)
        for n in sorted(cfg.reachable()):
            st, kind = cfg.stmt[n], cfg.kind[n]
            if st is None:
                continue
            if st in self.sweep_loops:
                self.role[n] = ("sweep", st)
                continue
            if kind == "stmt" and isinstance(st, (ast.Assign, ast.AugAssign)) and self._stores_pose(st):
                self.role[n] = ("sweep", st)
                continue
            if kind == "stmt" and isinstance(st, ast.Expr) and isinstance(st.value, ast.Call) and isinstance(st.value.func, ast.Attribute):
                # an in-place method on a pose (v.pose.normalize(), v.pose.fill(...), np.copyto is handled through effects)
                from .effects import MUTATOR_METHODS
                recv = st.value.func.value
                if st.value.func.attr in MUTATOR_METHODS and any(isinstance(x, ast.Attribute) and x.attr == "pose" for x in ast.walk(recv)):
                    self.role[n] = ("sweep", st)
                    continue
            calls = [x for x in ast.walk(st) if isinstance(x, ast.Call)] if kind in ("stmt", "return") else \
                    [x for e in header_of(st, kind) for x in ast.walk(e) if isinstance(x, ast.Call)]
            for c in calls:
                eff = self._call_effects(c)
                if eff is not None:
                    callee, stores_chi2, stores_pose, written, exposed = eff
                    if stores_pose:
                        self.role[n] = ("sweep", st)
                    elif stores_chi2:
                        self.role[n] = ("compute", st, callee)
                f = c.func
                if isinstance(f, ast.Attribute) and f.attr == "append" and self.is_results_list(f.value):
                    self.role.setdefault(n, ("append", st))
                name = f.attr if isinstance(f, ast.Attribute) else (f.id if isinstance(f, ast.Name) else "")
                if "solve" in name and n not in self.role:
                    self.role[n] = ("solve", st, c)
        self.compute_nodes = [n for n, r in self.role.items() if r[0] == "compute"]
        self.sweep_nodes = [n for n, r in self.role.items() if r[0] == "sweep"]
        self.solve_nodes = [n for n, r in self.role.items() if r[0] == "solve"]
        self.append_nodes = [n for n, r in self.role.items() if r[0] == "append"]
        self.return_nodes = [n for n in cfg.reachable() if cfg.kind[n] == "return"]
        # the convergence test: the innermost If inside the main loop whose True or False arm ends in a return
        self.conv_if = None
        def leaves_main_loop(stmts):
            # a `return`, or a `break` that belongs to the main loop (not to a loop nested in these statements)
            for x in stmts:
                if isinstance(x, (ast.Return, ast.Break)):
                    return True
                if isinstance(x, (ast.If, ast.With, ast.Try)):
                    for fld in ("body", "orelse", "finalbody"):
                        if leaves_main_loop(getattr(x, fld, []) or []):
                            return True
            return False

        def in_main_loop_only(target):
            # is `target` nested in the main loop without an intermediate loop?
            def rec(stmts):
                for x in stmts:
                    if x is target:
                        return True
                    if isinstance(x, (ast.For, ast.While)):
                        if any(y is target for y in ast.walk(x)):
                            return any(isinstance(y, ast.Return) for y in ast.walk(target))   # only a return leaves from a nested loop
                        continue
                    for fld in ("body", "orelse", "finalbody"):
                        if rec(getattr(x, fld, []) or []):
                            return True
                    for h in getattr(x, "handlers", []) or []:
                        if rec(h.body):
                            return True
                return False
            return rec(self.main_loop.body)
        for st in ast.walk(self.main_loop):
            if isinstance(st, ast.If) and st not in (self.main_loop,) and leaves_main_loop(st.body) and self._test_mentions_chi2(st.test) \
                    and in_main_loop_only(st):
                self.conv_if = st
        self.conv_node = cfg.node_of(self.conv_if) if self.conv_if is not None else None

    def _test_mentions_chi2(self, test):
        names = {x.id for x in ast.walk(test) if isinstance(x, ast.Name)}
        attrs = {x.attr for x in ast.walk(test) if isinstance(x, ast.Attribute)}
        return "_chi2" in attrs or bool(names - {self.loop_var, "verbose"})

    # ------------------------------------------------------------------ abstract semantics
    def loopvar_test(self, test):
        """(truth in the first iteration, truth in later iterations) of a test on the loop variable, or None."""
        i = self.loop_var
        if isinstance(test, ast.Name) and test.id == i:
            return (False, True)
        if isinstance(test, ast.UnaryOp) and isinstance(test.op, ast.Not):
            r = self.loopvar_test(test.operand)
            return None if r is None else (not r[0], not r[1])
        if isinstance(test, ast.Compare) and len(test.ops) == 1:
            l, r, op = test.left, test.comparators[0], test.ops[0]
            if isinstance(r, ast.Name) and r.id == i and isinstance(l, ast.Constant):
                l, r = r, l
                op = {ast.Lt: ast.Gt, ast.Gt: ast.Lt, ast.LtE: ast.GtE, ast.GtE: ast.LtE}.get(type(op), type(op))()
            if isinstance(l, ast.Name) and l.id == i and isinstance(r, ast.Constant) and isinstance(r.value, (int, float)):
                c = r.value
                def ev(v):
                    return {ast.Gt: v > c, ast.GtE: v >= c, ast.Lt: v < c, ast.LtE: v <= c, ast.Eq: v == c, ast.NotEq: v != c}.get(type(op))
                first = ev(0)
                later = {ev(1), ev(2), ev(10 ** 6)}
                if first is None or len(later) != 1:
                    return None
                return (first, later.pop())
        return None

    def var_key(self, e):
        """Tracked variable key of an expression (locals, self._chi2, <ret>.<field>), or None."""
        if isinstance(e, ast.Name):
            return e.id
        if isinstance(e, ast.Attribute) and isinstance(e.value, ast.Name) and e.value.id in ("self", self.ret_var):
            return "%s.%s" % (e.value.id, e.attr)
        # <ret>.iteration_results[-1] / [-2]: the most recently / previously appended IterationResult object
        if isinstance(e, ast.Subscript) and self.is_results_list(e.value):
            idx = e.slice
            if isinstance(idx, ast.UnaryOp) and isinstance(idx.op, ast.USub) and isinstance(idx.operand, ast.Constant):
                return {1: "$last", 2: "$last2"}.get(idx.operand.value)
        return None

    def index_from_loopvar(self, e):
        """<ret>.iteration_results[<loop var> - k] -> ("loopvar", k);  [<loop bound> - k] -> ("bound", k);  else None"""
        if not (isinstance(e, ast.Subscript) and self.is_results_list(e.value)):
            return None
        idx = e.slice
        k = 0
        if isinstance(idx, ast.BinOp) and isinstance(idx.op, ast.Sub) and isinstance(idx.right, ast.Constant) and isinstance(idx.right.value, int):
            idx, k = idx.left, idx.right.value
        if isinstance(idx, ast.Name) and idx.id == self.loop_var:
            return ("loopvar", k)
        if ast.dump(idx) == ast.dump(self.loop_bound):
            return ("bound", k)
        return None

    def transfer(self, n, s, label):
        cfg = self.cfg
        st, kind = cfg.stmt[n], cfg.kind[n]
        if st is None:
            return s
        if n == self.main_header:
            if label is True:
                phase = "first" if s.phase == "pre" else "later"
                return s._replace(phase=phase, sweeps=0, appends=0, tested="no")
            if s.phase == "pre":
                return None  # max_iter >= 1 (property quantifier)
            return s._replace(phase="post", sweeps=0, appends=0, tested="no")
        if kind == "if":
            lt = self.loopvar_test(st.test)
            if lt is not None and s.phase in ("first", "later"):
                truth = lt[0] if s.phase == "first" else lt[1]
                if label is not truth:
                    return None
            if n == self.conv_node:
                s = s._replace(tested="true" if label is True else "false")
            return s
        role = self.role.get(n)
        tags, written = set(s.tags), set(s.written)
        if role is not None and role[0] == "compute":
            callee = role[2]
            w2, _ = self_reads_writes(self.pkg, callee)
            written |= w2
            keys = ["self._chi2"]
            if isinstance(st, ast.Assign) and len(st.targets) == 1 and isinstance(st.value, ast.Call) and self.var_key(st.targets[0]):
                # x = self.calc_chi2(): the call returns the chi^2 it has just stored
                cfacts = self.an.get(callee)
                if cfacts is not None and cfacts.returns and all(path_str(p) == "self._chi2" for p in cfacts.returns):
                    keys.append(self.var_key(st.targets[0]))
            for k_ in keys:
                tags = {(v, t) for v, t in tags if v != k_}
                tags.add((k_, "CUR"))
                if s.pristine:
                    tags.add((k_, "INIT"))
            return s._replace(tags=frozenset(tags), written=frozenset(written))
        if role is not None and role[0] == "sweep":
            new = set()
            for v, t in tags:
                if t == "CUR":
                    new.add((v, "PREV"))
                elif t == "INIT":
                    new.add((v, t))
                elif t == "R_FRESH":
                    new.add((v, "R_SWEPT"))      # the result object of the iteration whose update produced the current poses
                elif t == "R_SWEPT":
                    new.add((v, "R_OLD"))
                elif t in ("R_NEW", "R_OLD"):
                    new.add((v, t))
            return s._replace(tags=frozenset(new), pristine=False, sweeps=min(2, s.sweeps + 1), since=0)
        if role is not None and role[0] == "append":
            call = None
            for x in ast.walk(st):
                if isinstance(x, ast.Call) and isinstance(x.func, ast.Attribute) and x.func.attr == "append":
                    call = x
            tags = {(v, t) for v, t in tags if v != "$last2"}
            tags |= {("$last2", t) for v, t in s.tags if v == "$last"}
            tags = {(v, t) for v, t in tags if v != "$last"}
            tags.add(("$last", "R_FRESH"))
            if call is not None and call.args and isinstance(call.args[0], ast.Name):
                k = call.args[0].id
                tags = {(v, t) for v, t in tags if v != k}
                tags.add((k, "R_FRESH"))
            return s._replace(tags=frozenset(tags), appends=min(2, s.appends + 1), since=min(2, s.since + 1))
        if kind == "stmt" and isinstance(st, (ast.Assign, ast.AugAssign, ast.AnnAssign)):
            targets = st.targets if isinstance(st, ast.Assign) else [st.target]
            for t in targets:
                k = self.var_key(t)
                if isinstance(t, ast.Attribute) and isinstance(t.value, ast.Name) and t.value.id == "self":
                    written.add(t.attr)
                if k is None:
                    continue
                tags = {(v, tg) for v, tg in tags if v != k}
                if isinstance(st, ast.Assign):
                    src = self.var_key(st.value)
                    rel = self.index_from_loopvar(st.value) if src is None else None
                    if rel is not None:
                        base, kk = rel
                        from_end = (s.appends + kk) if (base == "loopvar" and s.phase in ("first", "later")) else (kk if base == "bound" and s.phase == "post" else None)
                        src = {1: "$last", 2: "$last2"}.get(from_end)
                    if src is not None:
                        tags |= {(k, tg) for v, tg in s.tags if v == src}
                    elif isinstance(st.value, ast.Call) and unp(st.value.func).endswith("IterationResult"):
                        tags.add((k, "R_NEW"))
            return s._replace(tags=frozenset(tags), written=frozenset(written))
        if kind == "for" and isinstance(st.target, ast.Name):
            tags = {(v, tg) for v, tg in tags if v != st.target.id}
            return s._replace(tags=frozenset(tags))
        return s

    def solve(self):
        init = frozenset([State("pre", True, 0, 0, 0, "no", frozenset(), frozenset())])

        def transfer(n, states, label):
            out = set()
            for s in states:
                r = self.transfer(n, s, label)
                if r is not None:
                    out.add(r)
            return frozenset(out) if out else None

        self.state_in = self.cfg.forward(init, transfer, lambda a, b: a | b)
        return self.state_in

    def states_at(self, n):
        return self.state_in.get(n, frozenset())

    def tags_of(self, s, e):
        k = self.var_key(e)
        return {t for v, t in s.tags if v == k} if k is not None else set()


def header_of(st, kind):
    if kind in ("if", "while"):
        return [st.test]
    if kind == "for":
        return [st.iter]
    if kind == "with":
        return [i.context_expr for i in st.items]
    if kind == "assert":
        return [st.test]
    return []


class CFG_atomic(CFG):
    """CFG in which the given loop statements are treated as single (atomic) nodes."""

    def __init__(self, fn, atomic):
        self._atomic = set(atomic)
        super().__init__(fn)

    def _stmt(self, st, preds, loop, loops):
        if st in self._atomic:
            n = self.new(st, "atomic")
            self.loop_of[n] = loop[0] if loop else None
            self._connect(preds, n)
            return [(n, None)]
        return super()._stmt(st, preds, loop, loops)


# ------------------------------------------------------------------------------------------------ self.* def-use
_RW_CACHE = {}


def self_reads_writes(pkg, fn, _stack=()):
    """(attributes of self definitely written on every normal path, attributes of self that may be read before being
    written in this call) -- a forward must-analysis on the function's CFG, closed over `self.m()` calls."""
    key = (id(pkg), fn)
    if key in _RW_CACHE:
        return _RW_CACHE[key]
    if fn in _stack:
        return frozenset(), frozenset()
    cfg = CFG(fn)
    exposed = set()
    cls = getattr(fn, "_gs_class", None)

    def reads_of(exprs):
        out = []
        for e in exprs:
            for x in ast.walk(e):
                if isinstance(x, ast.Attribute) and isinstance(x.ctx, ast.Load) and isinstance(x.value, ast.Name) and x.value.id == "self":
                    out.append(x)
        return out

    def transfer(n, written, label):
        st, kind = cfg.stmt[n], cfg.kind[n]
        if st is None:
            return written
        exprs = header_of(st, kind) if kind in ("if", "while", "for", "with", "assert") else ([st] if kind != "try" else [])
        if isinstance(st, (ast.FunctionDef, ast.ClassDef)):
            exprs = []      # defining a nested function executes nothing of its body
        w = set(written)
        # calls first (their reads happen before this statement's own stores)
        for e in exprs:
            for x in ast.walk(e):
                if isinstance(x, ast.Call) and isinstance(x.func, ast.Attribute) and isinstance(x.func.value, ast.Name) \
                        and x.func.value.id == "self" and cls:
                    k = pkg.lookup(cls, x.func.attr)
                    if k is not None and k[0] == "method":
                        cw, ce = self_reads_writes(pkg, k[1][0], _stack + (fn,))
                        for a in ce:
                            if a not in w:
                                exposed.add(a)
                        w |= cw
        for x in reads_of(exprs):
            # method references (self.m) are not state
            k = pkg.lookup(cls, x.attr) if cls else None
            if k is not None and k[0] in ("method", "prop"):
                continue
            if x.attr not in w:
                exposed.add(x.attr)
        if kind in ("stmt",) and isinstance(st, (ast.Assign, ast.AnnAssign)):
            targets = st.targets if isinstance(st, ast.Assign) else [st.target]
            for t in targets:
                if isinstance(t, ast.Attribute) and isinstance(t.value, ast.Name) and t.value.id == "self":
                    w.add(t.attr)
        return frozenset(w)

    state_in = cfg.forward(frozenset(), transfer, lambda a, b: a & b)
    must = state_in.get(cfg.exit, frozenset())
    res = (frozenset(must), frozenset(exposed))
    if not _stack:
        _RW_CACHE[key] = res
    return res


# ------------------------------------------------------------------------------------------------ term normalisation
class TermEnv:
    """Normalise scalar expressions of optimize() into (numerator, denominator) polynomials over role atoms."""

    def __init__(self, oa, node, state):
        self.oa, self.node, self.state = oa, node, state
        self.roles_used = {}

    def atom_for(self, e):
        oa = self.oa
        tags = oa.tags_of(self.state, e)
        k = oa.var_key(e)
        if "CUR" in tags:
            self.roles_used[k] = "CUR"
            return Poly.var("CUR")
        if "PREV" in tags:
            self.roles_used[k] = "PREV"
            return Poly.var("PREV")
        return None

    def ev(self, e, depth=0):
        """-> (num Poly, den Poly) or None"""
        oa = self.oa
        if depth > 6:
            return None
        if isinstance(e, ast.Constant) and isinstance(e.value, (int, float)) and not isinstance(e.value, bool):
            return Poly.const(e.value), Poly.const(1)
        if isinstance(e, (ast.Name, ast.Attribute)):
            a = self.atom_for(e)
            if a is not None:
                return a, Poly.const(1)
            if isinstance(e, ast.Name) and e.id == "tol":
                return Poly.var("TOL"), Poly.const(1)
            if unp(e) in ("np.finfo(float).eps", "sys.float_info.epsilon", "numpy.finfo(float).eps"):
                return Poly.var("EPS"), Poly.const(1)
            if isinstance(e, ast.Name):
                d = unique_reaching_def(oa.cfg, e.id, self.node)
                if d is not None:
                    return self.ev(d, depth + 1)
                consts = oa.pkg.module_consts.get(oa.mod, {})
                if e.id in consts and e.id not in oa.params:
                    return self.ev(consts[e.id], depth + 1)
            if isinstance(e, ast.Attribute) and isinstance(e.value, ast.Name) and e.value.id == "self":
                # class-level constant of Graph
                k = oa.pkg.lookup("Graph", e.attr)
                if k is not None and k[0] == "const":
                    return self.ev(k[1], depth + 1)
            return None
        if isinstance(e, ast.Call) and unp(e.func) in ("np.finfo", "numpy.finfo"):
            return None
        if isinstance(e, ast.Attribute):
            return None
        if isinstance(e, ast.UnaryOp) and isinstance(e.op, ast.USub):
            r = self.ev(e.operand, depth)
            return None if r is None else (-r[0], r[1])
        if isinstance(e, ast.BinOp):
            if unp(e) in ("np.finfo(float).eps",):
                return Poly.var("EPS"), Poly.const(1)
            l, r = self.ev(e.left, depth), self.ev(e.right, depth)
            if l is None or r is None:
                return None
            (ln, ld), (rn, rd) = l, r
            if isinstance(e.op, ast.Add):
                return ln * rd + rn * ld, ld * rd
            if isinstance(e.op, ast.Sub):
                return ln * rd - rn * ld, ld * rd
            if isinstance(e.op, ast.Mult):
                return ln * rn, ld * rd
            if isinstance(e.op, ast.Div):
                return ln * rd, ld * rn
        return None


def unique_reaching_def(cfg, name, at_node):
    """The value expression of the assignment to local `name` that reaches `at_node` on every path, if unique."""
    defs = []
    for n in sorted(cfg.reachable()):
        st = cfg.stmt[n]
        if cfg.kind[n] == "stmt" and isinstance(st, ast.Assign) and any(isinstance(t, ast.Name) and t.id == name for t in st.targets):
            defs.append(n)
        elif cfg.kind[n] == "stmt" and isinstance(st, ast.AugAssign) and isinstance(st.target, ast.Name) and st.target.id == name:
            defs.append(n)
    if not defs:
        return None
    dom = cfg.dominators()
    cands = [d for d in defs if d in dom.get(at_node, set()) and d != at_node]
    if not cands:
        return None
    # closest dominating definition = the one dominated by all other candidates
    best = [d for d in cands if all(o in dom[d] for o in cands)]
    if not best:
        return None
    d = best[0]
    others = set(defs) - {d}
    # no other definition may lie on a path from d to at_node
    for o in others:
        if reaches_avoiding(cfg, d, o, {at_node}) and reaches_avoiding(cfg, o, at_node, {d}):
            return None
    st = cfg.stmt[d]
    return st.value if isinstance(st, ast.Assign) else None


def reaches_avoiding(cfg, src, dst, avoid):
    seen, todo = {src}, [src]
    while todo:
        x = todo.pop()
        for s, _ in cfg.succ[x]:
            if s == dst:
                return True
            if s in avoid or s in seen:
                continue
            seen.add(s)
            todo.append(s)
    return False


def documented_predicate():
    """chi2 <= chi2_prev  and  (chi2_prev - chi2) / (chi2_prev + eps) < tol   as normalised sign conditions."""
    CUR, PREV, TOL, EPS = (Poly.var(x) for x in ("CUR", "PREV", "TOL", "EPS"))
    c1 = ("<=", (CUR - PREV).key())
    c2 = ("<", (PREV - CUR - TOL * (PREV + EPS)).key(), (PREV + EPS).key())
    return {c1, c2}


def normalise_predicate(env, test):
    """Conjunction of comparisons -> set of normalised conditions, or None if not of that shape."""
    conj = test.values if isinstance(test, ast.BoolOp) and isinstance(test.op, ast.And) else [test]
    out = set()
    for c in conj:
        if isinstance(c, ast.Name):
            d = unique_reaching_def(env.oa.cfg, c.id, env.node)
            if d is None:
                return None
            sub = normalise_predicate(env, d)
            if sub is None:
                return None
            out |= sub
            continue
        if not (isinstance(c, ast.Compare) and len(c.ops) == 1):
            return None
        l, r = env.ev(c.left), env.ev(c.comparators[0])
        if l is None or r is None:
            return None
        op = type(c.ops[0])
        if op in (ast.Gt, ast.GtE):
            l, r = r, l
            op = ast.Lt if op is ast.Gt else ast.LtE
        if op not in (ast.Lt, ast.LtE):
            return None
        (ln, ld), (rn, rd) = l, r
        num, den = ln * rd - rn * ld, ld * rd          # l - r  = num / den   (compared with 0)
        sym = "<" if op is ast.Lt else "<="
        if den.const_value() is not None:
            if den.const_value() < 0:
                num = -num
            out.add((sym, num.key()))
        else:
            out.add((sym, num.key(), den.key()))
    return out
