"""CLI: ./check <PROPERTY> --tier quick|thorough [--repo /repo] [--replay file] [--only key]"""
import argparse
import importlib
import json
import os
import sys

from . import poly
from .model import Package, AnalysisError
from .report import Run, guarded

PROPS = ["C%02d" % i for i in range(1, 19)]


def main(argv=None):
    ap = argparse.ArgumentParser()
    ap.add_argument("prop")
    ap.add_argument("--tier", default=os.environ.get("VERIF_TIER") or "quick", choices=["quick", "thorough"])
    ap.add_argument("--repo", default=os.environ.get("VERIF_REPO") or "/repo")
    ap.add_argument("--replay")
    ap.add_argument("--only")
    ap.add_argument("--no-selftest", action="store_true")
    ap.add_argument("--no-evidence", action="store_true")
    args = ap.parse_args(argv)
    prop = args.prop.upper()
    if prop not in PROPS:
        print("ANALYSIS-ERROR unknown property %s" % prop)
        return 2
    only = args.only
    if args.replay:
        rec = json.load(open(args.replay))
        only = rec["key"]
        prop = rec.get("property", prop)

    def body():
        try:
            mod = importlib.import_module("gsverif.props.%s" % prop.lower())
        except ModuleNotFoundError:
            print("ANALYSIS-ERROR property=%s no check is built for this property" % prop)
            return 2
        poly.selftest()
        from . import regex as _rx
        _rx.selftest()
        try:
            pkg = Package(args.repo)
        except AnalysisError as e:
            print("ANALYSIS-ERROR property=%s %s" % (prop, e))
            return 2
        print("%s: analysing %d units under %s (tier=%s)" % (prop, len(pkg.units), pkg.root, args.tier))
        run = Run(prop, args.tier, args.repo, mod.LEVEL, pkg=pkg, only=only)
        run.no_evidence = args.no_evidence
        from . import optsem as _os
        _os.TIER = args.tier
        try:
            mod.run(run, pkg, args.tier)
            if args.tier == "thorough" and only is None and not args.no_selftest:
                from . import variants
                variants.selftest_into(run, args.repo, prop)
        except AnalysisError as e:
            run.error(str(e))
        return run.finish()
    return guarded(body)


if __name__ == "__main__":
    sys.exit(main())
