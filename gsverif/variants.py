"""Seeded-variant catalogue: the checker tested both ways (thorough tier and development).

Each variant is a small textual edit of a scratch copy of <repo>/graphslam (made with tempfile outside /repo and /verif and
deleted right after).  kind = "break": a change that violates the property while importing fine and passing the test-suite
-- the check must exit 1 and name the expected construct;  kind = "twin": a behaviour-preserving rewrite -- the check must
stay silent (exit 0).  A variant whose anchor text is not found in the analysed tree is skipped (reported, not an error).
"""
import os
import shutil
import subprocess
import sys
import tempfile
from concurrent.futures import ThreadPoolExecutor

VERIF = os.path.dirname(os.path.dirname(os.path.abspath(__file__)))

G = "graphslam/graph.py"
BE = "graphslam/edge/base_edge.py"
EO = "graphslam/edge/edge_odometry.py"
EL = "graphslam/edge/edge_landmark.py"
SE2 = "graphslam/pose/se2.py"
SE3 = "graphslam/pose/se3.py"
R2 = "graphslam/pose/r2.py"
BP = "graphslam/pose/base_pose.py"
UT = "graphslam/util.py"
VX = "graphslam/vertex.py"
GP = "graphslam/g2o_parameters.py"
LD = "graphslam/load.py"


def V(vid, props, kind, edits, expect=None, note=""):
    return dict(id=vid, props=props, kind=kind, edits=edits, expect=expect, note=note)


CATALOGUE = [
    # ---------------------------------------------------------------- formula code
    V("se3-ominus-jacobian-sign", ["C10", "C01"], "break",
      [(SE3, "[0., 0., 0., -self[6], -self[5], self[4], self[3]]", "[0., 0., 0., -self[6], self[5], self[4], self[3]]", 1)],
      ["jacobian_self_ominus_other_wrt_other", "PoseSE3"]),
    V("se3-sub-quaternion-sign", ["C09", "C01", "C02"], "break",
      [(SE3, "[other[6] * self[3] - other[3] * self[6] - other[4] * self[5] + other[5] * self[4],",
        "[other[6] * self[3] - other[3] * self[6] + other[4] * self[5] + other[5] * self[4],", 1)], "PoseSE3"),
    V("se2-boxplus-jacobian-tiny", ["C10", "C01"], "break",
      [(SE2, "        return np.array([[np.cos(self[2]), -np.sin(self[2]), 0.],\n                         [np.sin(self[2]), np.cos(self[2]), 0.],\n                         [0., 0., 1.]])",
        "        return np.array([[np.cos(self[2]), -np.sin(self[2]), 0.],\n                         [np.sin(self[2]), np.cos(self[2]), 0.],\n                         [0., 0., 1.0000001]])", -1)],
      ["jacobian_boxplus", "PoseSE2"]),
    V("landmark-offset-order", ["C02", "C01"], "break",
      [(EL, "return (((self.vertices[0].pose + self.offset).inverse", "return (((self.offset + self.vertices[0].pose).inverse", 1)], "EdgeLandmark"),
    V("odometry-wrt-swapped", ["C01"], "break",
      [(EO, "self.vertices[1].pose.jacobian_self_ominus_other_wrt_other(self.vertices[0].pose)), self.vertices[0].pose.jacobian_boxplus()),",
        "self.vertices[1].pose.jacobian_self_ominus_other_wrt_self(self.vertices[0].pose)), self.vertices[0].pose.jacobian_boxplus()),", 1)], "EdgeOdometry"),
    V("two-pi-literal", ["C11", "C09"], "break", [(UT, "TWO_PI = 2 * np.pi", "TWO_PI = 2 * 3.14159", 1)], "wrap"),
    V("normalize-wrong-component", ["C11"], "break",
      [(SE3, "sgn = 1.0 if self[6] >= 0.0 else -1.0", "sgn = 1.0 if self[5] >= 0.0 else -1.0", 1)], "normalize"),
    V("normalize-strict-compare-twin", ["C11"], "twin",
      [(SE3, "sgn = 1.0 if self[6] >= 0.0 else -1.0", "sgn = 1.0 if self[6] > 0.0 else -1.0", 1)]),
    V("r2-add-operator-twin", ["C09", "C10", "C01", "C02"], "twin",
      [(R2, "return PoseR2(np.add(self, other))", "return PoseR2(np.asarray(self) + np.asarray(other))", 1)]),
    V("chi2-matmul-twin", ["C02", "C03"], "twin",
      [(BE, "        return np.dot(np.dot(np.transpose(err), self.information), err)", "        tmp = np.transpose(err) @ self.information\n        return tmp @ err", 1)]),
    V("se2-inverse-temporaries-twin", ["C09", "C10", "C01"], "twin",
      [(SE2, "        return PoseSE2([-self[0] * np.cos(self[2]) - self[1] * np.sin(self[2]),\n                        self[0] * np.sin(self[2]) - self[1] * np.cos(self[2])],\n                       -self[2])",
        "        c, s = np.cos(self[2]), np.sin(self[2])\n        return PoseSE2([-(self[0] * c + self[1] * s), self[0] * s - self[1] * c], -self[2])", 1)]),
    # ---------------------------------------------------------------- contributions / accumulation / fill
    V("hessian-pairs-skip-diagonal", ["C03", "C16"], "break",
      [(BE, "for j in range(i, len(jacobians))", "for j in range(i + 1, len(jacobians))", 1)], "calc_chi2_gradient_hessian"),
    V("accumulator-assign-not-add", ["C03", "C06"], "break",
      [(G, "chi2_grad_hess.hessian[idx1, idx2] += contrib", "chi2_grad_hess.hessian[idx1, idx2] = contrib", 1)], "assembly"),
    V("accumulator-transpose-dropped", ["C03"], "break",
      [(G, "chi2_grad_hess.hessian[idx2, idx1] += np.transpose(contrib)", "chi2_grad_hess.hessian[idx2, idx1] += contrib", 1)], "assembly"),
    V("accumulator-strict-compare-twin", ["C03", "C06"], "twin", [(G, "            if idx1 <= idx2:", "            if idx1 < idx2:", 1)]),
    V("fill-assign-twin", ["C03", "C06"], "twin",
      [(G, "self._gradient[gradient_idx: gradient_idx + len(contrib)] += contrib", "self._gradient[gradient_idx: gradient_idx + len(contrib)] = contrib", 1)]),
    V("fill-fixed-gradient-not-zeroed", ["C06"], "break",
      [(G, "            if gradient_idx not in self._fixed_gradient_indices:", "            if True:", 1)], "assembly"),
    # ---------------------------------------------------------------- optimize
    V("final-chi2-stale", ["C12", "C04"], "break", [(G, "ret.final_chi2 = self._chi2", "ret.final_chi2 = chi2_prev", 2)], "final_chi2"),
    V("first-iteration-test-shifted", ["C12"], "break", [(G, "            if i > 0:", "            if i > 1:", 1)], "C12-T"),
    V("rel-diff-eps-replaced", ["C12"], "break",
      [(G, "rel_diff = (chi2_prev - self._chi2) / (chi2_prev + np.finfo(float).eps)", "rel_diff = (chi2_prev - self._chi2) / (chi2_prev + 1.0)", 1)], "C12-T2"),
    V("verbose-recomputes", ["C12"], "break",
      [(G, "                if verbose:\n                    print(\"{:9d} {:20.4f} {:18.6f}\".format(i, self._chi2, -rel_diff))",
        "                if verbose:\n                    print(\"{:9d} {:20.4f} {:18.6f}\".format(i, self._chi2, -rel_diff))\n                    chi2_prev = self._chi2", 1)], "C12-T4"),
    # chi2_prev initialised from the previous run is never read when max_iter >= 1 (it is overwritten before the first test): a twin
    V("hidden-state-chi2-prev-unused-twin", ["C12"], "twin",
      [(G, "        chi2_prev = -1.0", "        chi2_prev = self._chi2 if self._chi2 is not None else -1.0", 1)]),
    # ... but it is hidden state as soon as the first iteration of a later call tests convergence against it
    V("hidden-state-chi2-prev", ["C12"], "break",
      [(G, "        chi2_prev = -1.0", "        chi2_prev = self._chi2 if self._chi2 is not None else -1.0", 1),
       (G, "            if i > 0:\n", "            if i > 0 or chi2_prev >= 0:\n", 1)], ["C12-T5", "optimize-semantics"]),
    V("num-iterations-off-by-one", ["C12"], "break", [(G, "                    ret.num_iterations = i\n", "                    ret.num_iterations = i + 1\n", 1)], "num_iterations"),
    # rounds 5-6: an equivalent exact solver is the solve; a rescaled step is not the Gauss-Newton step; a reader that drops an
    # unterminated last line; a cached rotation matrix; a purely relative comparison
    V("solver-splu-twin", ["C03", "C04", "C06", "C07", "C12", "C15"], "twin",
      [(G, "from scipy.sparse.linalg import spsolve", "from scipy.sparse.linalg import splu", 1),
       (G, "            dx = spsolve(self._hessian, -self._gradient)  # pylint: disable=invalid-unary-operand-type",
        "            dx = splu(self._hessian.tocsc()).solve(-self._gradient)", 1)]),
    V("step-halved", ["C03", "C04", "C07"], "break",
      [(G, "            dx = spsolve(self._hessian, -self._gradient)  # pylint: disable=invalid-unary-operand-type",
        "            dx = spsolve(self._hessian, -self._gradient)  # pylint: disable=invalid-unary-operand-type\n            dx *= 0.5", 1)],
      ["optimize-semantics", "step-modified"]),
    V("reader-drops-unterminated-last-line", ["C14"], "break",
      [(G, "            for line in f.readlines():", "            for line in f.read().split(\"\\n\")[:-1]:", 1)], "no-final-newline"),
    V("solve-sign", ["C03", "C04"], "break", [(G, "dx = spsolve(self._hessian, -self._gradient)", "dx = spsolve(self._hessian, self._gradient)", 1)], "C03-d"),
    V("update-wrong-slice", ["C03"], "break",
      [(G, "v.pose += dx[v.gradient_index: v.gradient_index + v.pose.COMPACT_DIMENSIONALITY]", "v.pose += dx[v.gradient_index: v.gradient_index + len(v.pose)]", 1)], ["update-step", "update-semantic"]),
    V("update-guard-removed", ["C06"], "break",
      [(G, "                if v.gradient_index in self._fixed_gradient_indices:\n                    continue\n", "", 1)], "C06-d"),
    V("update-guard-flag-twin", ["C06", "C03", "C12"], "twin",
      [(G, "                if v.gradient_index in self._fixed_gradient_indices:\n                    continue\n", "                if v.fixed:\n                    continue\n", 1)]),
    V("optimize-locals-twin", ["C03", "C04", "C06", "C07", "C12", "C15"], "twin",
      [(G, "            dx = spsolve(self._hessian, -self._gradient)  # pylint: disable=invalid-unary-operand-type",
        "            rhs = -self._gradient\n            dx = spsolve(self._hessian.tocsr(), rhs)", 1),
       (G, "                v.pose += dx[v.gradient_index: v.gradient_index + v.pose.COMPACT_DIMENSIONALITY]",
        "                idx = v.gradient_index\n                v.pose += dx[idx: idx + v.pose.COMPACT_DIMENSIONALITY]", 1),
       (G, "        self._fixed_gradient_indices = {v.gradient_index for v in self._vertices if v.fixed}",
        "        fixed_indices = set()\n        for v in self._vertices:\n            if v.fixed:\n                fixed_indices.add(v.gradient_index)\n        self._fixed_gradient_indices = fixed_indices", 1)]),
    V("optimize-verbose-helper-twin", ["C12", "C15"], "twin",
      [(G, "                if verbose:\n                    print(\"{:9d} {:20.4f} {:18.6f}\".format(i, self._chi2, -rel_diff))",
        "                if verbose:\n                    _print_progress(i, self._chi2, -rel_diff)", 1),
       (G, "class OptimizationResult:", "def _print_progress(i, chi2, rel_diff):\n    print(\"{:9d} {:20.4f} {:18.6f}\".format(i, chi2, rel_diff))\n\n\nclass OptimizationResult:", 1)]),
    V("optimize-converged-flag-twin", ["C12", "C04", "C07", "C08"], "twin",
      [(G, "                if self._chi2 <= chi2_prev and rel_diff < tol:", "                has_converged = rel_diff < tol and chi2_prev >= self._chi2\n                if has_converged:", 1)]),
    V("optimize-iteration-alias-twin", ["C12"], "twin",
      [(G, "            ret.iteration_results.append(OptimizationResult.IterationResult())", "            this_iteration = OptimizationResult.IterationResult()\n            ret.iteration_results.append(this_iteration)", 1),
       (G, "            ret.iteration_results[-1].solve_duration_s = time.time() - solve_start_time", "            this_iteration.solve_duration_s = time.time() - solve_start_time", 1)]),
    V("fix-first-unconditional", ["C06"], "break", [(G, "        if fix_first_pose:\n            self._vertices[0].fixed = True", "        self._vertices[0].fixed = True", 1)], "C06-a"),
    V("fixed-set-stale", ["C06"], "break",
      [(G, "        self._fixed_gradient_indices = {v.gradient_index for v in self._vertices if v.fixed}",
        "        if not self._fixed_gradient_indices:\n            self._fixed_gradient_indices = {v.gradient_index for v in self._vertices if v.fixed}", 1)], "C06-b"),
    # ---------------------------------------------------------------- numerical Jacobians / purity
    V("numjac-restore-deleted", ["C15", "C16"], "break", [(BE, "            self.vertices[vertex_index].pose = p0.copy()\n", "", 1)], ["perturb-restore", "finite-difference"]),
    V("numjac-copy-dropped-twin", ["C15", "C16"], "twin",
      [(BE, "pose = p0.copy()", "pose = p0", 1), (BE, "p0 = self.vertices[vertex_index].pose.copy()", "p0 = self.vertices[vertex_index].pose", 1)]),
    V("numjac-wrong-coordinate", ["C16"], "break",
      [(BE, "delta_pose[d] = self._NUMERICAL_DIFFERENTIATION_EPSILON", "delta_pose[0] = self._NUMERICAL_DIFFERENTIATION_EPSILON", 1)], "finite-difference"),
    V("numjac-double-eps", ["C16"], "break",
      [(BE, "(self.calc_error() - err) / self._NUMERICAL_DIFFERENTIATION_EPSILON", "(self.calc_error() - err) / (2 * self._NUMERICAL_DIFFERENTIATION_EPSILON)", 1)], "finite-difference"),
    V("error-in-place", ["C15"], "break",
      [(EO, "        return (self.estimate - (self.vertices[1].pose - self.vertices[0].pose)).to_compact()",
        "        d = self.vertices[1].pose\n        d -= self.vertices[0].pose\n        return (self.estimate - d).to_compact()", 1)], "C15-E1"),
    # ---------------------------------------------------------------- g2o
    V("vertex-format-spec", ["C13"], "break", [(VX, 'return "VERTEX_SE2 {} {} {} {}\\n".format', 'return "VERTEX_SE2 {} {:.6f} {} {}\\n".format', 1)], "Vertex"),
    V("reader-split-space", ["C14"], "break", [(EO, '.split()  # fmt: skip', '.split(" ")  # fmt: skip', 1)], "EDGE_SE2"),
    V("param-fields-swapped", ["C13"], "break",
      [(GP, "self.key[1], self.value[0], self.value[1], self.value[2])", "self.key[1], self.value[1], self.value[0], self.value[2])", 1)], "G2OParameterSE2Offset"),
    V("reader-wrong-slice", ["C14", "C13"], "break", [(VX, "p = PoseSE3(arr[:3], arr[3:])", "p = PoseSE3(arr[:3], arr[[4, 3, 5, 6]])", 1)], ["VERTEX_SE3", "PoseSE3"]),
    # ---------------------------------------------------------------- equals / validity
    V("pose-equals-type-test-removed", ["C17"], "break",
      [(BP, "        if not type(self) is type(other):\n            return False\n\n", "", 1)], "C17/pose"),
    V("landmark-equals-type-test-removed", ["C17"], "break",
      [(EL, "        if not type(self) is type(other):\n            return False\n\n        if not type(self.offset)", "        if not type(self.offset)", 1)], "C17/edge"),
    V("landmark-valid-pairs-removed", ["C18"], "break",
      [(EL, "        if (pose_type, point_type) not in self._SUPPORTED_TYPES:\n            return False\n\n", "", 1)], "accepts"),
    V("odometry-valid-shape-one-sided", ["C18"], "break",
      [(EO, "        return self.information.shape == (n, n)", "        return self.information.shape[0] == n", 1)], "EdgeOdometry.is_valid"),
    V("binding-by-position", ["C18"], "break",
      [(G, "e.vertices = [self._vertices[id_index_dict[v_id]] for v_id in e.vertex_ids]",
        "e.vertices = [self._vertices[id_index_dict.get(v_id, 0)] for v_id in e.vertex_ids]", 1)], "C18-B1"),
    # ---------------------------------------------------------------- round 8: special-case fast paths, shared storage, sequence kinds
    V("se3-ominus-same-orientation-shortcut-wrong-frame", ["C09", "C02"], "break",
      [(SE3, '        """\n        # fmt: off\n        return PoseSE3([self[0] - other[0] + 2. * (-(other[4]**2', '        """\n        if np.array_equal(self[3:], other[3:]):\n            return PoseSE3([self[0] - other[0], self[1] - other[1], self[2] - other[2]], [0., 0., 0., 1.])\n\n        # fmt: off\n        return PoseSE3([self[0] - other[0] + 2. * (-(other[4]**2', 1)], "PoseSE3"),
    V("se3-ominus-same-orientation-shortcut-twin", ["C09", "C10", "C02", "C01"], "twin",
      [(SE3, '        """\n        # fmt: off\n        return PoseSE3([self[0] - other[0] + 2. * (-(other[4]**2', '        """\n        if np.array_equal(self[3:], other[3:]):\n            d = other.inverse + PoseR3(self[:3])\n            return PoseSE3([d[0], d[1], d[2]], [0., 0., 0., 1.])\n\n        # fmt: off\n        return PoseSE3([self[0] - other[0] + 2. * (-(other[4]**2', 1)]),
    V("is-valid-compares-a-list-with-the-id-sequence", ["C18"], "break",
      [(BE, "        for vertex, v_id in zip(self.vertices, self.vertex_ids):\n            if vertex.id != v_id:\n                return False\n\n        return True",
        "        return [vertex.id for vertex in self.vertices] == self.vertex_ids", 1)], "is_valid"),
    V("is-valid-compares-two-lists-twin", ["C18"], "twin",
      [(BE, "        for vertex, v_id in zip(self.vertices, self.vertex_ids):\n            if vertex.id != v_id:\n                return False\n\n        return True",
        "        return [vertex.id for vertex in self.vertices] == list(self.vertex_ids)", 1)]),
    V("to-g2o-sorts-the-edge-list-in-place", ["C15"], "break",
      [(G, "            for e in self._edges:\n                edge_str_or_none = e.to_g2o()",
        "            self._edges.sort(key=lambda e: list(e.vertex_ids))\n            for e in self._edges:\n                edge_str_or_none = e.to_g2o()", 1)], "exports-leave-all-state-unchanged"),
    V("graph-init-drops-repeated-edge-objects", ["C08", "C03"], "break",
      [(G, "        self._edges = edges\n", "        self._edges = list(dict.fromkeys(edges))\n", 1)], "same-edge-object-listed-twice"),
    V("graph-init-copies-the-lists-twin", ["C08", "C03", "C18"], "twin",
      [(G, "        self._edges = edges\n        self._vertices = vertices\n", "        self._edges = list(edges)\n        self._vertices = list(vertices)\n", 1)]),
    V("r2-constructor-keeps-the-callers-dtype", ["C09"], "break",
      [(R2, "obj = np.asarray(position, dtype=np.float64).view(cls)", "obj = np.array(position).view(cls)", 1)], "constructor-holds-float64"),
    V("r2-constructor-copies-as-float64-twin", ["C09", "C02"], "twin",
      [(R2, "obj = np.asarray(position, dtype=np.float64).view(cls)", "obj = np.array(position, dtype=np.float64).view(cls)", 1)]),
]


def not_verified_note():
    return "break variant 'reader-wrong-slice' is a checker-only fixture (it would fail the repo's own tests); all others import fine"


def apply_variant(repo, v, dest):
    """Copy <repo>/graphslam to dest and apply the edits; returns False if an anchor is missing."""
    shutil.copytree(os.path.join(repo, "graphslam"), os.path.join(dest, "graphslam"),
                    ignore=shutil.ignore_patterns("__pycache__"))
    for rel, old, new, nth in v["edits"]:
        p = os.path.join(dest, rel)
        if not os.path.exists(p):
            return False
        s = open(p, encoding="utf-8").read()
        cnt = s.count(old)
        if cnt == 0:
            return False
        if nth == -1:
            idx = s.rindex(old)
        else:
            if cnt < nth:
                return False
            idx = -1
            for _ in range(nth):
                idx = s.index(old, idx + 1)
        s = s[:idx] + new + s[idx + len(old):]
        open(p, "w", encoding="utf-8").write(s)
    return True


def run_variant(repo, v, prop):
    tmp = tempfile.mkdtemp(prefix="gsverif-variant-")
    try:
        if not apply_variant(repo, v, tmp):
            return dict(id=v["id"], prop=prop, kind=v["kind"], status="skipped", detail="anchor text not present in the analysed tree")
        py = "/venv/bin/python" if os.path.exists("/venv/bin/python") else sys.executable
        r = subprocess.run([py, "-B", "-m", "gsverif.cli", prop, "--tier", "quick", "--repo", tmp, "--no-evidence"],
                           cwd=VERIF, capture_output=True, text=True, timeout=600)
        out = r.stdout
        if v["kind"] == "break":
            fired = r.returncode == 1 and "VIOLATION property=%s" % prop in out
            exp = v["expect"] if isinstance(v["expect"], (list, tuple)) else ([v["expect"]] if v["expect"] else [])
            named = fired and (not exp or any(e in out for e in exp))
            status = "fired" if named else ("fired-unnamed" if fired else "MISSED")
        else:
            status = "silent" if r.returncode == 0 else ("FALSE-ALARM" if r.returncode == 1 else "undecided")
        tail = "\n".join(l for l in out.splitlines() if l.startswith(("  rule=", "ANALYSIS-ERROR")))[:600]
        return dict(id=v["id"], prop=prop, kind=v["kind"], status=status, exit=r.returncode, detail=tail)
    finally:
        shutil.rmtree(tmp, ignore_errors=True)


def seeded_for(prop):
    """Independent mutants kept under seeded/: the ones this property's check is recorded to report must keep being reported."""
    import json
    root = os.path.join(VERIF, "seeded")
    out = []
    if not os.path.isdir(root):
        return out
    for sid in sorted(os.listdir(root)):
        mp = os.path.join(root, sid, "meta.json")
        pp = os.path.join(root, sid, "patch.diff")
        if os.path.exists(mp) and os.path.exists(pp):
            try:
                meta = json.load(open(mp))
            except ValueError:
                continue
            if prop in meta.get("checks_fired", []):
                out.append(dict(id="seeded/" + sid, props=[prop], kind="break", patch=pp, expect=None))
    return out


def run_seeded(repo, v, prop):
    tmp = tempfile.mkdtemp(prefix="gsverif-seeded-")
    try:
        shutil.copytree(os.path.join(repo, "graphslam"), os.path.join(tmp, "graphslam"), ignore=shutil.ignore_patterns("__pycache__"))
        r = subprocess.run(["patch", "-p1", "-s", "--no-backup-if-mismatch", "-i", v["patch"]], cwd=tmp, capture_output=True, text=True)
        if r.returncode:
            return dict(id=v["id"], prop=prop, kind="break", status="skipped", detail="patch does not apply to the analysed tree")
        py = "/venv/bin/python" if os.path.exists("/venv/bin/python") else sys.executable
        r = subprocess.run([py, "-B", "-m", "gsverif.cli", prop, "--tier", "quick", "--repo", tmp, "--no-evidence"],
                           cwd=VERIF, capture_output=True, text=True, timeout=900)
        fired = r.returncode == 1 and "VIOLATION property=%s" % prop in r.stdout
        tail = "\n".join(l for l in r.stdout.splitlines() if l.startswith(("  rule=", "ANALYSIS-ERROR")))[:400]
        return dict(id=v["id"], prop=prop, kind="break", status="fired" if fired else "MISSED", exit=r.returncode, detail=tail)
    finally:
        shutil.rmtree(tmp, ignore_errors=True)


def refactorings():
    """Behaviour-preserving refactorings written by sub-agents (kept under refactorings/): every check must stay silent."""
    root = os.path.join(VERIF, "refactorings")
    out = []
    if os.path.isdir(root):
        for rid in sorted(os.listdir(root)):
            pp = os.path.join(root, rid, "patch.diff")
            if os.path.exists(pp):
                out.append(dict(id="refactorings/" + rid, kind="twin", patch=pp))
    return out


def run_refactoring(repo, v, prop):
    tmp = tempfile.mkdtemp(prefix="gsverif-refac-")
    try:
        shutil.copytree(os.path.join(repo, "graphslam"), os.path.join(tmp, "graphslam"), ignore=shutil.ignore_patterns("__pycache__"))
        r = subprocess.run(["patch", "-p1", "-s", "--no-backup-if-mismatch", "-i", v["patch"]], cwd=tmp, capture_output=True, text=True)
        if r.returncode:
            return dict(id=v["id"], prop=prop, kind="twin", status="skipped", detail="patch does not apply to the analysed tree")
        py = "/venv/bin/python" if os.path.exists("/venv/bin/python") else sys.executable
        r = subprocess.run([py, "-B", "-m", "gsverif.cli", prop, "--tier", "quick", "--repo", tmp, "--no-evidence"],
                           cwd=VERIF, capture_output=True, text=True, timeout=900)
        status = "silent" if r.returncode == 0 else ("FALSE-ALARM" if r.returncode == 1 else "undecided")
        tail = "\n".join(l for l in r.stdout.splitlines() if l.startswith(("  rule=", "ANALYSIS-ERROR")))[:400]
        return dict(id=v["id"], prop=prop, kind="twin", status=status, exit=r.returncode, detail=tail)
    finally:
        shutil.rmtree(tmp, ignore_errors=True)


def run_for_property(repo, prop, jobs=8):
    todo = [v for v in CATALOGUE if prop in v["props"]]
    seeded = seeded_for(prop)
    refs = refactorings()
    with ThreadPoolExecutor(max_workers=jobs) as ex:
        a = list(ex.map(lambda v: run_variant(repo, v, prop), todo))
        b = list(ex.map(lambda v: run_seeded(repo, v, prop), seeded))
        c = list(ex.map(lambda v: run_refactoring(repo, v, prop), refs))
    return a + b + c


def selftest_into(run_, repo, prop):
    """Thorough tier: run this property's variants; record the outcome; a rule failing its own self-test -> exit 2."""
    res = run_for_property(repo, prop)
    fired = [r for r in res if r["status"] in ("fired", "fired-unnamed")]
    silent = [r for r in res if r["status"] == "silent"]
    skipped = [r for r in res if r["status"] in ("skipped", "undecided")]
    bad = [r for r in res if r["status"] in ("MISSED", "FALSE-ALARM")]
    run_.extra["variants"] = dict(fired=len(fired), silent=len(silent), skipped=len(skipped), failed=len(bad),
                                  results=[dict(id=r["id"], kind=r["kind"], status=r["status"]) for r in res])
    for r in bad:
        run_.error("checker self-test failed: variant %s (%s) -> %s (exit %s) %s" % (r["id"], r["kind"], r["status"], r.get("exit"), r["detail"][:200]))
    return res


if __name__ == "__main__":
    import json
    repo = sys.argv[1] if len(sys.argv) > 1 else "/repo"
    props = sys.argv[2:] or sorted({p for v in CATALOGUE for p in v["props"]})
    allres = []
    with ThreadPoolExecutor(max_workers=16) as ex:
        futs = [(v, p, ex.submit(run_variant, repo, v, p)) for v in CATALOGUE for p in v["props"] if p in props]
        for v, p, f in futs:
            r = f.result()
            allres.append(r)
            print("%-40s %-4s %-6s %s" % (r["id"], p, r["kind"], r["status"]))
            if r["status"] in ("MISSED", "FALSE-ALARM", "fired-unnamed"):
                print("      exit=%s %s" % (r.get("exit"), r["detail"].replace("\n", "\n      ")))
    print(json.dumps({s: sum(1 for r in allres if r["status"] == s) for s in sorted({r["status"] for r in allres})}))
