"""Shared helpers of the algebraic checks: obligation runner (all paths), process pool, symbolic edge
configurations, the checker's own reference model of rigid motions (homogeneous matrices, Hamilton product)."""
import multiprocessing
import os
import itertools
from fractions import Fraction
import time
import traceback

from . import poly
from .poly import Poly
from .interp import (Arr, Pose, Obj, Interp, explore, Unsupported, LossyOperation, PathRaise, sym_pose, sym_vec,
                     sym_mat, point_eval, diff_at_zero, POSE_LEN)
from .model import AnalysisError

POSES = ["PoseR2", "PoseR3", "PoseSE2", "PoseSE3"]
CDIM = {"PoseR2": 2, "PoseR3": 3, "PoseSE2": 3, "PoseSE3": 6}
POINT_OF = {"PoseR2": "PoseR2", "PoseR3": "PoseR3", "PoseSE2": "PoseR2", "PoseSE3": "PoseR3"}

# the 8 well-typed built-in edge configurations: (edge class, type of vertex 1, type of vertex 2, estimate type, offset type)
CONFIGS = [("EdgeOdometry", t, t, t, None) for t in POSES] + [
    ("EdgeLandmark", "PoseR2", "PoseR2", "PoseR2", "PoseR2"),
    ("EdgeLandmark", "PoseR3", "PoseR3", "PoseR3", "PoseR3"),
    ("EdgeLandmark", "PoseSE2", "PoseR2", "PoseR2", "PoseSE2"),
    ("EdgeLandmark", "PoseSE3", "PoseR3", "PoseR3", "PoseSE3"),
]


def cfg_name(cfg):
    ec, t1, t2, tz, toff = cfg
    if ec == "EdgeOdometry":
        return "EdgeOdometry[%s]" % t1
    return "EdgeLandmark[%s->%s]" % (t1, t2)


class ObFail(Exception):
    def __init__(self, detail):
        super().__init__(detail)
        self.detail = detail


def size_constants(results):
    """Constants against which the analysed code tests a collection size / iteration counter (from undecided results)."""
    import re
    out = set()
    for r in results:
        if r.get("status") == "error":
            for m in re.finditer(r"(?:modulo / divided by|compared with) (\d+)", r.get("detail", "")):
                out.add(int(m.group(1)))
    return sorted(x for x in out if 2 <= x <= 20000)


def zero_divisor_witness(it, free=lambda name: True, limit=4000):
    """Look for an input of the domain (unit quaternions, angles at multiples of pi/2, free reals in {0, 1, -1, 1/2}) at which a
    divisor recorded on this path vanishes while all the decisions taken before the division hold.  Returns a description or None.
    Only a *verified* point is reported: the polynomial is evaluated exactly at it."""
    import re as _re
    from .interp import base_variables, PI_NAME
    for ev in it.events:
        if ev[0] != "division":
            continue
        den, where, facts = ev[1], ev[2], ev[3]
        names = set(base_variables(den))
        for k in facts:
            names |= base_variables(Poly(dict(k)))
        if PI_NAME in names:
            continue
        groups, singles, angles, ok = {}, [], [], True
        for v in sorted(names):
            m = _re.fullmatch(r"(.+)\[([3-6])\]", v)
            if m and poly.R.vidx.get("%s[6]" % m.group(1)) in poly.R.sq_rules and v not in poly.R.angles:
                groups.setdefault(m.group(1), None)
            elif v in poly.R.angles:
                angles.append(v)
            elif free(v):
                singles.append(v)
            else:
                ok = False
        if not ok:
            continue
        quats = [(0, 0, 0, 1), (1, 0, 0, 0), (0, 1, 0, 0), (0, 0, 1, 0), (0, 0, 0, -1)]
        axes = [[dict(zip(["%s[%d]" % (g, i) for i in (3, 4, 5, 6)], map(Fraction, q))) for q in quats] for g in sorted(groups)]
        axes += [[{"cos(%s)" % a: Fraction(c), "sin(%s)" % a: Fraction(s_)} for c, s_ in ((1, 0), (0, 1), (-1, 0), (0, -1))] for a in angles]
        axes += [[{v: Fraction(x)} for x in (0, 1, -1, Fraction(1, 2))] for v in singles]
        n = 0
        for combo in itertools.product(*axes):
            n += 1
            if n > limit:
                break
            env = {}
            for d_ in combo:
                env.update(d_)
            val = poly.eval_at(den, env)
            if val is None or val != 0:
                continue
            good = True
            for k, signs in facts.items():
                fv = poly.eval_at(Poly(dict(k)), env)
                if fv is None or ((fv > 0) - (fv < 0)) not in signs:
                    good = False
                    break
            if good:
                pt = ", ".join("%s=%s" % (a, b) for a, b in sorted(env.items()) if "#" not in a)
                return "the divisor %s at %s is zero at the admissible input {%s}: the result there is inf/nan" % (den.short(80), where, pt[:300])
    return None


UNIT_QUATS = [(0, 0, 0, 1), (1, 0, 0, 0), (0, 1, 0, 0), (0, 0, 1, 0), (0, 0, 0, -1), (Fraction(3, 5), 0, 0, Fraction(4, 5)),
              (0, Fraction(3, 5), Fraction(4, 5), 0), (Fraction(1, 2),) * 4, (Fraction(1, 2), Fraction(-1, 2), Fraction(1, 2), Fraction(-1, 2)),
              (Fraction(2, 3), Fraction(1, 3), Fraction(2, 3), 0), (Fraction(-2, 3), Fraction(2, 3), 0, Fraction(1, 3)),
              (Fraction(2, 7), Fraction(3, 7), Fraction(6, 7), 0), (Fraction(6, 7), 0, Fraction(2, 7), Fraction(-3, 7)),
              (0, 0, Fraction(-4, 5), Fraction(3, 5))]
REALS = [Fraction(x) for x in (0, 1, -1, 2, -2, 3)] + [Fraction(1, 2), Fraction(-1, 2), Fraction(3, 5), Fraction(4, 5), Fraction(1, 3), Fraction(2, 3),
                                                       Fraction(-3, 5), Fraction(5, 13), Fraction(12, 13)]


def path_witness(it, diffs, tries=6000):
    """An exact rational input that satisfies every decision of the current path and at which every comparison that failed on the
    path (the recorded differences) is non-zero: the failure reported for the path is then the failure at that concrete input.
    Returns a description of the point, or None (no point found: the path stays undecided)."""
    import random
    import re as _re
    from .interp import base_variables, PI_NAME
    facts = {k: set(v) for k, v in it.facts.items()}
    fact_polys = [(Poly(dict(k)), sg) for k, sg in facts.items()]
    eqs = [p_ for p_, sg in fact_polys if sg == {0}]
    names = set()
    for p_, _ in fact_polys:
        names |= base_variables(p_)
    for d in diffs:
        names |= base_variables(d)
    if PI_NAME in names or len(names) > 60:
        return None
    groups, singles, angles = {}, [], []
    for v in sorted(names):
        m = _re.fullmatch(r"(.+)\[([3-6])\]", v)
        if m and poly.R.vidx.get("%s[6]" % m.group(1)) in poly.R.sq_rules and v not in poly.R.angles:
            groups.setdefault(m.group(1), None)
        elif v in poly.R.angles:
            angles.append(v)
        elif v.startswith(("cos(", "sin(")) or "#" in v:
            continue
        else:
            singles.append(v)
    eq_vars = set()
    for e in eqs:
        eq_vars |= base_variables(e)
    rnd = random.Random(20261003)
    trig = [(1, 0), (0, 1), (-1, 0), (0, -1), (Fraction(3, 5), Fraction(4, 5)), (Fraction(-4, 5), Fraction(3, 5))]

    def draw(simple_first):
        env = {}
        for g in groups:
            q = UNIT_QUATS[0] if simple_first and g not in {n.split("[")[0] for n in eq_vars} else rnd.choice(UNIT_QUATS)
            env.update(zip(["%s[%d]" % (g, i) for i in (3, 4, 5, 6)], map(Fraction, q)))
        for a in angles:
            c, s_ = rnd.choice(trig)
            env["cos(%s)" % a], env["sin(%s)" % a] = Fraction(c), Fraction(s_)
        for v in singles:
            env[v] = rnd.choice(REALS)
        return env

    def sign(x):
        return (x > 0) - (x < 0)
    for n in range(tries):
        env = draw(n < tries // 2)
        ok = True
        for e in eqs:
            val = poly.eval_at(e, env)
            if val is None or val != 0:
                ok = False
                break
        if not ok:
            continue
        for p_, sg in fact_polys:
            val = poly.eval_at(p_, env)
            if val is None or sign(val) not in sg:
                ok = False
                break
        if not ok:
            continue
        for d in diffs:
            val = poly.eval_at(d, env)
            if val is None or val == 0:
                ok = False
                break
        if ok:
            return ", ".join("%s=%s" % (a, b) for a, b in sorted(env.items()) if "#" not in a and not a.startswith(("cos(", "sin(")) or a[4:-1] in angles)[:400]
    return None


ALLOW_SIZE_THRESHOLDS = False     # second pass of `across_thresholds`: the small side of every threshold is being examined on purpose


def run_obligation(pkg, fn, hook=None, max_paths=256, allow_size_thresholds=False, divisors=None):
    """fn(it) -> stats dict, or raises ObFail(detail).  All paths are explored; every path must succeed.

    Returns dict(status, detail, paths, stats)."""
    t0 = time.time()
    try:
        def runner(it):
            global CURRENT
            CURRENT = it
            try:
                try:
                    res = fn(it)
                except (AnalysisError, ObFail, PathRaise):
                    if divisors is not None:
                        w = zero_divisor_witness(it, divisors)
                        if w:
                            raise ObFail(w)
                    raise
                if divisors is not None:
                    w = zero_divisor_witness(it, divisors)
                    if w:
                        raise ObFail(w)
                thr = [e for e in it.events if e[0] == "size-threshold"]
                if thr and not (allow_size_thresholds or ALLOW_SIZE_THRESHOLDS):
                    raise Unsupported("the behaviour depends on the size of a collection (%s): a finite scenario cannot speak for larger "
                                      "inputs" % thr[0][1])
                return ("ok", res, True)
            except ObFail as e:
                simple = it.equalities()[1]
                detail = e.detail
                if it.thin and not simple and not getattr(it, "_eq_blocked", False):
                    w = path_witness(it, getattr(it, "_failed_diffs", []))
                    if w:
                        simple, detail = True, "%s [confirmed at the admissible input {%s}]" % (detail, w)
                return ("fail", detail, simple)
            except Unsupported as e:
                if getattr(e, "partial", None) is not None:
                    e.partial = None         # a nested exploration of the obligation ran out of budget: its partial results are not ours
                raise
            except PathRaise as e:
                it._simple_eq = it.equalities()[1]
                if it.thin and not it._simple_eq and not getattr(it, "_eq_blocked", False):
                    w = path_witness(it, [])
                    if w:
                        it._simple_eq = True
                        e.witness = w
                raise
            finally:
                CURRENT = None
        try:
            paths = explore(pkg, runner, hook=hook, max_paths=max_paths)
            truncated = False
        except Unsupported as e:
            if getattr(e, "partial", None) is None:
                raise
            paths, truncated = e.partial, str(e)
    except LossyOperation as e:
        return dict(status="violation", detail="non-exact operation in formula code: %s" % e, paths=0, stats={}, wall=time.time() - t0)
    except AnalysisError as e:
        return dict(status="error", detail=str(e), paths=0, stats={}, wall=time.time() - t0)
    except RecursionError:
        return dict(status="error", detail="recursion limit in analysed code", paths=0, stats={}, wall=time.time() - t0)
    stats = {}
    fails, thin_fails = [], []
    harness = [p for p in paths if p.raised is not None and str(getattr(p.raised, "where", "")).startswith("?:?")]
    if harness:
        # an exception raised by an operation of the harness itself (no function of the analysed package on the stack) says nothing
        # about the code: undecided
        return dict(status="error", detail="the harness could not evaluate its reference on the path [%s]: %s" % (
            " and ".join(harness[0].conds)[:300], harness[0].raised), paths=len(paths), stats={}, wall=time.time() - t0)
    for p in paths:
        cond = " and ".join(p.conds) if p.conds else "always"
        msg = None
        if p.raised is not None:
            msg = "on the path [%s] the code raises %s" % (cond, p.raised)
        elif p.value[0] == "fail":
            msg = "on the path [%s]: %s" % (cond, p.value[1])
        else:
            stats = p.value[1] or stats
        if msg is not None:
            simple = p.value[2] if p.raised is None else bool(getattr(p.raised, "witness", None))
            if p.raised is not None and getattr(p.raised, "witness", None):
                msg += " [the path is taken at the admissible input {%s}]" % p.raised.witness
            # on a path that only assumes `variable == constant` equalities the comparison was made after substituting them, so a
            # remaining difference is a genuine violation on that (lower-dimensional) set of inputs
            (thin_fails if (p.thin and not simple) else fails).append(msg)
    if fails:
        return dict(status="violation", detail="; ".join(fails)[:4000], paths=len(paths), stats=stats, wall=time.time() - t0)
    if truncated:
        return dict(status="error", detail="%s (none of the explored paths fails)" % truncated, paths=len(paths), stats=stats,
                    wall=time.time() - t0)
    if thin_fails:
        # the identity fails only where an exact equality of symbolic values was assumed: a polynomial identity need not hold
        # on such a measure-zero set for the behaviour to be right there, so this is undecided, not a violation
        return dict(status="error", detail="undecided on a measure-zero path: " + "; ".join(thin_fails)[:1500], paths=len(paths), stats=stats,
                    wall=time.time() - t0)
    return dict(status="ok", detail="", paths=len(paths), stats=stats, wall=time.time() - t0)


# ------------------------------------------------------------------------------------------------ pool
_TASKS = None
_PKG = None


def _worker(i):
    fn = _TASKS[i][2]
    poly.reset()
    try:
        res = fn(_PKG)
    except AnalysisError as e:
        res = dict(status="error", detail=str(e), paths=0, stats={}, wall=0.0)
    except Exception as e:  # noqa
        res = dict(status="error", detail="internal error: %s: %s\n%s" % (type(e).__name__, e, traceback.format_exc()[-1500:]),
                   paths=0, stats={}, wall=0.0)
    return i, res


def run_tasks(pkg, tasks, jobs=None):
    """tasks: list of (key, rule, fn(pkg)->result dict).  Runs them in a fork pool; returns list of results."""
    global _TASKS, _PKG
    _TASKS, _PKG = tasks, pkg
    jobs = jobs or min(len(tasks), int(os.environ.get("VERIF_JOBS", "0") or 0) or (os.cpu_count() or 4))
    out = [None] * len(tasks)
    if jobs <= 1 or len(tasks) <= 1:
        for i in range(len(tasks)):
            out[i] = _worker(i)[1]
        return out
    ctx = multiprocessing.get_context("fork")
    with ctx.Pool(processes=jobs) as pool:
        for i, res in pool.imap_unordered(_worker, range(len(tasks))):
            out[i] = res
    return out


THRESHOLD_MARK = "a finite scenario cannot speak for larger inputs"


def across_thresholds(run, pkg, tasks, results, directed):
    """Scenarios that are undecided only because the code tests a size against a constant are decided after all when scenarios aimed
    at the other side of every such constant hold: `directed(consts)` builds those; the undecided ones are then re-run with the
    threshold allowed (they are, knowingly, on the small side).  Returns (results, extra tasks, extra results)."""
    global ALLOW_SIZE_THRESHOLDS
    idx = [i for i, r in enumerate(results) if r.get("status") == "error" and THRESHOLD_MARK in r.get("detail", "")]
    if not idx:
        return results, [], []
    consts = [c for c in size_constants([results[i] for i in idx]) if c <= 120][:2]
    if not consts:
        return results, [], []
    extra = directed(consts)
    eres = run_tasks(pkg, extra) if extra else []
    if not extra or any(r.get("status") != "ok" for r in eres):
        return results, extra, eres
    ALLOW_SIZE_THRESHOLDS = True
    try:
        again = run_tasks(pkg, [tasks[i] for i in idx])
    finally:
        ALLOW_SIZE_THRESHOLDS = False
    results = list(results)
    for i, r in zip(idx, again):
        if r.get("status") == "ok":
            r.setdefault("stats", {})["size_thresholds"] = "decided on both sides of the constants %s" % consts
        results[i] = r
    return results, extra, eres


def record(run, tasks, results):
    for t, res in zip(tasks, results):
        key, rule = t[0], t[1]
        where = t[3] if len(t) > 3 else None
        if res["status"] == "ok":
            run.ok(key, rule, sample=dict(obligation=key, rule=rule, paths=res["paths"], wall_s=round(res["wall"], 3), **res["stats"]))
        elif res["status"] == "violation":
            run.violation(key, rule, res["detail"], where=where)
        else:
            run.error("%s: %s" % (key, res["detail"]))


# ------------------------------------------------------------------------------------------------ helpers
def arr_diff_report(got, exp, limit=3):
    """Describe where two arrays differ."""
    if not isinstance(got, Arr) or not isinstance(exp, Arr):
        return "value kinds differ: %r vs %r" % (got, exp)
    if got.shape != exp.shape:
        return "shape %s, expected %s" % (got.shape, exp.shape)
    out = []
    idx = 0
    if got.ndim == 2:
        for i, (r1, r2) in enumerate(zip(got.data, exp.data)):
            for j, (a, b) in enumerate(zip(r1, r2)):
                if a != b:
                    out.append("entry [%d,%d]: code - expected = %s" % (i, j, (a - b).short(200)))
    else:
        for i, (a, b) in enumerate(zip(got.data, exp.data)):
            if a != b:
                out.append("entry [%d]: code - expected = %s" % (i, (a - b).short(200)))
    n = len(out)
    return "%d entr%s differ: %s" % (n, "y" if n == 1 else "ies", "; ".join(out[:limit]))


CURRENT = None   # the interpreter of the path being checked (set by run_obligation)


_IN_EQ = [False]


def _path_equal(a, b):
    """a == b for every input of the current path: on a path that assumes exact equalities, after substituting them."""
    it = CURRENT
    if it is None or not it.thin or _IN_EQ[0]:
        return False
    _IN_EQ[0] = True
    try:
        key = (len(it.conds), sum(1 for s_ in it.facts.values() if s_ == {0}))
        cached = getattr(it, "_eq_cache", None)
        if cached is None or cached[0] != key:
            cached = (key, it.equalities()[0])
            it._eq_cache = cached
        sub = cached[1]
        d = (a - b).subs(sub) if sub else (a - b)
        if d.t and sub:
            d = d.subs(sub)         # a rewriting rule may re-introduce a substituted variable
        if d.t and getattr(it, "_eq_pending", None):
            # equalities of the path that no substitution expresses (non-linear ones): look for a certificate d = sum c_i * e_i
            from . import certificate
            memo = it.__dict__.setdefault("_cert_memo", {})
            ck = (key, d.key())
            if ck not in memo:
                pend = []
                for e in it._eq_pending:
                    e2 = e.subs(sub) if sub else e
                    pend.append(e2.subs(sub) if sub and e2.t else e2)
                spent = it.__dict__.get("_cert_seconds", 0.0)
                if len(d.t) <= 400 and spent < 30.0:
                    t_c = time.time()
                    memo[ck] = certificate.vanishes_modulo(d, pend)
                    it._cert_seconds = spent + time.time() - t_c
                else:
                    memo[ck] = False          # (no proof attempted: the comparison stays a failure on a non-simple path = undecided)
            if memo[ck]:
                return True
        if d.t and not it.fn_stack:
            # a comparison made by the obligation itself (no analysed function is running) that fails on this path
            rec = it.__dict__.setdefault("_failed_diffs", [])
            if len(rec) < 400:
                rec.append(d)
        return not d.t
    finally:
        _IN_EQ[0] = False


poly.EQ_HOOK = _path_equal


def _on_path(v):
    """Specialise a value to the exact equalities assumed on the current path (var = const substitutions)."""
    it = CURRENT
    if it is None or not it.thin:
        return v
    sub, _ = it.equalities()
    if not sub:
        return v

    def sp(x):
        if not isinstance(x, Poly):
            return x
        y = x.subs(sub)
        return y.subs(sub) if y != x else y         # twice: a rewriting rule may re-introduce a substituted variable
    if isinstance(v, Pose):
        return Pose(v.cls, [sp(x) for x in v.data])
    if isinstance(v, Arr):
        return v.map(sp)
    if isinstance(v, Poly):
        return sp(v)
    return v


def free_increment_columns(names):
    """Indices of the increment variables that the current path leaves free (see Interp.equalities: a path may be the coordinate
    subspace d_S = 0; the derivative with respect to d_S is not decided there, the one with respect to the others is)."""
    it = CURRENT
    if it is None or not it.thin:
        return list(range(len(names)))
    it.equalities()
    bound = getattr(it, "_eq_bound_generic", set())
    return [j for j, n in enumerate(names) if n not in bound]


def columns(a, cols):
    return Arr([[r[j] for j in cols] for r in a.data], 2)


def require_same(got, exp, what):
    got, exp = _on_path(got), _on_path(exp)
    if isinstance(exp, Arr):
        if not isinstance(got, Arr) or not got.same(exp):
            raise ObFail("%s: %s" % (what, arr_diff_report(got, exp)))
    else:
        if not isinstance(got, Poly) or got != exp:
            raise ObFail("%s: code - expected = %s" % (what, (got - exp).short(200) if isinstance(got, Poly) else repr(got)))


def nterms(a):
    if isinstance(a, Arr):
        return sum(x.nterms() for x in a.flat())
    return a.nterms() if isinstance(a, Poly) else 0


def no_bad_wrap(it):
    bad = [e for e in it.events if e[0] == "noncongruent-wrap"]
    if bad:
        raise ObFail("angle wrap is not congruent modulo 2*pi (%s)" % bad[0][1])


def make_vertex(it, vid, pose):
    return it.construct("Vertex", [Poly.const(vid), pose])


def make_edge(it, cfg, p1, p2, z, off, info=None, ids=(1, 2)):
    """Build the edge object by interpreting the package's own constructors."""
    ec, t1, t2, tz, toff = cfg
    v1, v2 = make_vertex(it, ids[0], p1), make_vertex(it, ids[1], p2)
    if info is None:
        n = CDIM[tz]
        info = sym_mat("W", n, n)
    vids = [Poly.const(ids[0]), Poly.const(ids[1])]
    if ec == "EdgeOdometry":
        e = it.construct(ec, [vids, info, z, [v1, v2]])
    else:
        e = it.construct(ec, [vids, info, z, off], dict(vertices=[v1, v2]))
    return e


def sym_config(cfg, unit=True, names=("p1", "p2", "z", "off")):
    ec, t1, t2, tz, toff = cfg
    p1 = sym_pose(t1, names[0], unit)
    p2 = sym_pose(t2, names[1], unit)
    z = sym_pose(tz, names[2], unit)
    off = sym_pose(toff, names[3], unit) if toff else None
    return p1, p2, z, off


def delta_vec(t, name="d"):
    c = CDIM[t]
    return sym_vec(name, c, angle_idx=(2,) if t == "PoseSE2" else ())


def zero_hook(zero_vars, generic=False):
    """Decide comparisons at the point where zero_vars = 0 when the sign there is strict (continuity).

    generic=True (derivative obligations: zero_vars is the increment the value is differentiated by): a quantity that depends on
    the increment and does not vanish identically at increment 0 is non-zero in a punctured neighbourhood of 0 for all operands
    outside a measure-zero set, so its `== 0` branch does not take part in the derivative -- the identity is then decided for
    generic operands; what the code does on the exceptional set is a value-level question (C02 / C09).  A remaining exact
    equality that involves the increment makes a failing path undecided (a formal derivative means nothing there)."""
    zset = set(zero_vars)

    def depends(d):
        todo, seen = [d], set()
        while todo:
            q = todo.pop()
            for v in q.variables():
                if v in seen:
                    continue
                seen.add(v)
                if v in zset or (v.startswith(("cos(", "sin(")) and v[4:-1] in zset):
                    return True
                i = poly.var_index(v)
                if i in poly.R.atom_arg:
                    todo.append(poly.R.atom_arg[i][1])
        return False

    def hook(d):
        if generic == "everywhere":
            # the value is differentiated at a generic point of the operand itself: any non-trivial equality in it is exceptional
            return {-1, 1} if depends(d) else None
        try:
            v, _ = point_eval(d, zero_vars)
        except Unsupported:
            return None
        c = v.const_value()
        if c is None or c == 0:
            if generic and c is None and depends(d):
                return {-1, 1}
            return None
        return 1 if c > 0 else -1
    if generic:
        hook.generic_vars = zset
        hook.depends = depends
    return hook


# ------------------------------------------------------------------------------------------------ reference model
def I(n):
    return [[Poly.const(1 if i == j else 0) for j in range(n)] for i in range(n)]


def ref_rot(q):
    """Rotation matrix of quaternion (x, y, z, w) -- the checker's own statement, not derived from the repo."""
    x, y, z, w = q
    return [[w * w + x * x - y * y - z * z, 2 * (x * y - w * z), 2 * (x * z + w * y)],
            [2 * (x * y + w * z), w * w - x * x + y * y - z * z, 2 * (y * z - w * x)],
            [2 * (x * z - w * y), 2 * (y * z + w * x), w * w - x * x - y * y + z * z]]


def ham(p, q):
    """Hamilton product p (x) q for quaternions stored (x, y, z, w)."""
    x1, y1, z1, w1 = p
    x2, y2, z2, w2 = q
    return [w1 * x2 + x1 * w2 + y1 * z2 - z1 * y2,
            w1 * y2 - x1 * z2 + y1 * w2 + z1 * x2,
            w1 * z2 + x1 * y2 - y1 * x2 + z1 * w2,
            w1 * w2 - x1 * x2 - y1 * y2 - z1 * z2]


def conj(q):
    return [-q[0], -q[1], -q[2], q[3]]


def matvec(M, v):
    return [sum((M[i][j] * v[j] for j in range(len(v))), Poly()) for i in range(len(M))]


def transpose(M):
    return [list(r) for r in zip(*M)]


def matmul(A, B):
    Bt = transpose(B)
    return [[sum((a * b for a, b in zip(r, c)), Poly()) for c in Bt] for r in A]


def ref_cos_sin(it, ang):
    return it.cos_sin(ang, None)


def ref_R_t(it, p):
    """(R, t) of a pose value in the reference model."""
    c = p.cls
    if c in ("PoseR2", "PoseR3"):
        n = len(p.data)
        return I(n), list(p.data)
    if c == "PoseSE2":
        co, si = it.cos_sin(p.data[2], None)
        return [[co, -si], [si, co]], list(p.data[:2])
    return ref_rot(p.data[3:7]), list(p.data[:3])


def ref_matrix(it, p):
    R, t = ref_R_t(it, p)
    n = len(t)
    return Arr([R[i] + [t[i]] for i in range(n)] + [[Poly.const(0)] * n + [Poly.const(1)]], 2)


# ---------------------------------------------------------------------------------------------- results handed out by reference
_SCRIBBLE = [0]


def snapshot(v):
    """A deep copy of an array / list of arrays (the value a caller saw when the call returned)."""
    from .interp import Arr as _Arr
    if isinstance(v, _Arr):
        return _Arr([list(r) for r in v.data] if v.ndim == 2 else list(v.data), v.ndim)
    if isinstance(v, (list, tuple)):
        return [snapshot(x) for x in v]
    return v


def scribble(v):
    """Overwrite, in place, every entry of a returned array (what a caller does with `J *= w`, `J[0, 0] = ...`): any later call
    that hands out the same storage is then visibly wrong."""
    from .interp import Arr as _Arr
    if isinstance(v, _Arr):
        _SCRIBBLE[0] += 1
        junk = Poly.var("caller_wrote#%d" % _SCRIBBLE[0])
        if v.ndim == 2:
            for r in v.data:
                for j in range(len(r)):
                    r[j] = junk
        else:
            for j in range(len(v.data)):
                v.data[j] = junk
    elif isinstance(v, (list, tuple)):
        for x in v:
            scribble(x)


# ---------------------------------------------------------------------------------------------- user-defined (custom) edges
def custom_edge(it, vertex_ids, information=None, estimate=None, vertices=None, cls="BaseEdge", **extra):
    """An instance of a user-defined edge class: an object of (a subclass of) BaseEdge initialised by BaseEdge.__init__ itself,
    so that whatever the constructor stores (plain attributes, properties with setters, ...) is what the methods later find."""
    from .interp import Obj as _Obj, sa as _sa
    if information is None or estimate is None:
        # a well-formed edge has a measurement and an information matrix: unless the caller supplies them they are fresh symbols
        n_ = it.__dict__.setdefault("_custom_edges", 0)
        it._custom_edges = n_ + 1
        if information is None:
            information = Arr([[Poly.var("Wc%d[%d,%d]" % (n_, min(i, j), max(i, j))) for j in range(2)] for i in range(2)], 2)
        if estimate is None:
            estimate = sym_vec("zc%d" % n_, 2)
    e = _Obj(cls)
    init = it.pkg.lookup(cls if cls in it.pkg.classes else "BaseEdge", "__init__")
    if init is None or init[0] != "method":
        raise AnalysisError("anchor vanished: BaseEdge.__init__")
    it.call_function(init[1][0], [e], dict(vertex_ids=vertex_ids, information=information, estimate=estimate, vertices=vertices))
    for k, v in extra.items():
        _sa(e, k, v)
    return e
