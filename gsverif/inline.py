"""AST-level inlining of private helper methods/functions into a function (so that intraprocedural CFG rules are not
defeated by the most common refactoring: extracting a few lines of a long function into helpers).

Inlined are calls `self.<m>(...)` to methods of the same class and calls `<f>(...)` to module-level functions of the package,
when the callee has one of these shapes (anything else is left as a call):
  * expression helper:   [docstring]  return <expr>                      -> the call is replaced by <expr>
  * procedure helper:    statements without `return <value>`             -> an expression statement `self.m(...)` is replaced by them
  * value helper:        statements, then a final `return <expr>`        -> `x = self.m(...)` becomes statements; `x = <expr>`
Parameters are substituted (simple arguments) or bound to fresh temporaries; the helper's locals are renamed apart.
"""
import ast
import copy

from .model import strip_docstring


class _Counter:
    n = 0


def _has_nested(fn):
    for x in ast.walk(fn):
        if x is not fn and isinstance(x, (ast.FunctionDef, ast.Lambda, ast.ClassDef, ast.Yield, ast.YieldFrom, ast.Global, ast.Nonlocal)):
            return True
    return False


def _returns(body):
    out = []
    for st in body:
        for x in ast.walk(st):
            if isinstance(x, ast.Return):
                out.append(x)
    return out


def classify(fn):
    body = strip_docstring(fn.body)
    if not body or _has_nested(fn) or fn.args.vararg or fn.args.kwarg:
        return None, body
    rets = _returns(body)
    if len(body) == 1 and isinstance(body[0], ast.Return) and body[0].value is not None:
        return "expr", body
    if not rets or all(r.value is None for r in rets) and all(r is body[-1] for r in rets):
        return "proc", [s for s in body if not isinstance(s, ast.Return)]
    if len(rets) == 1 and rets[0] is body[-1] and rets[0].value is not None:
        return "value", body
    return None, body


def _bind(fn, call, is_method, prefix):
    """(pre-statements, name->expr mapping) binding the callee's parameters to the call's arguments."""
    params = [a.arg for a in fn.args.args]
    if is_method:
        params = params[1:]
    args = list(call.args)
    kws = {k.arg: k.value for k in call.keywords if k.arg}
    defaults = fn.args.defaults
    pre, mp = [], {}
    for i, p in enumerate(params):
        if i < len(args):
            a = args[i]
        elif p in kws:
            a = kws[p]
        else:
            j = i - (len(params) - len(defaults))
            if j < 0:
                return None, None
            a = defaults[j]
        if isinstance(a, (ast.Name, ast.Constant)) or (isinstance(a, ast.Attribute) and isinstance(a.value, ast.Name)) or \
                (isinstance(a, ast.UnaryOp) and isinstance(a.operand, ast.Constant)):
            mp[p] = a
        else:
            tmp = "%s%s" % (prefix, p)
            pre.append(ast.Assign(targets=[ast.Name(id=tmp, ctx=ast.Store())], value=copy.deepcopy(a), lineno=call.lineno, col_offset=0))
            mp[p] = ast.Name(id=tmp, ctx=ast.Load())
    return pre, mp


class _Subst(ast.NodeTransformer):
    def __init__(self, mp, locals_, prefix):
        self.mp, self.locals, self.prefix = mp, locals_, prefix

    def visit_Name(self, node):
        if node.id in self.mp and isinstance(node.ctx, ast.Load):
            return copy.deepcopy(self.mp[node.id])
        if node.id in self.locals:
            return ast.copy_location(ast.Name(id=self.prefix + node.id, ctx=node.ctx), node)
        return node


def _locals(fn, params):
    out = set()
    for x in ast.walk(fn):
        if isinstance(x, ast.Name) and isinstance(x.ctx, ast.Store) and x.id not in params:
            out.add(x.id)
    # parameters that are re-assigned inside the helper must become locals as well
    for x in ast.walk(fn):
        if isinstance(x, ast.Name) and isinstance(x.ctx, ast.Store) and x.id in params:
            out.add(x.id)
    return out


def inline_helpers(pkg, fn, keep=(), max_rounds=4):
    """Returns (new FunctionDef, set of inlined callee FunctionDefs)."""
    cls = getattr(fn, "_gs_class", None)
    new = copy.deepcopy(fn)
    new._gs_module, new._gs_class = getattr(fn, "_gs_module", None), cls
    inlined = set()

    # local objects of known package classes:  x = ClassName(...)   (e.g. ret = OptimizationResult())
    local_classes = {}
    nested_defs = {}
    for st in ast.walk(fn):
        if isinstance(st, ast.Assign) and len(st.targets) == 1 and isinstance(st.targets[0], ast.Name) and isinstance(st.value, ast.Call):
            cn = ast.unparse(st.value.func)
            if cn in pkg.classes:
                local_classes.setdefault(st.targets[0].id, set()).add(cn)
    for st in ast.walk(fn):
        if isinstance(st, ast.FunctionDef) and st is not fn:
            nested_defs[st.name] = st

    def callee_of(call):
        f = call.func
        if isinstance(f, ast.Attribute) and isinstance(f.value, ast.Name) and f.value.id in local_classes and len(local_classes[f.value.id]) == 1:
            cname = next(iter(local_classes[f.value.id]))
            k = pkg.lookup(cname, f.attr)
            if k is not None and k[0] == "method" and not k[1][1] and not k[1][2]:
                return k[1][0], f.value.id
            return None, False
        if isinstance(f, ast.Name) and f.id in nested_defs and f.id not in keep:
            return nested_defs[f.id], False
        if isinstance(f, ast.Attribute) and isinstance(f.value, ast.Name) and f.value.id == "self" and cls:
            if f.attr in keep:
                return None, False
            k = pkg.lookup(cls, f.attr)
            if k is not None and k[0] == "method" and not k[1][1] and not k[1][2]:
                # only if no subclass in the package overrides it
                if any(pkg.own_method(c, f.attr) is not None for c in pkg.subclasses(cls)):
                    return None, False
                return k[1][0], True
        if isinstance(f, ast.Name) and f.id not in keep:
            fk_ = pkg.module_funcs.get(getattr(fn, "_gs_module", None), {}).get(f.id)
            if fk_ is not None:
                return pkg.funcs[fk_], False
        return None, False

    def subst_body(callee, call, is_method):
        _Counter.n += 1
        prefix = "__inl%d_" % _Counter.n
        pre, mp = _bind(callee, call, bool(is_method), prefix)
        if pre is None:
            return None
        if isinstance(is_method, str) and callee.args.args:
            mp[callee.args.args[0].arg] = ast.Name(id=is_method, ctx=ast.Load())     # self -> the local object
        params = set(mp)
        locs = _locals(callee, params)
        for p in list(mp):
            if p in locs:
                # re-assigned parameter: bind through a temporary local
                tmp = prefix + p
                pre.append(ast.Assign(targets=[ast.Name(id=tmp, ctx=ast.Store())], value=copy.deepcopy(mp[p]), lineno=call.lineno, col_offset=0))
                del mp[p]
        kind, body = classify(callee)
        body = [_Subst(mp, locs, prefix).visit(copy.deepcopy(s)) for s in body]
        return kind, pre, body

    class ExprInliner(ast.NodeTransformer):
        """Replace calls of expression helpers inside expressions."""
        def __init__(self, allow_value=False):
            self.changed = False
            self.pre = []
            self.allow_value = allow_value

        def visit_Call(self, node):
            self.generic_visit(node)
            callee, is_method = callee_of(node)
            if callee is None:
                return node
            kind, _ = classify(callee)
            if kind not in ("expr", "value") or (kind == "value" and not self.allow_value):
                return node
            r = subst_body(callee, node, is_method)
            if r is None:
                return node
            _, pre, body = r
            self.pre.extend(pre)
            self.changed = True
            inlined.add(callee)
            if kind == "value":
                # hoist the helper's statements in front of the enclosing simple statement, keep its result expression
                self.pre.extend(body[:-1])
                return ast.copy_location(body[-1].value, node)
            return ast.copy_location(body[0].value, node)

    def do_block(stmts):
        out, changed = [], False
        for st in stmts:
            # compound statements: recurse
            for field in ("body", "orelse", "finalbody"):
                if isinstance(getattr(st, field, None), list) and not isinstance(st, (ast.FunctionDef, ast.ClassDef)):
                    nb, ch = do_block(getattr(st, field))
                    setattr(st, field, nb)
                    changed |= ch
            if isinstance(st, ast.Try):
                for h in st.handlers:
                    h.body, ch = do_block(h.body)
                    changed |= ch
            # procedure / value helpers at statement level
            call = None
            if isinstance(st, ast.Expr) and isinstance(st.value, ast.Call):
                call = st.value
            elif isinstance(st, ast.Assign) and isinstance(st.value, ast.Call):
                call = st.value
            elif isinstance(st, ast.Return) and isinstance(st.value, ast.Call):
                call = st.value
            if call is not None:
                callee, is_method = callee_of(call)
                if callee is not None:
                    kind, _ = classify(callee)
                    if kind == "proc" and isinstance(st, ast.Expr):
                        r = subst_body(callee, call, is_method)
                        if r is not None:
                            out.extend(r[1] + r[2])
                            inlined.add(callee)
                            changed = True
                            continue
                    if kind == "value":
                        r = subst_body(callee, call, is_method)
                        if r is not None:
                            _, pre, body = r
                            out.extend(pre + body[:-1])
                            if isinstance(st, ast.Return):
                                out.append(ast.copy_location(ast.Return(value=body[-1].value), st))
                            elif isinstance(st, ast.Assign):
                                out.append(ast.copy_location(ast.Assign(targets=st.targets, value=body[-1].value, lineno=st.lineno), st))
                            else:
                                out.append(ast.copy_location(ast.Expr(value=body[-1].value), st))
                            inlined.add(callee)
                            changed = True
                            continue
            # expression helpers anywhere in the header / simple statement
            ei = ExprInliner(allow_value=isinstance(st, (ast.Expr, ast.Assign, ast.AugAssign, ast.AnnAssign, ast.Return, ast.If)))
            if isinstance(st, (ast.If, ast.While)):
                st.test = ei.visit(st.test)
            elif isinstance(st, ast.For):
                st.iter = ei.visit(st.iter)
            elif isinstance(st, (ast.Expr, ast.Assign, ast.AugAssign, ast.AnnAssign, ast.Return, ast.Assert)):
                st = ei.visit(st)
            out.extend(ei.pre)
            out.append(st)
            changed |= ei.changed
        return out, changed

    for _ in range(max_rounds):
        new.body, changed = do_block(new.body)
        if not changed:
            break
    ast.fix_missing_locations(new)
    return new, inlined
