"""Regular expressions over the .g2o text model.

The text model represents a line as a Python string in which every number is an opaque, whitespace-free token
(`\\x01<k>\\x02`) standing for *every* spelling `float()` / `int()` accepts.  A regular expression from the analysed source is
evaluated with Python's own `re` on a finite family of *spelling variants* of that line: in variant v every token is replaced by
the v-th representative spelling (plain digits, signed, with a fraction, with an exponent, leading dot, trailing dot, many
digits).  The results are mapped back to token strings through the spans of the substitutions and must agree across all
variants:

  * a pattern that matches one spelling of a number but not another (e.g. `\\d+` against a signed id), or captures different
    things for different spellings, is reported as a `LossyOperation` (the reader does not accept every spelling the property
    quantifies over);
  * a group / split piece whose span cuts through the spelling of a number is reported likewise (the number is not read whole).

Representatives cover the character kinds a number is made of (digit, sign, '.', 'e'/'E') and a long digit run; a pattern that
discriminates spellings on some other basis (e.g. exactly 3 digits vs 4) is outside what this model distinguishes beyond those.
"""
import re

FLOAT_SPELLINGS = ["7", "-7", "+7", "7.25", "-7.25e-3", "7E+20", ".5", "5.", "-12345678901234567.5", "0"]
INT_SPELLINGS = ["7", "-7", "+7", "12345678901234567", "0", "-0", "007", "70", "-70", "+70"]

TOKEN_RE = re.compile("\x01(\\d+)\x02")


class Regex:
    def __init__(self, pattern, flags=0):
        self.pattern, self.flags = pattern, flags
        self.rx = re.compile(pattern, flags)

    def __repr__(self):
        return "<regex %r>" % self.pattern


class Match:
    """An abstract match object: groups are text-model strings (or None)."""

    def __init__(self, regex, whole, groups, names, spans=None):
        self.regex, self.whole, self.groups_, self.names = regex, whole, groups, names
        self.spans = spans or []        # abstract (start, end) of the whole match and of every group

    def span(self, i=0):
        if isinstance(i, str):
            i = self.names[i]
        if not 0 <= i < len(self.spans):
            raise IndexError("no such group")
        return self.spans[i]

    def group(self, *idx):
        def one(i):
            if isinstance(i, str):
                if i not in self.names:
                    raise IndexError("no such group")
                i = self.names[i]
            if i == 0:
                return self.whole
            if not 1 <= i <= len(self.groups_):
                raise IndexError("no such group")
            return self.groups_[i - 1]
        if not idx:
            return self.whole
        if len(idx) == 1:
            return one(idx[0])
        return tuple(one(i) for i in idx)


class SpellingDependent(Exception):
    pass


def _variants(subject, is_int_token):
    """Yield (concrete string, spans) for every spelling variant; spans = [(start, end, token text)] of the substituted tokens."""
    toks = list(TOKEN_RE.finditer(subject))
    base = max(len(FLOAT_SPELLINGS), len(INT_SPELLINGS))
    nvar = (base + (3 if len(toks) > 1 else 0)) if toks else 1     # all tokens alike, then a few mixed assignments
    for v in range(nvar):
        out, spans, pos, cur = [], [], 0, 0
        for k, m in enumerate(toks):
            lit = subject[pos:m.start()]
            out.append(lit)
            cur += len(lit)
            table = INT_SPELLINGS if is_int_token(m.group(0)) else FLOAT_SPELLINGS
            sp = table[(v + 3 * k) % len(table)] if v >= base else table[v % len(table)]
            out.append(sp)
            spans.append((cur, cur + len(sp), m.group(0)))
            cur += len(sp)
            pos = m.end()
        out.append(subject[pos:])
        yield "".join(out), spans


def _apos(subject, spans, cpos):
    """Concrete position -> position in the text-model string (must not fall inside the spelling of a number)."""
    if cpos < 0:
        return -1
    shift = 0
    for a, b, tok in spans:
        if cpos >= b:
            shift += (b - a) - len(tok)
        elif cpos > a:
            raise SpellingDependent("a match boundary falls inside the spelling of a number")
    return cpos - shift


def _cpos(spans, apos):
    """Position in the text-model string -> concrete position in this variant."""
    shift = 0
    for a, b, tok in spans:
        a_abs = a - shift
        if apos >= a_abs + len(tok):
            shift += (b - a) - len(tok)
        elif apos > a_abs:
            raise SpellingDependent("a start position falls inside a number token")
    return apos + shift


def _back(concrete, spans, s, e):
    """Map the span [s, e) of the concrete string back to text-model form."""
    if s < 0:
        return None
    out, pos = [], s
    for a, b, tok in spans:
        if b <= s or a >= e:
            continue
        if a < s or b > e:
            raise SpellingDependent("a group / piece boundary falls inside the spelling of a number (%r of %r)" % (
                concrete[max(a, s):min(b, e)], concrete[a:b]))
        out.append(concrete[pos:a])
        out.append(tok)
        pos = b
    out.append(concrete[pos:e])
    return "".join(out)


def _agree(results, what, pattern):
    first = results[0]
    for conc, r in results[1:]:
        if r != first[1]:
            raise SpellingDependent("the pattern %r %s differently for different spellings of the same numbers: %r on %r, %r on %r" % (
                pattern, what, _short(first[1]), first[0][:60], _short(r), conc[:60]))
    return first[1]


def _short(r):
    s = repr(r)
    return s if len(s) < 80 else s[:77] + "..."


def _aspans(subject, spans, m, ngroups):
    return tuple((_apos(subject, spans, m.start(i)), _apos(subject, spans, m.end(i))) for i in range(0, ngroups + 1))


def match(regex, subject, is_int_token, how="match", pos=0):
    """how in match / fullmatch / search.  Returns Match or None; raises SpellingDependent."""
    results = []
    for conc, spans in _variants(subject, is_int_token):
        m = getattr(regex.rx, how)(conc, _cpos(spans, pos))
        if m is None:
            results.append((conc, None))
            continue
        whole = _back(conc, spans, m.start(), m.end())
        groups = tuple(_back(conc, spans, *m.span(i)) for i in range(1, regex.rx.groups + 1))
        results.append((conc, (whole, groups, _aspans(subject, spans, m, regex.rx.groups))))
    r = _agree(results, "matches", regex.pattern)
    if r is None:
        return None
    return Match(regex, r[0], list(r[1]), dict(regex.rx.groupindex), list(r[2]))


def finditer(regex, subject, is_int_token, pos=0):
    results = []
    for conc, spans in _variants(subject, is_int_token):
        ms = []
        for m in regex.rx.finditer(conc, _cpos(spans, pos)):
            ms.append((_back(conc, spans, m.start(), m.end()),
                       tuple(_back(conc, spans, *m.span(i)) for i in range(1, regex.rx.groups + 1)),
                       _aspans(subject, spans, m, regex.rx.groups)))
        results.append((conc, tuple(ms)))
    r = _agree(results, "finds matches", regex.pattern)
    return [Match(regex, w, list(g), dict(regex.rx.groupindex), list(sp)) for w, g, sp in r]


def split(regex, subject, is_int_token, maxsplit=0):
    results = []
    for conc, spans in _variants(subject, is_int_token):
        pieces, pos, nsplit = [], 0, 0
        for m in regex.rx.finditer(conc):
            if maxsplit and nsplit >= maxsplit:
                break
            if m.end() == m.start() and (m.start() == 0 or m.start() == len(conc)) and False:
                continue
            pieces.append(_back(conc, spans, pos, m.start()))
            for i in range(1, regex.rx.groups + 1):
                pieces.append(_back(conc, spans, *m.span(i)))
            pos = m.end()
            nsplit += 1
        pieces.append(_back(conc, spans, pos, len(conc)))
        # cross-check against re.split itself (same number of pieces; empty-match semantics)
        real = regex.rx.split(conc, maxsplit)
        if len(real) != len(pieces):
            raise SpellingDependent("unsupported empty-match behaviour of re.split for %r" % regex.pattern)
        results.append((conc, tuple(pieces)))
    return list(_agree(results, "splits the line", regex.pattern))


def sub(regex, repl, subject, is_int_token, count=0):
    if "\\" in repl:
        raise SpellingDependent("replacement templates with back-references are not modelled")
    results = []
    for conc, spans in _variants(subject, is_int_token):
        pieces, pos, k = [], 0, 0
        for m in regex.rx.finditer(conc):
            if count and k >= count:
                break
            pieces.append(_back(conc, spans, pos, m.start()))
            pieces.append(repl)
            pos = m.end()
            k += 1
        pieces.append(_back(conc, spans, pos, len(conc)))
        results.append((conc, "".join(pieces)))
    return _agree(results, "substitutes", regex.pattern)


def selftest():
    none = lambda t: False
    rx = Regex(r"(VERTEX_XY|VERTEX_SE2) \s*(\S+)\s+(.+)")
    m = match(rx, "VERTEX_SE2 \x010\x02 \x011\x02 \x012\x02\n", none)
    assert m is not None and m.groups_ == ["VERTEX_SE2", "\x010\x02", "\x011\x02 \x012\x02"], m.groups_
    try:
        match(Regex(r"V (\d+) (.+)"), "V \x010\x02 \x011\x02", lambda t: t == "\x010\x02")
        raise AssertionError("unsigned-only id pattern must be spelling dependent")
    except SpellingDependent:
        pass
    try:
        match(Regex(r"V (\S)\S* (.+)"), "V \x010\x02 \x011\x02", none)
        raise AssertionError("a group that cuts a number must be reported")
    except SpellingDependent:
        pass
    assert split(Regex(r"\s+"), "a \x010\x02\t\x011\x02", none) == ["a", "\x010\x02", "\x011\x02"]
    assert [m.whole for m in finditer(Regex(r"\S+"), " a \x010\x02 ", none)] == ["a", "\x010\x02"]
    assert match(Regex(r"[-+]?\d+$"), "\x010\x02", lambda t: True) is not None
    assert sub(Regex(r"\s+"), " ", "a  \x010\x02\t b", none) == "a \x010\x02 b"
    m = match(Regex(r"(?P<tag>A|B) "), "B \x010\x02 \x011\x02", none)
    assert m.span(0) == (0, 2) and m.span("tag") == (0, 1)
    assert [x.whole for x in finditer(Regex(r"\S+"), "B \x010\x02 \x011\x02", none, pos=m.span(0)[1])] == ["\x010\x02", "\x011\x02"]
